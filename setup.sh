#!/bin/bash
# offline setup: nothing to build -- the engine is pure Python run by the pre-installed tooling venv
set -e
cd "$(dirname "$0")"
/usr/local/bin/python3-vt -c "import z3, jsonschema; print('z3', z3.get_version_string())" 2>&1 | grep -v conda
test -x /usr/bin/cvc5 && echo "cvc5 present"
test -x /venv/bin/python && echo "repo python present"
mkdir -p evidence replays
