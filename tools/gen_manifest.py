"""Regenerates MANIFEST.json from the MANIFEST dicts of contracts/cXX.py (python3-vt tools/gen_manifest.py)."""
import importlib, json, os, sys
V = os.path.dirname(os.path.dirname(os.path.abspath(__file__)))
sys.path.insert(0, V)
props = [json.loads(l) for l in open(os.path.join(V, 'properties.jsonl'))]
NA_REASON = {}
if os.path.exists(os.path.join(V, 'tools', 'not_applicable.json')):
    NA_REASON = json.load(open(os.path.join(V, 'tools', 'not_applicable.json')))
checks, na = [], []
for p in props:
    pid = p['id']
    try:
        mod = importlib.import_module(f'contracts.{pid.lower()}')
        meta = getattr(mod, 'MANIFEST', None)
    except ModuleNotFoundError:
        meta = None
    if meta is None:
        na.append({'property_id': pid, 'reason': NA_REASON.get(pid, 'check not built yet (work in progress); see DESIGN.md section 6')})
        continue
    checks.append({
        'property_id': pid,
        'quick_cmd': f'./check {pid} --tier quick',
        'thorough_cmd': f'./check {pid} --tier thorough',
        'evidence_file': f'evidence/{pid}.json',
        'replay_cmd_template': f'./check {pid} --replay {{path}}',
        'engine': 'pyvc',
        'level_claimed': {'category': meta['category'], 'text': meta['text'], 'design_ref': meta.get('design_ref', f'DESIGN.md section 6 {pid}')},
        'level_note': meta['note'],
        'technique': meta['technique'],
    })
m = {
    'version': 1,
    'setup_cmd': './setup.sh',
    'hooks': {'guard': 'S3TRANSFER_VERIF', 'enable': 'no hooks: contracts are sidecar files under /verif/contracts; /repo/s3transfer is parsed with ast on every run',
              'baseline_off_cmd': 'cd /repo && /venv/bin/python -m pytest -ra -q -p no:cacheprovider --timeout=900 --continue-on-collection-errors',
              'source_commits': [], 'add_only': True},
    'engines': [{'name': 'pyvc', 'path': 'pyvc/', 'serves_properties': [c['property_id'] for c in checks],
                 'kind_free_text': 'own VC generator: symbolic execution of the real AST of /repo/s3transfer against sidecar contracts (pre/post, loop invariants, monitor invariants, ghost event traces, lock discipline); obligations discharged by z3 5.1 (python wheel), cvc5 on unknown'}],
    'checks': checks,
    'notes': 'Contract-based deductive verification; see DESIGN.md. Exit codes: 0 held, 1 violation, 2 undecided, 3 checker crash.',
    'not_applicable': na,
}
json.dump(m, open(os.path.join(V, 'MANIFEST.json'), 'w'), indent=1)
import jsonschema
jsonschema.validate(m, json.load(open('/root/.vp/MANIFEST.schema.json')))
print('MANIFEST ok:', len(checks), 'checks,', len(na), 'not applicable')
