#!/usr/bin/env python3
"""Rewrites the obligation counts in the per-property table of DESIGN.md from evidence/*.json."""
import json, os, re
V = os.path.dirname(os.path.dirname(os.path.abspath(__file__)))
p = os.path.join(V, 'DESIGN.md')
s = open(p).read()
for i in range(1, 21):
    pid = f'C{i:02d}'
    ev = json.load(open(os.path.join(V, 'evidence', pid + '.json')))
    n, k = ev['coverage']['obligations'], ev['coverage'].get('obligations_failing_under_known_findings', 0)
    kf = ','.join(ev['coverage'].get('known_findings_hit', []))
    cell = f'{n}' + (f' (+{k} under {kf})' if k else '')
    s, cnt = re.subn(rf'^\| {pid} \| (proof|other) \| [^|]* \|', lambda m: f'| {pid} | {m.group(1)} | {cell} |', s, count=1, flags=re.M)
    assert cnt == 1, pid
open(p, 'w').write(s)
print('DESIGN.md table refreshed')
