#!/usr/bin/env python3
"""Neutral-edit probe (development aid): behaviour-preserving AST edits inside functions under contract must never turn
a check into a VIOLATION (exit 1).  Exit 2 (contract no longer attaches) is tolerated and counted.
Edits: rename one local variable consistently; swap the branches of an if/else under a negated test; expand an augmented
assignment; bind a returned expression to a fresh local first; insert a debug log statement at the top.
usage: tools/neutral.py <out.jsonl> [--max N] [--seed S] [--module name.py ...]"""
import ast, copy, glob, json, os, random, shutil, subprocess, sys, tempfile, time
sys.path.insert(0, os.path.dirname(os.path.abspath(__file__)))
from mutate import functions_under_contract, V, REPO


def local_names(fn):
    params = {a.arg for a in ast.walk(fn.args) if isinstance(a, ast.arg)}
    stored = {n.id for n in ast.walk(fn) if isinstance(n, ast.Name) and isinstance(n.ctx, ast.Store)}
    nested = {n.id for d in ast.walk(fn) if isinstance(d, (ast.FunctionDef, ast.Lambda)) and d is not fn for n in ast.walk(d) if isinstance(n, ast.Name)}
    glob_ = {n for d in ast.walk(fn) if isinstance(d, (ast.Global, ast.Nonlocal)) for n in d.names}
    return sorted(stored - params - nested - glob_)


def edits(fn):
    for name in local_names(fn):
        yield f'rename local {name}', ('rename', name)
    nodes = list(ast.walk(fn))
    for i, n in enumerate(nodes):
        if isinstance(n, ast.If) and n.orelse and not (len(n.orelse) == 1 and isinstance(n.orelse[0], ast.If)):
            yield f'swap if/else @{n.lineno}', ('swap', i)
        elif isinstance(n, ast.AugAssign) and isinstance(n.target, ast.Name):
            yield f'expand augassign @{n.lineno}', ('aug', i)
        elif isinstance(n, ast.Return) and n.value is not None and not isinstance(n.value, (ast.Name, ast.Constant)):
            yield f'bind return value @{n.lineno}', ('ret', i)
    # two adjacent simple assignments `a = <call-free expr>; b = <call-free expr>` that do not mention each other's target
    for parent in nodes:
        for field, val in ast.iter_fields(parent):
            if isinstance(val, list) and all(isinstance(x, ast.stmt) for x in val):
                for j in range(len(val) - 1):
                    x, y = val[j], val[j + 1]
                    if _pure_assign(x) and _pure_assign(y):
                        tx, ty = x.targets[0], y.targets[0]
                        nx = {n.id for n in ast.walk(x) if isinstance(n, ast.Name)} | {ast.unparse(tx)}
                        ny = {n.id for n in ast.walk(y) if isinstance(n, ast.Name)} | {ast.unparse(ty)}
                        kx = ast.unparse(tx).split('.')[0].split('[')[0]
                        ky = ast.unparse(ty).split('.')[0].split('[')[0]
                        if ast.unparse(tx) not in ast.unparse(y) and ast.unparse(ty) not in ast.unparse(x) and not (
                                isinstance(tx, ast.Attribute) and isinstance(ty, ast.Attribute) and False):
                            sx, sy = ast.unparse(tx), ast.unparse(ty)
                            if sx != sy and sx.split('.')[-1] not in {n.id for n in ast.walk(y.value) if isinstance(n, ast.Name)} and \
                                    sy.split('.')[-1] not in {n.id for n in ast.walk(x.value) if isinstance(n, ast.Name)}:
                                yield f'swap independent assignments @{x.lineno}', ('swapstmt', (x.lineno, y.lineno))
    yield 'insert debug log at top', ('log', None)


def _pure_assign(x):
    if not (isinstance(x, ast.Assign) and len(x.targets) == 1):
        return False
    t = x.targets[0]
    okt = isinstance(t, ast.Name) or (isinstance(t, ast.Attribute) and isinstance(t.value, ast.Name) and t.value.id == 'self')
    return okt and not any(isinstance(n, (ast.Call, ast.Await, ast.Yield, ast.NamedExpr, ast.Subscript, ast.BinOp, ast.Attribute))
                           for n in ast.walk(x.value))


class Renamer(ast.NodeTransformer):
    def __init__(self, old, new):
        self.old, self.new = old, new

    def visit_Name(self, n):
        if n.id == self.old:
            n.id = self.new
        return n


def apply(fn, what):
    kind, arg = what
    if kind == 'rename':
        Renamer(arg, arg + '_renamed').visit(fn)
        return
    if kind == 'log':
        stmt = ast.parse("logger.debug('neutral edit probe')").body[0]
        pos = 1 if (fn.body and isinstance(fn.body[0], ast.Expr) and isinstance(fn.body[0].value, ast.Constant) and isinstance(fn.body[0].value.value, str)) else 0
        fn.body.insert(pos, stmt)
        return
    if kind == 'swapstmt':
        lx, ly = arg
        for parent in ast.walk(fn):
            for field, val in ast.iter_fields(parent):
                if isinstance(val, list):
                    for j in range(len(val) - 1):
                        if isinstance(val[j], ast.stmt) and val[j].lineno == lx and val[j + 1].lineno == ly:
                            val[j], val[j + 1] = val[j + 1], val[j]
                            return
        return
    n = list(ast.walk(fn))[arg]
    if kind == 'swap':
        n.test = ast.UnaryOp(ast.Not(), n.test)
        n.body, n.orelse = n.orelse, n.body
    elif kind == 'aug':
        new = ast.Assign(targets=[ast.Name(n.target.id, ast.Store())], value=ast.BinOp(ast.Name(n.target.id, ast.Load()), n.op, n.value))
        for parent in ast.walk(fn):
            for field, val in ast.iter_fields(parent):
                if isinstance(val, list) and n in val:
                    val[val.index(n)] = new
    elif kind == 'ret':
        tmp = ast.Assign(targets=[ast.Name('neutral_ret_value', ast.Store())], value=n.value)
        for parent in ast.walk(fn):
            for field, val in ast.iter_fields(parent):
                if isinstance(val, list) and n in val:
                    i = val.index(n)
                    val[i:i + 1] = [tmp, ast.Return(ast.Name('neutral_ret_value', ast.Load()))]
                    return


def main():
    out = sys.argv[1]
    mx = int(sys.argv[sys.argv.index('--max') + 1]) if '--max' in sys.argv else 60
    seed = int(sys.argv[sys.argv.index('--seed') + 1]) if '--seed' in sys.argv else 1
    only = sys.argv[sys.argv.index('--module') + 1:] if '--module' in sys.argv else None
    fuc = functions_under_contract()
    cands = []
    for path in sorted(glob.glob(os.path.join(REPO, 's3transfer', '*.py'))):
        modfile = os.path.basename(path)
        if only and modfile not in only:
            continue
        modname = 's3transfer' if modfile == '__init__.py' else 's3transfer.' + modfile[:-3]
        tree = ast.parse(open(path).read())
        for cls in [None] + [c for c in tree.body if isinstance(c, ast.ClassDef)]:
            for fn in (tree.body if cls is None else cls.body):
                if not isinstance(fn, ast.FunctionDef):
                    continue
                q = f'{modname}:{cls.name + "." if cls else ""}{fn.name}'
                props = fuc.get(q)
                if not props:
                    continue
                for desc, what in edits(fn):
                    cands.append((modfile, cls.name if cls else None, fn.name, desc, what, sorted(props)))
    random.Random(seed).shuffle(cands)
    if '--kind' in sys.argv:
        k = sys.argv[sys.argv.index('--kind') + 1]
        cands = [c for c in cands if c[4][0] == k]
    n = 0
    for modfile, cname, fname, desc, what, props in cands:
        if n >= mx:
            break
        n += 1
        path = os.path.join(REPO, 's3transfer', modfile)
        tree = ast.parse(open(path).read())
        body = tree.body if cname is None else [c for c in tree.body if isinstance(c, ast.ClassDef) and c.name == cname][0].body
        fn = [f for f in body if isinstance(f, ast.FunctionDef) and f.name == fname][0]
        apply(fn, what)
        ast.fix_missing_locations(tree)
        scratch = tempfile.mkdtemp(prefix='pyvc_neu_', dir='/var/tmp')
        res = {'file': modfile, 'cls': cname, 'func': fname, 'desc': desc, 'props': props, 'runs': {}}
        try:
            shutil.copytree(os.path.join(REPO, 's3transfer'), os.path.join(scratch, 's3transfer'), ignore=shutil.ignore_patterns('__pycache__'))
            open(os.path.join(scratch, 's3transfer', modfile), 'w').write(ast.unparse(tree) + '\n')
            worst = 0
            for prop in props[:int(os.environ.get('NEUTRAL_MAX_PROPS', '2'))]:
                env = dict(os.environ, PYVC_REPO=scratch, PYVC_OUT=os.path.join(scratch, 'out'), PYVC_SELFTEST_CHILD='1')
                p = subprocess.run([os.path.join(V, 'check'), prop], cwd=V, env=env, capture_output=True, text=True, timeout=3600)
                fails = sorted(set(l.split('failed obligation: ')[1].split(' ')[0].split('#')[0] for l in p.stdout.splitlines() if 'failed obligation: ' in l))
                res['runs'][prop] = {'exit': p.returncode, 'failed': fails[:4],
                                     'other': [l[:220] for l in p.stdout.splitlines() if l.startswith(('OUT-OF', 'UNDEC', 'CHECKER'))][:3]}
                if p.returncode == 1:
                    worst = 1
                elif p.returncode in (2, 3) and worst == 0:
                    worst = p.returncode
            res['verdict'] = {0: 'quiet', 1: 'FALSE-ALARM', 2: 'undecided', 3: 'checker-error'}[worst]
        finally:
            shutil.rmtree(scratch, ignore_errors=True)
        open(out, 'a').write(json.dumps(res) + '\n')
        print(res['verdict'], modfile, cname, fname, desc, flush=True)


if __name__ == '__main__':
    main()
