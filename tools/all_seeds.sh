#!/bin/bash
# runs every stored seeded change against the check of the property it breaks (scratch worktree each; see try_seed.sh)
cd /verif
for d in seeded/*/; do
  id=$(basename $d); prop=${id:0:3}
  r=$(tools/try_seed.sh /verif/$d/patch.diff $prop 2>&1 | grep -E "exit=|does not apply" | head -1)
  echo "$id $r"
done
