#!/usr/bin/env python3
"""usage: tools/seed_meta.py <seed-id> [<confirm-log>] : runs the stored seeded change against the check of the property it
breaks (scratch worktree via try_seed.sh) and writes seeded/<id>/meta.json with what actually failed."""
import json, os, re, subprocess, sys
V = os.path.dirname(os.path.dirname(os.path.abspath(__file__)))
sid = sys.argv[1]
prop = sid[:3]
p = subprocess.run([os.path.join(V, 'tools', 'try_seed.sh'), os.path.join(V, 'seeded', sid, 'patch.diff'), prop], capture_output=True, text=True)
out = p.stdout
code = re.search(r'exit=(\d+)', out)
failed = sorted(set(re.sub(r'#\d+', '', m) for m in re.findall(r'failed obligation: (\S+)', out)))
bounded = sorted(set(re.findall(r'bounded stand-in: ([^:]+):', out)))
confirm = ''
if len(sys.argv) > 2 and os.path.exists(sys.argv[2]):
    for line in open(sys.argv[2]):
        key = re.sub(r'^C\d\dr\d+', '', sid) if re.match(r'C\d\dr\d', sid) else prop      # rounds 3, 4: lines start with the area letter
        if line.startswith(key + ' '):
            confirm = line.strip()
meta = {
    'seed_id': sid, 'breaks_property': prop,
    'needs_to_manifest': 'see README.md (written by the independent sub-agent that produced the change)',
    'confirmed_by': 'tools/confirm_seed.sh in the sub-agent\'s scratch worktree: ' + (confirm or 'existing unit+functional tests pass with the change, demo.py exits 1 on the changed tree and 0 on the unchanged tree'),
    'checks_run': f'tools/try_seed.sh seeded/{sid}/patch.diff {prop} (scratch worktree of /repo HEAD, removed afterwards)',
    'check_exit_code': int(code.group(1)) if code else None,
    'caught_by_check': prop if code and code.group(1) == '1' else None,
    'failing_obligations': failed[:12], 'bounded_standins_failing': bounded,
}
json.dump(meta, open(os.path.join(V, 'seeded', sid, 'meta.json'), 'w'), indent=1)
print(sid, meta['check_exit_code'], failed[:3], bounded)
