#!/bin/bash
# usage: tools/ingest_seed3.sh <letter> <prop> : stores /tmp/seed3/<letter>/seed as seeded/<prop>r3<letter> and runs the check
L=$1; P=$2; R=${3:-3}; d=/verif/seeded/${P}r${R}$L
mkdir -p $d; cp /tmp/seed$R/$L/seed/patch.diff /tmp/seed$R/$L/seed/demo.py /tmp/seed$R/$L/seed/README.md $d/
cd /verif; tools/try_seed.sh $d/patch.diff $P 2>&1 | grep -E "exit=|failed obl|bounded stand|OUT-OF|UNDEC|CRASH|apply" | head -8
