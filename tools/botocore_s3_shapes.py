"""Dumps the input-shape member names of the S3 operations used by s3transfer from the INSTALLED
botocore service model (the oracle of 'operation accepts parameter' for C15). Run with /venv/bin/python."""
import json
import botocore, botocore.session
m = botocore.session.get_session().get_service_model('s3')
ops = ['PutObject', 'CreateMultipartUpload', 'UploadPart', 'CompleteMultipartUpload', 'AbortMultipartUpload',
       'GetObject', 'HeadObject', 'CopyObject', 'UploadPartCopy', 'DeleteObject']
from botocore.httpchecksum import DEFAULT_CHECKSUM_ALGORITHM
print(json.dumps({'botocore': botocore.__version__, 'DEFAULT_CHECKSUM_ALGORITHM': DEFAULT_CHECKSUM_ALGORITHM,
                  'members': {op: sorted(m.operation_model(op).input_shape.members) for op in ops}}))
