"""Bounded stand-in (B3) for C15 (copy): the REAL TransferManager.copy is run against a recording fake client for every
subset of the copy arguments that have a HeadObject meaning; the HeadObject request issued for size discovery must carry
Bucket / Key (/ VersionId) of the copy source plus exactly the mapped equivalents of the given arguments, with their
values.  usage: b3_copyhead.py <repo_root> [--replay '<json list of argument names>']"""
import itertools, json, sys
root = sys.argv[1]
sys.path.insert(0, root)
from s3transfer.manager import TransferConfig, TransferManager
from s3transfer.copies import CopySubmissionTask

# the statement: copy-source conditions / keys are mapped to their HeadObject equivalents (same name without the
# CopySource prefix); arguments that apply to the source as they are keep their name
NAMES = sorted(CopySubmissionTask.EXTRA_ARGS_TO_HEAD_ARGS_MAPPING) + ['MetadataDirective', 'StorageClass']


def want(name):
    if name.startswith('CopySource') and name != 'CopySource':
        return name[len('CopySource'):]
    return name if name in ('RequestPayer', 'ExpectedBucketOwner') else None


class Meta:
    class events:
        @staticmethod
        def register_first(*a, **k): pass
        @staticmethod
        def register_last(*a, **k): pass
    class config:
        request_checksum_calculation = 'when_required'


class Client:
    meta = Meta()

    def __init__(self):
        self.heads = []

    def head_object(self, **kw):
        self.heads.append(kw)
        return {'ContentLength': 10}

    def copy_object(self, **kw):
        return {}


def run(names):
    c = Client()
    extra = {n: ('value-of', n) for n in names}
    with TransferManager(c, TransferConfig(max_request_concurrency=1, max_submission_concurrency=1)) as m:
        f = m.copy({'Bucket': 'sb', 'Key': 'sk'}, 'b', 'k', extra_args=dict(extra))
        try:
            f.result()
        except Exception as e:      # the fake accepts everything; an exception here is the library's
            return f'copy raised {type(e).__name__}: {e}'
    if len(c.heads) != 1:
        return f'{len(c.heads)} HeadObject requests'
    exp = {'Bucket': 'sb', 'Key': 'sk'}
    for n in names:
        w = want(n)
        if w is not None and n in CopySubmissionTask.EXTRA_ARGS_TO_HEAD_ARGS_MAPPING or w in ('RequestPayer', 'ExpectedBucketOwner'):
            if w is not None:
                exp[w] = ('value-of', n)
    if c.heads[0] != exp:
        return f'HeadObject got {c.heads[0]}, expected {exp}'
    return None


if '--replay' in sys.argv:
    names = json.loads(sys.argv[sys.argv.index('--replay') + 1])
    why = run(names)
    print(json.dumps({'names': names, 'violation': why}))
    sys.exit(1 if why else 0)
cnt = 0
for r in range(0, 3):
    for names in itertools.combinations(NAMES, r):
        cnt += 1
        why = run(list(names))
        if why:
            print(json.dumps({'cases': cnt, 'failing_case': list(names), 'why': why}))
            sys.exit(1)
print(json.dumps({'cases': cnt, 'failing_case': None, 'names': NAMES, 'max_args_at_once': 2, 'exhaustive': True}))
