"""Bounded stand-in (B3) for C16/C02: exhaustive small-domain check of the REAL DeferQueue under
CPython against the same contract (each byte once and in order, released as soon as contiguous).
usage: b3_deferqueue.py <repo_root> <object_size N> <max history length K> [--replay '<json history>']
Prints one JSON line. Exit 1 if a failing history exists."""
import itertools, json, sys
root, N, K = sys.argv[1], int(sys.argv[2]), int(sys.argv[3])
sys.path.insert(0, root)
from s3transfer.download import DeferQueue
OBJ = bytes(range(65, 65 + N))


def run(hist):
    q, out, covered = DeferQueue(), b'', set()
    for o, l in hist:
        ws = q.request_writes(o, OBJ[o:o + l])
        covered |= set(range(o, o + l))
        for w in ws:
            if w['offset'] != len(out):
                return f'write at offset {w["offset"]} but {len(out)} bytes were released so far'
            out += w['data']
        if out != OBJ[:len(out)]:
            return f'released {out!r} is not a prefix of the object'
        p = 0
        while p in covered:
            p += 1
        if len(out) < p:
            return f'bytes [0,{p}) were delivered but only {len(out)} released (withheld although contiguous)'
    return None


if '--replay' in sys.argv:
    h = [tuple(x) for x in json.loads(sys.argv[sys.argv.index('--replay') + 1])]
    why = run(h)
    print(json.dumps({'history': h, 'violation': why}))
    sys.exit(1 if why else 0)
chunks = [(o, l) for o in range(N) for l in range(0, N - o + 1)]
cnt = 0
for k in range(1, K + 1):
    for hist in itertools.product(chunks, repeat=k):
        cnt += 1
        why = run(hist)
        if why:
            print(json.dumps({'histories': cnt, 'failing_history': hist, 'why': why}))
            sys.exit(1)
print(json.dumps({'histories': cnt, 'failing_history': None, 'object_size': N, 'max_len': K, 'exhaustive': True}))
