#!/usr/bin/env python3
"""Records, for every function of /repo/s3transfer, its local variable names in order of first assignment
(contracts/bindings.json).  Run when contracts are (re)written against a tree: the engine uses the record to undo pure
renames of locals (see Repo._alpha_normalize).  usage: python3-vt tools/gen_bindings.py"""
import json, os, sys
V = os.path.dirname(os.path.dirname(os.path.abspath(__file__)))
sys.path.insert(0, V)
os.environ.setdefault('PYVC_REPO', '/repo')
from pyvc import repo as R
p = os.path.join(V, 'contracts', 'bindings.json')
if os.path.exists(p):
    os.rename(p, p + '.old')
try:
    rp = R.Repo()
    out = {}
    for mname, m in rp.modules.items():
        for fn, fi in m.funcs.items():
            out[f'{mname}:{fn}'] = R.first_store_order(fi.node)
        for cn, ci in m.classes.items():
            for fn, fi in ci.methods.items():
                out[f'{mname}:{cn}.{fn}'] = R.first_store_order(fi.node)
    out = {k: v for k, v in out.items() if v}
    json.dump(out, open(p, 'w'), indent=0, sort_keys=True)
    print(len(out), 'functions recorded')
finally:
    if os.path.exists(p + '.old'):
        os.remove(p + '.old')
