"""Bounded stand-in (B3) for C16/C02/C10: the REAL DownloadNonSeekableOutputManager (real DeferQueue, real write tasks,
real TransferCoordinator, synchronous real BoundedExecutor) is driven with every delivery history over a small object,
through both of its entry points (immediate: get_io_write_tasks + running the tasks; queued: queue_file_io_task).
Oracle = the contract: after every delivery the stream holds exactly the longest contiguous prefix of the bytes
delivered so far -- each byte once, in order.
usage: b3_streamsink.py <repo_root> <object_size N> <max history length K> [--replay '<json [mode, history]>']
Prints one JSON line. Exit 1 if a failing history exists."""
import itertools, json, sys
root, N, K = sys.argv[1], int(sys.argv[2]), int(sys.argv[3])
sys.path.insert(0, root)
from s3transfer.download import DownloadNonSeekableOutputManager
from s3transfer.futures import BoundedExecutor, NonThreadedExecutor, TransferCoordinator
from s3transfer.utils import OSUtils
OBJ = bytes(range(65, 65 + N))


class Sink:
    def __init__(self):
        self.data = b''

    def write(self, b):
        self.data += b


def run(mode, hist):
    coord = TransferCoordinator()
    ex = BoundedExecutor(1000, 1, executor_cls=NonThreadedExecutor)
    mgr = DownloadNonSeekableOutputManager(OSUtils(), coord, ex)
    sink, covered = Sink(), set()
    for o, l in hist:
        data = OBJ[o:o + l]
        if mode == 'immediate':
            for t in mgr.get_io_write_tasks(sink, data, o):
                t()
        else:
            mgr.queue_file_io_task(sink, data, o)
        if coord.exception is not None:
            return f'a write task failed: {coord.exception!r}'
        covered |= set(range(o, o + l))
        p = 0
        while p in covered:
            p += 1
        if sink.data != OBJ[:p]:
            return f'after delivering {hist[:hist.index((o, l)) + 1]} the stream holds {sink.data!r}, expected {OBJ[:p]!r}'
    return None


if '--replay' in sys.argv:
    mode, h = json.loads(sys.argv[sys.argv.index('--replay') + 1])
    why = run(mode, [tuple(x) for x in h])
    print(json.dumps({'mode': mode, 'history': h, 'violation': why}))
    sys.exit(1 if why else 0)
chunks = [(o, l) for o in range(N) for l in range(0, N - o + 1)]
cnt = 0
for mode in ('immediate', 'queued'):
    for k in range(1, K + 1):
        for hist in itertools.product(chunks, repeat=k):
            cnt += 1
            why = run(mode, list(hist))
            if why:
                print(json.dumps({'histories': cnt, 'failing_history': [mode, hist], 'why': why}))
                sys.exit(1)
print(json.dumps({'histories': cnt, 'failing_history': None, 'object_size': N, 'max_len': K, 'exhaustive': True, 'modes': ['immediate', 'queued']}))
