#!/bin/bash
# usage: tools/confirm_seed.sh <id> : confirms in the scratch worktree /tmp/seed/<id> that the change passes the
# existing tests, and that the demo fails with the change and passes without it
id=$1; wt=${SEED_ROOT:-/tmp/seed}/$id
cd $wt || exit 9
git diff --quiet -- s3transfer && { echo "$id: no change in worktree"; exit 9; }
/venv/bin/python seed/demo.py $wt > ${SEED_ROOT:-/tmp/seed}/$id.demo_changed.log 2>&1; a=$?
/venv/bin/python seed/demo.py /repo > ${SEED_ROOT:-/tmp/seed}/$id.demo_unchanged.log 2>&1; b=$?
t=$(/venv/bin/python -m pytest -q -p no:cacheprovider tests/unit tests/functional 2>&1 | grep -E "passed|failed" | tail -1)
echo "$id demo_changed_exit=$a demo_unchanged_exit=$b tests: $t"
