"""Bounded stand-in (B3) for C12: all acquire/release sequences (non-blocking acquires) up to length K
over T tags and capacities 1..C on the REAL SlidingWindowSemaphore against a reference model.
usage: b3_semaphore.py <repo_root> <K> [--replay '<json [cap, ops]>']"""
import itertools, json, signal, sys
root, K = sys.argv[1], int(sys.argv[2])
sys.path.insert(0, root)
from s3transfer.utils import NoResourcesAvailable, SlidingWindowSemaphore
TAGS, CAPS, TOKS = ['a', 'b'], [1, 2, 3], [0, 1, 2, 3]


class _Blocked(Exception):
    pass


def _alarm(*a):
    raise _Blocked()


signal.signal(signal.SIGALRM, _alarm)


def run(cap, ops):
    sem = SlidingWindowSemaphore(cap)
    issued, low, released = {}, {}, {}     # reference model
    for op in ops:
        before = sem.current_count()
        if op[0] == 'acq':
            t = op[1]
            free = cap - sum(issued[x] - low[x] for x in issued)
            try:
                signal.alarm(2)
                try:
                    tok = sem.acquire(t, blocking=False)
                finally:
                    signal.alarm(0)
                if free <= 0:
                    return f'acquire succeeded at zero capacity'
                if tok != issued.get(t, 0):
                    return f'token {tok} != next sequence number {issued.get(t, 0)}'
                issued[t] = issued.get(t, 0) + 1; low.setdefault(t, 0); released.setdefault(t, set())
            except _Blocked:
                return 'non-blocking acquire blocked instead of raising'
            except NoResourcesAvailable:
                if free > 0:
                    return 'acquire refused although capacity is free'
        else:
            _, t, tok = op
            valid = t in issued and low[t] <= tok < issued[t] and tok not in released[t]
            dup_pending = t in issued and tok in released.get(t, set()) and tok > low[t]
            if dup_pending:
                continue   # second release of a still-pending token: outside the contract's precondition
            try:
                sem.release(t, tok)
                if not valid:
                    return f'release({t},{tok}) of an unknown tag / never-issued / already-released token was accepted'
                released[t].add(tok)
                while low[t] in released[t]:
                    released[t].discard(low[t]); low[t] += 1
            except ValueError:
                if valid:
                    return f'release({t},{tok}) of an issued, unreleased token was rejected'
                if sem.current_count() != before:
                    return 'rejected release changed the capacity'
        free = cap - sum(issued[x] - low[x] for x in issued)
        if sem.current_count() != free:
            return f'free capacity {sem.current_count()} != {cap} - sum of window sizes = {free}'
    return None


if '--replay' in sys.argv:
    cap, ops = json.loads(sys.argv[sys.argv.index('--replay') + 1])
    why = run(cap, [tuple(o) for o in ops])
    print(json.dumps({'cap': cap, 'ops': ops, 'violation': why}))
    sys.exit(1 if why else 0)
alphabet = [('acq', t) for t in TAGS] + [('rel', t, k) for t in TAGS for k in TOKS]
n = 0
for cap in CAPS:
    for k in range(1, K + 1):
        for ops in itertools.product(alphabet, repeat=k):
            n += 1
            why = run(cap, ops)
            if why:
                print(json.dumps({'sequences': n, 'failing_case': [cap, ops], 'why': why}))
                sys.exit(1)
print(json.dumps({'sequences': n, 'failing_case': None, 'max_ops': K, 'tags': len(TAGS), 'capacities': CAPS, 'exhaustive': True}))
