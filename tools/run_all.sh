#!/bin/bash
# runs every quick check on /repo and prints one line per property
cd /verif
for p in C01 C02 C03 C04 C05 C06 C07 C08 C09 C10 C11 C12 C13 C14 C15 C16 C17 C18 C19 C20; do
  timeout 1800 ./check $p --tier ${1:-quick} > /tmp/runall_$p.log 2>&1; echo "$p exit=$? $(grep -E "^$p:" /tmp/runall_$p.log)"
done
