#!/bin/bash
# usage: tools/commit_if_green.sh "<message>" : runs every quick check on /repo; commits /verif only if all exit 0
cd /verif
out=$(tools/run_all.sh 2>&1)
bad=$(echo "$out" | grep -v "exit=0")
if [ -n "$bad" ]; then echo "NOT COMMITTED:"; echo "$bad"; grep -hE "failed obl|OUT-OF|CRASH|UNDEC" /tmp/runall_C*.log | sed -e 's/#[0-9]*//' | cut -c1-220 | sort | uniq -c | head -20; exit 1; fi
python3-vt tools/gen_manifest.py 2>&1 | grep -v WARNING | tail -1; python3 tools/refresh_design_numbers.py
git add -A && git commit -qm "$1" && echo "committed: $1"
