#!/usr/bin/env python3
"""Mutation probe of the checks (development aid, not a registered command).
Enumerates small AST mutations inside functions of /repo/s3transfer that are under contract (according to the evidence
files), applies each to a scratch copy of the package, runs the quick checks of the properties that verify that function
and records killed (some check exits 1) / undecided (2, 3) / survived (all 0).
usage: tools/mutate.py <out.jsonl> [--max N] [--seed S] [--module name.py ...]"""
import ast, copy, glob, json, os, random, shutil, subprocess, sys, tempfile, time

V = os.path.dirname(os.path.dirname(os.path.abspath(__file__)))
REPO = os.environ.get('PYVC_REPO', '/repo')


def functions_under_contract():
    """qualname (module:Class.func) -> set of properties"""
    out = {}
    for f in glob.glob(os.path.join(V, 'evidence', 'C*.json')):
        d = json.load(open(f))
        prop = d['property_id']
        cov = d['coverage']
        for x in cov.get('functions_under_contract', []):
            out.setdefault(x['function'], set()).add(prop)
        for q in cov.get('inlined_functions', []):
            out.setdefault(q.split(' ')[0], set()).add(prop)
    return out


SWAP = {ast.Lt: ast.LtE, ast.LtE: ast.Lt, ast.Gt: ast.GtE, ast.GtE: ast.Gt, ast.Eq: ast.NotEq, ast.NotEq: ast.Eq,
        ast.Is: ast.IsNot, ast.IsNot: ast.Is, ast.In: ast.NotIn, ast.NotIn: ast.In}


def sites(func):
    """yield (description, mutator(node_copy_root) -> None) for mutation sites inside func (by walk index)"""
    nodes = list(ast.walk(func))
    for i, n in enumerate(nodes):
        if isinstance(n, ast.Compare) and len(n.ops) == 1 and type(n.ops[0]) in SWAP:
            yield i, f'compare {type(n.ops[0]).__name__}->{SWAP[type(n.ops[0])].__name__} @{n.lineno}', 'cmp'
        elif isinstance(n, ast.BinOp) and isinstance(n.op, (ast.Add, ast.Sub)) and isinstance(n.right, ast.Constant) and isinstance(n.right.value, int) and not isinstance(n.right.value, bool):
            yield i, f'const {n.right.value}->{n.right.value + 1} @{n.lineno}', 'const'
        elif isinstance(n, ast.BinOp) and isinstance(n.op, (ast.Add, ast.Sub)) and not isinstance(n.right, ast.Constant):
            yield i, f'arith {type(n.op).__name__} flipped @{n.lineno}', 'arith'
        elif isinstance(n, ast.BoolOp):
            yield i, f'boolop {type(n.op).__name__} flipped @{n.lineno}', 'bool'
        elif isinstance(n, (ast.If, ast.While)) :
            yield i, f'negate {type(n).__name__} test @{n.lineno}', 'neg'
        elif isinstance(n, ast.Expr) and isinstance(n.value, ast.Call) and not (isinstance(n.value.func, ast.Attribute) and n.value.func.attr == 'debug'):
            yield i, f'delete call statement @{n.lineno}', 'del'
        elif isinstance(n, ast.keyword) and isinstance(n.value, ast.Constant) and isinstance(n.value.value, bool):
            yield i, f'keyword {n.arg}={n.value.value}->{not n.value.value} @{n.lineno}', 'kwbool'


def apply(func, idx, kind):
    n = list(ast.walk(func))[idx]
    if kind == 'cmp':
        n.ops = [SWAP[type(n.ops[0])]()]
    elif kind == 'const':
        n.right = ast.Constant(n.right.value + 1)
    elif kind == 'arith':
        n.op = ast.Sub() if isinstance(n.op, ast.Add) else ast.Add()
    elif kind == 'bool':
        n.op = ast.Or() if isinstance(n.op, ast.And) else ast.And()
    elif kind == 'neg':
        n.test = ast.UnaryOp(ast.Not(), n.test)
    elif kind == 'del':
        n.value = ast.Constant(None)
    elif kind == 'kwbool':
        n.value = ast.Constant(not n.value.value)


def main():
    out = sys.argv[1]
    mx = int(sys.argv[sys.argv.index('--max') + 1]) if '--max' in sys.argv else 100
    seed = int(sys.argv[sys.argv.index('--seed') + 1]) if '--seed' in sys.argv else 1
    only = sys.argv[sys.argv.index('--module') + 1:] if '--module' in sys.argv else None
    fuc = functions_under_contract()
    cands = []
    for path in sorted(glob.glob(os.path.join(REPO, 's3transfer', '*.py'))):
        modfile = os.path.basename(path)
        if only and modfile not in only:
            continue
        modname = 's3transfer' if modfile == '__init__.py' else 's3transfer.' + modfile[:-3]
        tree = ast.parse(open(path).read())
        for cls in [None] + [c for c in tree.body if isinstance(c, ast.ClassDef)]:
            body = tree.body if cls is None else cls.body
            for fn in body:
                if not isinstance(fn, ast.FunctionDef):
                    continue
                q = f'{modname}:{cls.name + "." if cls else ""}{fn.name}'
                props = fuc.get(q)
                if not props:
                    continue
                for idx, desc, kind in sites(fn):
                    cands.append((modfile, cls.name if cls else None, fn.name, idx, desc, kind, sorted(props)))
    random.Random(seed).shuffle(cands)
    if '--retest' in sys.argv:
        # re-run exactly the mutants that were not killed in earlier result files
        want = set()
        for f in sys.argv[sys.argv.index('--retest') + 1:]:
            if f.startswith('--'):
                break
            for l in open(f):
                d = json.loads(l)
                if d['verdict'] != 'killed':
                    want.add((d['file'], d['cls'], d['func'], d['desc']))
        cands = [c for c in cands if (c[0], c[1], c[2], c[4]) in want]
        mx = len(cands)
    if '--kinds' in sys.argv:
        kinds = set(sys.argv[sys.argv.index('--kinds') + 1].split(','))
        cands = [c for c in cands if c[5] in kinds]
    done = set()
    if '--skip-from' in sys.argv:
        for f in sys.argv[sys.argv.index('--skip-from') + 1:]:
            if f.startswith('--'):
                break
            for l in open(f):
                d = json.loads(l)
                if d['verdict'] == 'killed':
                    done.add((d['file'], d['cls'], d['func'], d['desc']))
    if os.path.exists(out):
        for l in open(out):
            d = json.loads(l)
            done.add((d['file'], d['cls'], d['func'], d['desc']))
    n = 0
    for modfile, cname, fname, idx, desc, kind, props in cands:
        if n >= mx:
            break
        if (modfile, cname, fname, desc) in done:
            continue
        n += 1
        path = os.path.join(REPO, 's3transfer', modfile)
        tree = ast.parse(open(path).read())
        body = tree.body if cname is None else [c for c in tree.body if isinstance(c, ast.ClassDef) and c.name == cname][0].body
        fn = [f for f in body if isinstance(f, ast.FunctionDef) and f.name == fname][0]
        apply(fn, idx, kind)
        ast.fix_missing_locations(tree)
        scratch = tempfile.mkdtemp(prefix='pyvc_mut_', dir='/var/tmp')
        res = {'file': modfile, 'cls': cname, 'func': fname, 'desc': desc, 'props': props, 'runs': {}}
        try:
            shutil.copytree(os.path.join(REPO, 's3transfer'), os.path.join(scratch, 's3transfer'), ignore=shutil.ignore_patterns('__pycache__'))
            open(os.path.join(scratch, 's3transfer', modfile), 'w').write(ast.unparse(tree) + '\n')
            verdict = 'survived'
            t0 = time.time()
            for prop in props:
                env = dict(os.environ, PYVC_REPO=scratch, PYVC_OUT=os.path.join(scratch, 'out'), PYVC_SELFTEST_CHILD='1')
                p = subprocess.run([os.path.join(V, 'check'), prop], cwd=V, env=env, capture_output=True, text=True, timeout=3600)
                fails = sorted(set(l.split('failed obligation: ')[1].split(' ')[0].split('#')[0] for l in p.stdout.splitlines() if 'failed obligation: ' in l))
                res['runs'][prop] = {'exit': p.returncode, 'failed': fails[:4],
                                     'other': [l[:200] for l in p.stdout.splitlines() if l.startswith(('OUT-OF', 'UNDEC', 'CHECKER'))][:3]}
                if p.returncode == 1:
                    verdict = 'killed'
                    break
                if p.returncode in (2, 3) and verdict == 'survived':
                    verdict = 'undecided'
            res['verdict'] = verdict
            res['wall_s'] = round(time.time() - t0, 1)
        finally:
            shutil.rmtree(scratch, ignore_errors=True)
        open(out, 'a').write(json.dumps(res) + '\n')
        print(verdict, modfile, cname, fname, desc, flush=True)


if __name__ == '__main__':
    main()
