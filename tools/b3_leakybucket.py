"""Bounded stand-in (B3) for C13: exhaustive short operation sequences on the REAL LeakyBucket with a
fake clock against the case contract of consume()/unschedule().
usage: b3_leakybucket.py <repo_root> <max ops K> [--replay '<json ops>']"""
import itertools, json, sys
from fractions import Fraction
root, K = sys.argv[1], int(sys.argv[2])
sys.path.insert(0, root)
from s3transfer.bandwidth import LeakyBucket, RequestExceededException, RequestToken

MAX = 1000
AMTS = [0, 1, 800, 5000]
DTS = [0.0, 0.5, 4.0]      # 0.0: two consumptions in the same clock tick
TOKS = [0, 1]


def run(ops):
    class Clock:
        now = 0.0
        def time(self): return Clock.now
        def sleep(self, v): pass
    b = LeakyBucket(MAX, time_utils=Clock())
    toks = [RequestToken() for _ in TOKS]
    shares = {}          # spec state: token index -> share (amt / max)
    for op in ops:
        kind = op[0]
        sch = b._consumption_scheduler
        if kind == 'consume':
            _, ti, amt, dt = op
            Clock.now += dt
            last, rate = b._rate_tracker._last_time, b._rate_tracker._current_rate
            try:
                r = b.consume(amt, toks[ti])
                if r != amt:
                    return f'consume returned {r} for {amt}'
                if ti in shares:
                    del shares[ti]
                elif last is not None and Clock.now > last:
                    if 0.8 * amt / (Clock.now - last) > MAX * (1 + 1e-9):
                        return f'admitted {amt} bytes after {Clock.now - last}s: above the smoothing allowance'
            except RequestExceededException as e:
                if ti in shares:
                    return 'a scheduled request was refused again'
                shares[ti] = amt / MAX
                if abs(e.retry_time - sum(shares.values())) > 1e-9:
                    return f'retry_time {e.retry_time} != sum of waiting shares {sum(shares.values())}'
        else:
            _, ti = op
            if not hasattr(b, 'unschedule'):
                continue
            b.unschedule(toks[ti])
            shares.pop(ti, None)
        if b._rate_tracker._current_rate == float('inf'):
            return 'the tracked consumption rate became infinite (it never decays: every later read is throttled)'
        if abs(sch._total_wait - sum(shares.values())) > 1e-9:
            return f'total wait {sch._total_wait} != sum of scheduled shares {sum(shares.values())}'
        if set(sch._tokens_to_scheduled_consumption) != {toks[i] for i in shares}:
            return 'scheduled token set differs from the waiting requests'
    return None


if '--replay' in sys.argv:
    ops = [tuple(x) for x in json.loads(sys.argv[sys.argv.index('--replay') + 1])]
    why = run(ops)
    print(json.dumps({'ops': ops, 'violation': why}))
    sys.exit(1 if why else 0)
alphabet = [('consume', t, a, d) for t in TOKS for a in AMTS for d in DTS] + [('unschedule', t) for t in TOKS]
n = 0
for k in range(1, K + 1):
    for ops in itertools.product(alphabet, repeat=k):
        n += 1
        why = run(ops)
        if why:
            print(json.dumps({'sequences': n, 'failing_ops': ops, 'why': why}))
            sys.exit(1)
print(json.dumps({'sequences': n, 'failing_ops': None, 'max_ops': K, 'alphabet': len(alphabet), 'exhaustive': True}))
