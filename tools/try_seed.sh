#!/bin/bash
# usage: tools/try_seed.sh <patch.diff> <prop> [<prop>...]  -- applies the patch to /repo, runs the checks, reverts
set -u
P=$1; shift
cd /repo && git apply "$P" || { echo "patch does not apply"; exit 9; }
for prop in "$@"; do
  cd /verif && timeout 1200 ./check $prop > /tmp/try_seed_$prop.log 2>&1; code=$?
  echo "== $prop exit=$code"; grep -E "^VIOLATION|^  failed|^  bounded|^UNDEC|^OUT-OF|^C[0-9]+:" /tmp/try_seed_$prop.log | sed 's/#[0-9]*//' | sort | uniq -c | cut -c1-260 | head -8
done
cd /repo && git checkout -- . && git status --short | head -3
