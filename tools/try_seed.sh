#!/bin/bash
# usage: tools/try_seed.sh <patch.diff> <prop> [<prop>...]
# applies the patch to a scratch copy of /repo's HEAD (outside /repo and /verif), runs the checks on it, removes it
set -u
P=$1; shift
S=/var/tmp/scr/try_$$
mkdir -p /var/tmp/scr && rm -rf $S && git -C /repo worktree add -q --detach $S HEAD || exit 9
( cd $S && git apply "$P" ) || { echo "patch does not apply"; git -C /repo worktree remove --force $S; exit 9; }
for prop in "$@"; do
  cd /verif && PYVC_REPO=$S PYVC_OUT=$S/out PYVC_SELFTEST_CHILD=1 timeout 1200 ./check $prop > /tmp/try_seed_$prop.log 2>&1; code=$?
  echo "== $prop exit=$code"; grep -E "^VIOLATION|^  failed|^  bounded|^UNDEC|^OUT-OF|^C[0-9]+:" /tmp/try_seed_$prop.log | sed 's/#[0-9]*//' | sort | uniq -c | cut -c1-260 | head -8
done
git -C /repo worktree remove --force $S
