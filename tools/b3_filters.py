"""Bounded stand-in (B3) for C15 filters: exhaustive check of the REAL get_filtered_dict,
TransferManager._validate_all_known_args and set_default_checksum_algorithm over all sub-maps of a small key
universe and all allow/block lists over it.  usage: b3_filters.py <repo_root> [--replay '<json case>']"""
import itertools, json, sys
root = sys.argv[1]
sys.path.insert(0, root)
from s3transfer.utils import get_filtered_dict, set_default_checksum_algorithm
from s3transfer.manager import TransferManager
from botocore.httpchecksum import DEFAULT_CHECKSUM_ALGORITHM
KEYS = ['A', 'B', 'ChecksumAlgorithm', 'ChecksumCRC32']


def subsets(xs):
    for r in range(len(xs) + 1):
        for c in itertools.combinations(xs, r):
            yield list(c)


def check(case):
    kind = case[0]
    if kind == 'filter':
        _, present, wl, bl = case
        d = {k: ('v', k) for k in present}
        got = get_filtered_dict(dict(d), wl, bl)
        exp = {k: v for k, v in d.items() if (wl and k in wl) or (bl and k not in bl)}
        if got != exp:
            return f'get_filtered_dict({sorted(d)}, {wl}, {bl}) == {got}, expected {exp}'
    elif kind == 'validate':
        _, present, allowed = case
        try:
            TransferManager._validate_all_known_args(None, {k: 1 for k in present}, allowed)
            raised = False
        except ValueError:
            raised = True
        if raised != any(k not in allowed for k in present):
            return f'validate({present}, {allowed}) raised={raised}'
    else:
        _, present = case
        d = {k: ('v', k) for k in present}
        before = dict(d)
        set_default_checksum_algorithm(d)
        exp = dict(before)
        if 'ChecksumCRC32' not in before and 'ChecksumAlgorithm' not in before:
            exp['ChecksumAlgorithm'] = DEFAULT_CHECKSUM_ALGORITHM
        if d != exp:
            return f'set_default_checksum_algorithm({before}) -> {d}, expected {exp}'
    return None


if '--replay' in sys.argv:
    case = json.loads(sys.argv[sys.argv.index('--replay') + 1])
    why = check(case)
    print(json.dumps({'case': case, 'violation': why}))
    sys.exit(1 if why else 0)
n = 0
lists = [None] + list(subsets(KEYS))
for present in subsets(KEYS):
    for wl in lists:
        for bl in lists:
            n += 1
            why = check(['filter', present, wl, bl])
            if why:
                print(json.dumps({'cases': n, 'failing_case': ['filter', present, wl, bl], 'why': why})); sys.exit(1)
    for allowed in subsets(KEYS):
        n += 1
        why = check(['validate', present, allowed])
        if why:
            print(json.dumps({'cases': n, 'failing_case': ['validate', present, allowed], 'why': why})); sys.exit(1)
    n += 1
    why = check(['default', present])
    if why:
        print(json.dumps({'cases': n, 'failing_case': ['default', present], 'why': why})); sys.exit(1)
print(json.dumps({'cases': n, 'failing_case': None, 'universe': KEYS, 'exhaustive': True}))
