"""Replay of a failed verification obligation.
property:   C14
obligation: utils.ChunksizeAdjuster._adjust_for_max_parts/loop@806.variant_decreases
function:   utils.ChunksizeAdjuster._adjust_for_max_parts
kind:       loop-variant   line: 806
note:       
solver:     z3 verdict=sat time=0.03887343406677246
model (projection on 0-ary symbols):
    chunksize!11 = 1
    current_chunksize!9 = 1
    file_size!10 = 10000
    num_parts!12 = 10000
"""
# no concrete input could be derived for this obligation (ghost / trace / monitor state)
NO_FAILING_INPUT_FOUND = True
SMT2 = r"""; benchmark generated from python API
(set-info :status unknown)
(declare-fun current_chunksize!9 () Int)
(declare-fun file_size!10 () Int)
(declare-fun chunksize!11 () Int)
(declare-fun num_parts!12 () Int)
(assert
 (>= current_chunksize!9 1))
(assert
 (< current_chunksize!9 9007199254740992))
(assert
 (>= file_size!10 0))
(assert
 (< file_size!10 9007199254740992))
(assert
 (not (= (to_real current_chunksize!9) 0.0)))
(assert
 (let (($x153 (>= chunksize!11 1)))
 (let (($x152 (>= chunksize!11 current_chunksize!9)))
 (and $x152 $x153))))
(assert
 (and (>= (* num_parts!12 chunksize!11) file_size!10) (< (* (- num_parts!12 1) chunksize!11) file_size!10)))
(assert
 (let ((?x176 (div chunksize!11 2)))
 (let ((?x177 (* 10000 ?x176)))
 (let (($x181 (< ?x177 file_size!10)))
 (let (($x172 (= (mod chunksize!11 2) 0)))
 (let (($x171 (= chunksize!11 current_chunksize!9)))
 (or $x171 (and $x172 (>= ?x176 current_chunksize!9) $x181))))))))
(assert
 (< chunksize!11 9007199254740992))
(assert
 (<= 10000 num_parts!12))
(assert
 (not (= (to_real chunksize!11) 0.0)))
(assert
 (let ((?x375 (* 10000 chunksize!11)))
(let ((?x416 (- file_size!10 ?x375)))
(let (($x273 (and (< (- file_size!10 (* 10000 (* chunksize!11 2))) ?x416) (> ?x416 0))))
(not $x273)))))
(check-sat)
"""
SOLVER_OUTPUT = r"""[num_parts!12 = 10000,
 chunksize!11 = 1,
 current_chunksize!9 = 1,
 file_size!10 = 10000]"""
