"""Replay of a failed verification obligation.
property:   C14
obligation: utils.ChunksizeAdjuster._adjust_for_max_parts/post.unchanged_if_fits
function:   utils.ChunksizeAdjuster._adjust_for_max_parts
kind:       post   line: 802
note:       
solver:     z3 verdict=sat time=0.18659424781799316
model (projection on 0-ary symbols):
    chunksize!12 = 1801439850948
    current_chunksize!9 = 1801439850947
    file_size!10 = 9007199254740002
    num_parts!11 = 5001
"""
# no concrete input could be derived for this obligation (ghost / trace / monitor state)
NO_FAILING_INPUT_FOUND = True
SMT2 = r"""; benchmark generated from python API
(set-info :status unknown)
(declare-fun current_chunksize!9 () Int)
(declare-fun file_size!10 () Int)
(declare-fun chunksize!12 () Int)
(declare-fun num_parts!11 () Int)
(assert
 (>= current_chunksize!9 1))
(assert
 (< current_chunksize!9 9007199254740992))
(assert
 (>= file_size!10 0))
(assert
 (< file_size!10 9007199254740992))
(assert
 (not (= (to_real current_chunksize!9) 0.0)))
(assert
 (let (($x153 (>= chunksize!12 1)))
 (let (($x152 (>= chunksize!12 current_chunksize!9)))
 (and $x152 $x153))))
(assert
 (and (>= (* num_parts!11 chunksize!12) file_size!10) (< (* (- num_parts!11 1) chunksize!12) file_size!10)))
(assert
 (let (($x172 (= (mod chunksize!12 2) 0)))
 (let (($x171 (= chunksize!12 current_chunksize!9)))
 (or $x171 (and $x172 (< (* 10000 (div chunksize!12 2)) file_size!10))))))
(assert
 (let (($x171 (= chunksize!12 current_chunksize!9)))
 (or $x171 (< chunksize!12 9007199254740992))))
(assert
 (let (($x187 (<= num_parts!11 10000)))
 (let (($x183 (not $x187)))
 (not $x183))))
(assert
 (let (($x171 (= chunksize!12 current_chunksize!9)))
 (not $x171)))
(assert
 (let (($x171 (= chunksize!12 current_chunksize!9)))
(let (($x242 (=> (<= file_size!10 (* 10000 current_chunksize!9)) $x171)))
(not $x242))))
(check-sat)
"""
SOLVER_OUTPUT = r"""[current_chunksize!9 = 1801439850947,
 chunksize!12 = 1801439850948,
 num_parts!11 = 5001,
 file_size!10 = 9007199254740002]"""
