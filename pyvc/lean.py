"""Re-check of the Lean 4 / Mathlib proofs of lemmas that contracts use as background axioms (thorough tier)."""
import os
import shutil
import subprocess
import time

VERIF = os.path.dirname(os.path.dirname(os.path.abspath(__file__)))


def check_lean(files, theorems, timeout=1800):
    """Compiles /verif/lean/<file> with `lean` (kernel-checks every proof in it).  -> evidence dict.
    status: 'proved' (exit 0, no sorry, every named theorem reported by #print axioms with only the three standard
    axioms), 'failed', or 'not-rechecked' (lean not available)."""
    exe = shutil.which('lean')
    out = {'files': files, 'theorems': theorems, 'prover': 'lean 4 + Mathlib (kernel-checked)', 'status': 'proved', 'detail': []}
    if exe is None:
        out['status'] = 'not-rechecked'
        out['detail'].append('lean not on PATH')
        return out
    t0 = time.time()
    for f in files:
        path = os.path.join(VERIF, 'lean', f)
        src = open(path).read()
        if 'sorry' in src or 'admit' in src or '\naxiom ' in src:
            out['status'] = 'failed'
            out['detail'].append(f'{f}: contains sorry / admit / axiom')
            continue
        try:
            p = subprocess.run([exe, path], capture_output=True, text=True, timeout=timeout, cwd=os.path.join(VERIF, 'lean'))
        except subprocess.TimeoutExpired:
            out['status'] = 'failed'
            out['detail'].append(f'{f}: timeout')
            continue
        txt = p.stdout + p.stderr
        if p.returncode != 0 or 'error' in txt:
            out['status'] = 'failed'
            out['detail'].append(f'{f}: exit {p.returncode}: {txt[:500]}')
            continue
        for th in theorems.get(f, []):
            line = [l for l in txt.splitlines() if l.startswith(f"'S3TransferVerif.{th}' depends on axioms")]
            if not line or 'sorryAx' in line[0] or not line[0].endswith('[propext, Classical.choice, Quot.sound]'):
                out['status'] = 'failed'
                out['detail'].append(f'{f}: theorem {th} not confirmed by #print axioms: {line[:1]}')
            else:
                out['detail'].append(f'{f}: {th}: kernel-checked, axioms [propext, Classical.choice, Quot.sound]')
    out['wall_s'] = round(time.time() - t0, 1)
    return out
