"""Symbolic state, events and obligations."""
import z3

from .values import HObj, Ref


class Event:
    """One element of the ghost trace: a call to something external or effectful-by-contract."""
    __slots__ = ('kind', 'name', 'recv', 'args', 'kwargs', 'result', 'line', 'held', 'extra')

    def __init__(self, kind, name, recv=None, args=(), kwargs=None, result=None, line=None, held=(), extra=None):
        self.kind = kind  # 'ext' | 'call' | 'raise' | 'lock' | 'unlock' | 'loop' | 'yield' | 'ghost'
        self.name = name
        self.recv = recv
        self.args = tuple(args)
        self.kwargs = dict(kwargs or {})
        self.result = result
        self.line = line
        self.held = tuple(held)
        self.extra = extra or {}

    def __repr__(self):
        return f'<{self.kind}:{self.name}@{self.line}>'


class LoopSummary(Event):
    """k iterations of a loop verified by invariant; `alts` are the traces (lists of events) that
    one normally-completing iteration can contribute."""

    def __init__(self, loop_id, alts, line, held=(), items=None, iterable=None, alt_states=None, ctx=None):
        super().__init__('loop', loop_id, line=line, held=held)
        self.alts = alts
        self.items = items if items is not None else []
        self.iterable = iterable
        self.alt_states = alt_states if alt_states is not None else []   # state at the end of each alternative iteration
        self.ctx = ctx


class State:
    __slots__ = ('pc', 'heap', 'env', 'stack', 'trace', 'held', 'ghost', 'oid', 'shared')

    def __init__(self):
        self.pc = []
        self.heap = {}
        self.env = {}
        self.stack = []
        self.trace = []
        self.held = []
        self.ghost = {}
        self.oid = [0]
        self.shared = set()  # oids whose lock-guarded fields are subject to interference

    def fork(self):
        s = State()
        s.pc = list(self.pc)
        s.heap = {k: v.clone() for k, v in self.heap.items()}
        s.env = dict(self.env)
        s.stack = [dict(e) for e in self.stack]
        s.trace = list(self.trace)
        s.held = list(self.held)
        s.ghost = dict(self.ghost)
        s.oid = self.oid  # shared counter: oids stay unique across forks
        s.shared = set(self.shared)
        return s

    def alloc(self, hobj):
        self.oid[0] += 1
        self.heap[self.oid[0]] = hobj
        return Ref(self.oid[0])

    def obj(self, ref):
        return self.heap[ref.oid]

    def assume(self, f):
        if isinstance(f, bool):
            if not f:
                self.pc.append(z3.BoolVal(False))
            return
        self.pc.append(f)

    def field(self, ref, name):
        return self.heap[ref.oid].fields[name]


class Obligation:
    def __init__(self, oid, function, kind, line, pc, goal, expect='unsat', props=(), note='', model_vars=None):
        self.id = oid
        self.function = function
        self.kind = kind
        self.line = line
        self.pc = list(pc)
        self.goal = goal
        self.expect = expect  # 'unsat': pc /\ not goal must be unsat.  'sat': pc /\ goal must be sat
        self.props = tuple(props)
        self.note = note
        self.model_vars = model_vars or []
        self.verdict = None
        self.backend = None
        self.time_s = None
        self.model = None
        self.raw = None
        self.quantified = False

    def smt2(self):
        s = z3.Solver()
        for p in self.pc:
            s.add(p)
        if self.expect == 'unsat':
            s.add(z3.Not(self.goal) if not isinstance(self.goal, bool) else z3.BoolVal(not self.goal))
        else:
            s.add(self.goal if not isinstance(self.goal, bool) else z3.BoolVal(self.goal))
        return s.to_smt2()
