"""Calls, attribute access, containers, builtin models, contract application."""
import ast

import z3

from .contracts import (
    Any, Bool, BytesT, CallCtx, ConcreteListT, Const, DictT, ExcT, ExtSpec, ExtT, FuncT, HeapT, Int,
    ListOfT, LockT, MapT, ObjT, OptT, Real, RecordT, SetT, Str, View,
)
from .engine import EngineError, Res, ok, rs
from .repo import ClassInfo, FuncInfo
from .state import Event
from .stmts import NORMAL, raise_out
from .values import (
    BoundMethod, Builtin, BytesV, ClassRef, Closure, ExcV, ExtClassRef, ExtMethod, FStr, FuncRef,
    HObj, ModuleRef, Opaque, Opt, PartialV, Ref, U, fresh_name, is_bool_like, is_int_like,
    is_real_like, is_sym, to_int_term, to_real, to_z3_bool,
)


class CallMixin:
    # ------------------------------------------------------------------ symbolic value creation
    def make_symbolic(self, t, name, st):
        if t is Int:
            return z3.Int(fresh_name(name))
        if t is Real:
            return z3.Real(fresh_name(name))
        if t is Bool:
            return z3.Bool(fresh_name(name))
        if t is Str:
            return z3.String(fresh_name(name))
        if t is Any:
            return Opaque(fresh_name(name))
        if isinstance(t, Const):
            v = t.value
            return v(self, st) if callable(v) else v
        if isinstance(t, FuncT):
            return t.value
        if isinstance(t, OptT):
            return Opt(z3.Bool(fresh_name(name + '_is_none')), self.make_symbolic(t.inner, name, st))
        if isinstance(t, ExtT):
            return Opaque(fresh_name(name), kind=t.kind)
        if isinstance(t, ExcT):
            return ExcV(t.cls, (), tag=fresh_name(name))
        if isinstance(t, BytesT):
            lo, hi = z3.Int(fresh_name(name + '_lo')), z3.Int(fresh_name(name + '_hi'))
            st.assume(lo >= 0)
            st.assume(hi >= lo)
            return BytesV(t.base or fresh_name(name + '_base'), lo, hi)
        if isinstance(t, LockT):
            return st.alloc(HObj(t.kind, meta={'name': t.name, 'reentrant': t.reentrant, 'of': t.of}))
        if isinstance(t, ListOfT):
            n = z3.Int(fresh_name(name + '_len'))
            st.assume(n >= 0)
            if isinstance(t.elem, RecordT):
                return st.alloc(self.make_record_list(t.elem, name, n))
            if t.elem is Int:
                arr = z3.Array(fresh_name(name + '_arr'), z3.IntSort(), z3.IntSort())
                elem = lambda i, arr=arr: z3.Select(arr, to_int_term(i))
            elif isinstance(t.elem, ExtT):
                arr = z3.Array(fresh_name(name + '_arr'), z3.IntSort(), U)
                elem = lambda i, arr=arr, k=t.elem.kind, nm=name: Opaque(z3.Select(arr, to_int_term(i)), kind=k, label=f'{nm}[{i}]')
            else:
                raise EngineError('ListOfT element type')
            return st.alloc(HObj('slist', meta={'len': n, 'elem': elem, 'arr': arr, 'name': t.name or name, 'elem_t': t.elem}))
        if isinstance(t, HeapT):
            cnt = z3.Array(fresh_name(name + '_count'), z3.IntSort(), z3.ArraySort(z3.IntSort(), z3.IntSort()))
            return st.alloc(HObj('sheap', meta={'count': cnt, 'base': t.base}))
        if isinstance(t, ConcreteListT):
            return st.alloc(HObj('list', items=[self.make_symbolic(x, f'{name}{i}', st) for i, x in enumerate(t.elems)]))
        if isinstance(t, DictT):
            return st.alloc(HObj('dict', items={k: self.make_symbolic(x, f'{name}_{k}', st) for k, x in t.items.items()}))
        if isinstance(t, MapT):
            ks = {'U': U, 'Int': z3.IntSort(), 'Str': z3.StringSort()}[t.key]
            present = z3.Array(fresh_name(name + '_present'), ks, z3.BoolSort())
            if isinstance(t.val, RecordT):
                vals = {fn: z3.Array(fresh_name(f'{name}_{fn}'), ks, z3.RealSort() if ft is Real else z3.IntSort())
                        for fn, ft in t.val.fields.items()}
                return st.alloc(HObj('smap', meta={'present': present, 'vals': vals, 'default_int': False, 'key': t.key, 'val_t': t.val}))
            if t.val is Int:
                vs = z3.IntSort()
            elif isinstance(t.val, ListOfT):
                # list values: element array + length per key
                vals = {'arr': z3.Array(fresh_name(name + '_arr'), ks, z3.ArraySort(z3.IntSort(), z3.IntSort())),
                        'len': z3.Array(fresh_name(name + '_len'), ks, z3.IntSort())}
                return st.alloc(HObj('smap', meta={'present': present, 'vals': vals, 'default_int': False, 'key': t.key, 'val_t': t.val}))
            else:
                vs = U
            vals = z3.Array(fresh_name(name + '_vals'), ks, vs)
            return st.alloc(HObj('smap', meta={'present': present, 'vals': vals, 'default_int': t.default_int, 'key': t.key, 'val_t': t.val}))
        if isinstance(t, SetT):
            ks = {'U': U, 'Int': z3.IntSort(), 'Str': z3.StringSort()}[t.key]
            return st.alloc(HObj('sset', meta={'present': z3.Array(fresh_name(name + '_set'), ks, z3.BoolSort()), 'key': t.key,
                                               'elem_kind': getattr(t, 'elem_kind', None)}))
        if isinstance(t, ObjT):
            return self.make_object(t, name, st)
        raise EngineError(f'make_symbolic: {t!r}')

    def make_record_list(self, rt, name, n):
        arrs = {}
        for fname, ft in rt.fields.items():
            if ft is Int:
                arrs[fname] = z3.Array(fresh_name(f'{name}_{fname}'), z3.IntSort(), z3.IntSort())
            elif isinstance(ft, BytesT):
                arrs[fname] = (ft.base, z3.Array(fresh_name(f'{name}_{fname}_lo'), z3.IntSort(), z3.IntSort()),
                               z3.Array(fresh_name(f'{name}_{fname}_hi'), z3.IntSort(), z3.IntSort()))
            elif isinstance(ft, ExtT):
                # opaque-valued field: (marker, kind, array Int -> U)
                arrs[fname] = ('$U', ft.kind, z3.Array(fresh_name(f'{name}_{fname}'), z3.IntSort(), U))
            else:
                raise EngineError('RecordT field type')
        h = HObj('slist', meta={'len': n, 'arrs': arrs, 'elem_t': rt, 'name': name, 'arr': None})
        h.meta['elem'] = self.record_elem_fn(h)
        return h

    def record_elem_fn(self, h):
        def elem(i, h=h):
            i = to_int_term(i)
            rec = {}
            for fname, a in h.meta['arrs'].items():
                if isinstance(a, tuple) and a[0] == '$U':
                    rec[fname] = Opaque(z3.Select(a[2], i), kind=a[1])
                elif isinstance(a, tuple):
                    rec[fname] = BytesV(a[0], z3.Select(a[1], i), z3.Select(a[2], i))
                else:
                    rec[fname] = z3.Select(a, i)
            return ('record', rec)
        return elem

    def make_object(self, t, name, st):
        cinfo = self.repo.cls(t.cls)
        if cinfo is None:
            raise EngineError(f'unknown class {t.cls}')
        schema = {}
        for c in reversed(self.repo.mro(cinfo)):
            schema.update(self.registry.fields.get(c.qualname, {}))
        schema.update(t.fields)
        ref = st.alloc(HObj('obj', cls=cinfo))
        h = st.obj(ref)
        for fname, ft in schema.items():
            v = self.make_symbolic(ft, f'{name}.{fname}', st)
            h.fields[fname] = v
            if isinstance(v, Ref) and st.obj(v).kind in ('lock', 'condition', 'event', 'semaphore'):
                lo = st.obj(v)
                lo.meta['owner'] = ref
                lo.meta['name'] = lo.meta.get('name') or fname
        # condition variables share the lock they were built on
        for fname, v in h.fields.items():
            if isinstance(v, Ref) and st.obj(v).kind == 'condition':
                of = st.obj(v).meta.get('of')
                if of:
                    st.obj(v).meta['lock'] = h.fields[of]
        if t.shared:
            st.shared.add(ref.oid)
        for c in self.repo.mro(cinfo):
            vf = None if getattr(t, 'unvalidated', False) else self.registry.valid.get(c.qualname)
            if vf is not None:
                for f in vf(View(self, st), ref):
                    st.assume(f)
        return ref

    # ------------------------------------------------------------------ attribute access
    def getattr_value(self, v, attr, st, line):
        if isinstance(v, Opt):
            v = self.unwrap_opt(v, st, f'attr_{attr}', line)
        if isinstance(v, tuple) and len(v) == 2 and isinstance(v[0], str) and v[0] == 'record':
            if attr in v[1]:
                return [ok(v[1][attr], st)]
            raise EngineError(f'record has no field {attr}')
        if isinstance(v, Ref):
            h = st.obj(v)
            if h.kind == 'obj':
                if attr in h.fields:
                    return [ok(self.read_field(v, h, attr, st, line), st)]
                if isinstance(h.cls, ClassInfo):
                    fi = self.repo.find_method(h.cls, attr)
                    if fi is not None:
                        if fi.is_property:
                            return self.call_repo_function(fi, v, [], {}, st, line)
                        if fi.is_classmethod:
                            return [ok(BoundMethod(ClassRef(h.cls), fi), st)]
                        return [ok(BoundMethod(v, fi), st)]
                    cdef, cexpr = self.repo.find_class_attr(h.cls, attr)
                    if cexpr is not None:
                        return self.class_attr(cdef, attr, st)
                    if attr == '__class__':
                        return [ok(ClassRef(h.cls), st)]
                    if attr == '__dict__':
                        return [ok(st.alloc(HObj('dict', items=dict(h.fields))), st)]
                raise EngineError(f'attribute {attr} of {h.cls} not modelled (line {line}); add it to the field schema')
            return [ok(ExtMethod(v, attr), st)]
        if isinstance(v, ClassRef):
            fi = self.repo.find_method(v.cinfo, attr)
            if fi is not None:
                if fi.is_classmethod:
                    return [ok(BoundMethod(v, fi), st)]
                return [ok(FuncRef(fi), st)]
            cdef, cexpr = self.repo.find_class_attr(v.cinfo, attr)
            if cexpr is not None:
                return self.class_attr(cdef, attr, st)
            if attr == '__name__':
                return [ok(v.cinfo.name, st)]
            raise EngineError(f'class attribute {v.cinfo.name}.{attr}')
        if isinstance(v, ModuleRef):
            if v.name.startswith('s3transfer'):
                if f'{v.name}.{attr}' in self.repo.modules:
                    return [ok(ModuleRef(f'{v.name}.{attr}'), st)]       # sub-module of the package (import s3transfer.compat)
                mod = self.repo.modules[v.name]
                return [ok(self.thaw(self.module_global(mod, attr, st), st), st)]
            return [ok(self.external_name(f'{v.name}.{attr}'), st)]
        if isinstance(v, Opaque):
            spec = self.ext_spec(v.kind, '.' + attr)
            if spec is not None:
                self.used_externals.add(f'{v.kind}.{attr} (attribute)')
                val = spec.returns(self, st, v, (), {}) if callable(spec.returns) else self.make_symbolic(spec.returns, attr, st)
                return [ok(val, st)]
            return [ok(ExtMethod(v, attr), st)]
        if isinstance(v, ExcV):
            if attr in v.attrs:
                return [ok(v.attrs[attr], st)]
            if attr == 'args':
                return [ok(tuple(v.args), st)]
            if ':' in v.cls:
                # attribute of an in-package exception raised by an external: unknown value
                val = Opaque(fresh_name(f'{attr}_of_exc'), kind='excattr')
                v.attrs[attr] = val
                return [ok(val, st)]
            raise EngineError(f'exception attribute {attr}')
        if isinstance(v, (str, FStr, bytes, BytesV, tuple, int, float)) or is_sym(v):
            return [ok(ExtMethod(v, attr), st)]
        if isinstance(v, (BoundMethod, FuncRef)):
            if attr == '__name__':
                return [ok(v.finfo.name, st)]
        if isinstance(v, Builtin):
            return [ok(self.external_name(f'{v.name}.{attr}'), st)]
        if v is None:
            # Python: AttributeError: 'NoneType' object has no attribute ... (an ordinary exception of the program)
            self.oblige(st, f'safety.not_none.attr_{attr}@{line}', False, kind='safety', line=line,
                        note=f'attribute {attr} of None')
            return [rs(ExcV('AttributeError', (f'NoneType.{attr}',)), st)]
        raise EngineError(f'getattr {attr} on {type(v).__name__} at line {line}')

    def class_attr(self, cdef, attr, st):
        key = ('classattr', cdef.qualname, attr)
        if key not in self._globals_cache:
            from .state import State
            tmp = State()
            tmp.env['$mod'] = cdef.module
            tmp.env['$classdef'] = cdef
            tmp.env['$evaluating'] = attr
            # class bodies see earlier class-level names
            for k, ex in cdef.assigns.items():
                if k == attr:
                    break
            res = self.eval(cdef.assigns[attr], tmp)
            if len(res) != 1 or res[0].kind != 'ok':
                raise EngineError(f'class constant {cdef.name}.{attr}')
            self._globals_cache[key] = self._freeze(res[0].val, res[0].st)
        return [ok(self.thaw(self._globals_cache[key], st), st)]

    def read_field(self, ref, h, attr, st, line):
        """Reads of lock-guarded fields of a shared object outside the lock see any value."""
        mon = self.monitor_of(h, field=attr)
        if mon is not None and ref.oid in st.shared and attr in mon.fields:
            if not self.holds_lock(st, ref, mon):
                t = mon.fields[attr]
                self.racy_reads.add((self.cur_root, attr, line))
                val = self.make_symbolic(t, f'racy.{attr}', st)
                st.trace.append(Event('read', attr, recv=ref, result=val, line=line, held=st.held))
                return val
        return h.fields[attr]

    def monitor_of(self, h, field=None, lock=None):
        """Monitor of the object's class guarding `field` / owning lock named `lock`."""
        if not isinstance(h.cls, ClassInfo) or self.registry is None:
            return None
        for c in self.repo.mro(h.cls):
            for m in self.registry.monitors.get(c.qualname, ()):
                if field is not None and field in m.fields:
                    return m
                if lock is not None and lock in (m.lock,) + m.aliases:
                    return m
        return None

    def holds_lock(self, st, ref, mon):
        h = st.obj(ref)
        lk = h.fields.get(mon.lock)
        return isinstance(lk, Ref) and lk.oid in st.held

    def setattr_value(self, o, attr, v, st, line):
        if isinstance(o, Ref):
            h = st.obj(o)
            if h.kind == 'obj':
                setter = None
                if isinstance(h.cls, ClassInfo):
                    for ci in self.repo.mro(h.cls):
                        if attr in getattr(ci, 'setters', {}):
                            setter = ci.setters[attr]
                            break
                if setter is not None:
                    # assignment to a property with a setter: the setter body runs
                    out = []
                    for r in self.call_repo_function(setter, o, [v], {}, st, line):
                        out.append((NORMAL, r.st) if r.kind == 'ok' else (raise_out(r.val), r.st))
                    return out
                mon = self.monitor_of(h, field=attr)
                if mon is not None and o.oid in st.shared and attr in mon.fields and not self.holds_lock(st, o, mon):
                    self.oblige(st, f'lock.write_guarded.{attr}@{line}', False, kind='lock', line=line,
                                note=f'write of {attr} without holding {mon.lock}')
                h.fields[attr] = v
                if isinstance(v, Ref) and st.obj(v).kind in ('lock', 'condition', 'event', 'semaphore'):
                    lo = st.obj(v)
                    if lo.meta.get('owner') is None:
                        lo.meta['owner'] = o
                        lo.meta['name'] = attr
                return [(NORMAL, st)]
        raise EngineError(f'setattr {attr} on {type(o).__name__} at line {line}')

    # ------------------------------------------------------------------ containers
    def key_term(self, k, h):
        if h.meta.get('key') == 'Int':
            return to_int_term(k)
        if h.meta.get('key') == 'Str':
            if isinstance(k, str):
                return z3.StringVal(k)
            if is_sym(k) and z3.is_string(k):
                return k
            raise EngineError(f'string map key {k!r}')
        if isinstance(k, Opaque):
            return k.term
        if is_sym(k) and k.sort() == U:
            return k
        if isinstance(k, Ref):
            return z3.Const(f'ref!{k.oid}', U)
        raise EngineError(f'map key {k!r}')

    def smap_contains(self, h, k, st):
        return z3.Select(h.meta['present'], self.key_term(k, h))

    def getitem(self, c, k, st, line):
        c = self.unwrap_opt(c, st, 'subscript', line)
        if isinstance(c, tuple) and c and isinstance(c[0], str) and c[0] == 'mapslot':
            arr, n = self.list_as_array(c, st)
            k = to_int_term(k)
            idx = z3.If(k < 0, k + n, k)
            out = []
            for inb, s2 in self.branch(st, z3.And(idx >= 0, idx < n)):
                out.append(ok(z3.Select(arr, idx), s2) if inb else rs(ExcV('IndexError'), s2))
            return out
        if isinstance(c, tuple) and len(c) == 2 and (isinstance(c[0], str) and c[0] == 'frozenlist'):
            c = c[1]
        if isinstance(c, tuple) and len(c) == 2 and (isinstance(c[0], str) and c[0] == 'record'):
            if isinstance(k, str) and k in c[1]:
                return [ok(c[1][k], st)]
            return [rs(ExcV('KeyError', (k,)), st)]
        if isinstance(c, tuple):
            if isinstance(k, int):
                return [ok(c[k], st)]
            raise EngineError('symbolic tuple index')
        if isinstance(c, Ref):
            h = st.obj(c)
            if h.kind in ('list', 'tuple'):
                if isinstance(k, int) and not isinstance(k, bool):
                    if -len(h.items) <= k < len(h.items):
                        return [ok(h.items[k], st)]
                    return [rs(ExcV('IndexError'), st)]
                raise EngineError('symbolic index into concrete list')
            if h.kind == 'dict' and is_sym(k) and z3.is_string(k):
                keys = [kk for kk in h.items if isinstance(kk, str)]
                if len(keys) != len(h.items) or not all(isinstance(x, str) for x in h.items.values()):
                    raise EngineError('symbolic-key lookup in a dict that is not str -> str')
                out = []
                hit = z3.Or([k == z3.StringVal(kk) for kk in keys]) if keys else z3.BoolVal(False)
                for found, s2 in self.branch(st, hit):
                    if not found:
                        out.append(rs(ExcV('KeyError', (k,)), s2))
                        continue
                    val = z3.StringVal(h.items[keys[-1]])
                    for kk in keys[:-1]:
                        val = z3.If(k == z3.StringVal(kk), z3.StringVal(h.items[kk]), val)
                    out.append(ok(val, s2))
                return out
            if h.kind == 'dict':
                kk = self.hashable_key(k)
                if kk in h.items:
                    return [ok(h.items[kk], st)]
                return [rs(ExcV('KeyError', (k,)), st)]
            if h.kind == 'smap':
                return self.smap_getitem(c, h, k, st, line)
            if h.kind == 'slist':
                k = to_int_term(k)
                n = h.meta['len']
                out = []
                idx = z3.If(k < 0, k + n, k)
                for inb, s2 in self.branch(st, z3.And(idx >= 0, idx < n)):
                    out.append(ok(h.meta['elem'](idx), s2) if inb else rs(ExcV('IndexError'), s2))
                return out
            if h.kind == 'symdict':
                return self.symdict_getitem(c, h, k, st, line)
            if h.kind == 'sheap':
                return self.sheap_peek(c, h, k, st, line)
            raise EngineError(f'subscript on {h.kind}')

        if isinstance(c, Opaque):
            spec = self.ext_spec(c.kind, '[]')
            if spec is not None:
                self.used_externals.add(f'{c.kind}[]')
                val = spec.returns(self, st, c, (k,), {}) if callable(spec.returns) else self.make_symbolic(spec.returns, 'item', st)
                return [ok(val, st)]
        raise EngineError(f'subscript on {type(c).__name__} at line {line}')

    def smap_getitem(self, ref, h, k, st, line):
        kt = self.key_term(k, h)
        present = z3.Select(h.meta['present'], kt)
        if h.meta['default_int']:
            cur = z3.Select(h.meta['vals'], kt)
            val = z3.If(present, cur, 0)
            h.meta['vals'] = z3.Store(h.meta['vals'], kt, val)
            h.meta['present'] = z3.Store(h.meta['present'], kt, True)
            return [ok(val, st)]
        out = []
        for isin, s2 in self.branch(st, present):
            if isin:
                out.append(ok(self.smap_value(ref, s2.obj(ref), kt), s2))
            else:
                out.append(rs(ExcV('KeyError', (k,)), s2))
        return out

    def smap_value(self, ref, h, kt):
        if isinstance(h.meta['val_t'], RecordT):
            return ('record', {fn: z3.Select(a, kt) for fn, a in h.meta['vals'].items()})
        if isinstance(h.meta['val_t'], ListOfT):
            return ('mapslot', ref, kt)
        v = z3.Select(h.meta['vals'], kt)
        if h.meta['val_t'] is Int:
            return v
        return Opaque(v)

    def setitem(self, c, k, v, st, line):
        if isinstance(c, Ref):
            h = st.obj(c)
            if h.kind == 'dict':
                if is_sym(k) and z3.is_string(k):
                    self.promote_dict_to_smap(c, st, 'Str')
                    return self.setitem(c, k, v, st, line)
                h.items[self.hashable_key(k)] = v
                return [(NORMAL, st)]
            if h.kind == 'list':
                if isinstance(k, int):
                    h.items[k] = v
                    return [(NORMAL, st)]
            if h.kind == 'smap':
                kt = self.key_term(k, h)
                if isinstance(h.meta['val_t'], RecordT):
                    if not (isinstance(v, Ref) and st.obj(v).kind == 'dict' and set(st.obj(v).items) == set(h.meta['vals'])):
                        raise EngineError('record map: value is not a dict with the declared fields')
                    items = st.obj(v).items
                    h.meta['vals'] = {fn: z3.Store(a, kt, to_real(items[fn]) if a.range() == z3.RealSort() else to_int_term(items[fn]))
                                      for fn, a in h.meta['vals'].items()}
                    h.meta['present'] = z3.Store(h.meta['present'], kt, True)
                    return [(NORMAL, st)]
                if isinstance(h.meta['val_t'], ListOfT):
                    arr, n = self.list_as_array(v, st)
                    h.meta['vals'] = {'arr': z3.Store(h.meta['vals']['arr'], kt, arr), 'len': z3.Store(h.meta['vals']['len'], kt, n)}
                    h.meta['present'] = z3.Store(h.meta['present'], kt, True)
                    return [(NORMAL, st)]
                elif h.meta['val_t'] is Int:
                    v = to_int_term(v)
                else:
                    v = self.as_u_term(v, st)
                h.meta['vals'] = z3.Store(h.meta['vals'], kt, v)
                h.meta['present'] = z3.Store(h.meta['present'], kt, True)
                return [(NORMAL, st)]
            if h.kind == 'symdict':
                return self.symdict_setitem(c, h, k, v, st, line)
        raise EngineError(f'item assignment on {type(c).__name__} at line {line}')

    def as_u_term(self, v, st):
        """Injection of a modelled value into the opaque sort (for Any-valued maps)."""
        if isinstance(v, Opaque):
            return v.term
        if isinstance(v, str):
            return z3.Function('str_as_U', z3.StringSort(), U)(z3.StringVal(v))
        if is_sym(v) and z3.is_string(v):
            return z3.Function('str_as_U', z3.StringSort(), U)(v)
        if is_sym(v) and z3.is_int(v) or (isinstance(v, int) and not isinstance(v, bool)):
            return z3.Function('int_as_U', z3.IntSort(), U)(to_int_term(v))
        if isinstance(v, FStr):
            return self.fstr_as_u(v)
        if isinstance(v, Ref):
            return z3.Const(f'ref!{v.oid}', U)
        if v is None:
            return z3.Const('None_as_U', U)
        if is_sym(v) and v.sort() == U:
            return v
        raise EngineError(f'cannot store {type(v).__name__} in an opaque-valued map')

    def fstr_as_u(self, f):
        """Structured strings as opaque terms: injective in their integer components (A-FMT)."""
        skel = '|'.join(p if isinstance(p, str) else ('%s' if isinstance(p, Opaque) else '%d') for p in f.parts)
        comps = [(p.term if isinstance(p, Opaque) else to_int_term(p)) for p in f.parts if not isinstance(p, str)]
        fn = z3.Function('fstr_' + ''.join(ch if ch.isalnum() else '_' for ch in skel) + f'_{len(comps)}',
                         *([c.sort() for c in comps] + [U]))
        return fn(*comps) if comps else z3.Function('str_as_U', z3.StringSort(), U)(z3.StringVal(''.join(f.parts)))

    def promote_dict_to_smap(self, ref, st, key_kind='Str'):
        """A concrete-key dict that receives a symbolic key becomes a symbolic map (in place)."""
        h = st.obj(ref)
        ks = {'U': U, 'Int': z3.IntSort(), 'Str': z3.StringSort()}[key_kind]
        present = z3.K(ks, z3.BoolVal(False))
        vals = z3.K(ks, z3.Const('absent_val', U))
        h.kind = 'smap'
        h.meta = {'present': present, 'vals': vals, 'default_int': False, 'key': key_kind, 'val_t': Any}
        items = h.items
        h.items = None
        for k, v in items.items():
            kt = self.key_term(k, h)
            h.meta['present'] = z3.Store(h.meta['present'], kt, True)
            h.meta['vals'] = z3.Store(h.meta['vals'], kt, self.as_u_term(v, st))

    def list_as_array(self, v, st):
        """(element array, length) of a list value (concrete list of ints or a map-held list)."""
        if isinstance(v, tuple) and v and (isinstance(v[0], str) and v[0] == 'mapslot'):
            vals = st.obj(v[1]).meta['vals']
            return z3.Select(vals['arr'], v[2]), z3.Select(vals['len'], v[2])
        if isinstance(v, Ref) and st.obj(v).kind == 'list':
            items = st.obj(v).items
            arr = z3.K(z3.IntSort(), z3.IntVal(0))
            for i, x in enumerate(items):
                arr = z3.Store(arr, i, to_int_term(x))
            return arr, z3.IntVal(len(items))
        raise EngineError('list_as_array')

    def slice_value(self, c, lo, hi, st, line):
        if isinstance(c, BytesV):
            n = c.hi - c.lo
            def clamp(x, default):
                if x is None:
                    return default
                x = to_int_term(x)
                x = z3.If(x < 0, z3.If(n + x < 0, 0, n + x), z3.If(x > n, n, x))
                return x
            a = clamp(lo, z3.IntVal(0))
            b = clamp(hi, n if is_sym(n) else z3.IntVal(n))
            b = z3.If(b < a, a, b)
            return [ok(BytesV(c.base, z3.simplify(c.lo + a), z3.simplify(c.lo + b)), st)]
        if is_sym(c) and z3.is_string(c) and (lo is None or not is_sym(lo) or z3.is_int(lo)) and (hi is None or not is_sym(hi) or z3.is_int(hi)):
            # Python slice of a symbolic string with non-negative bounds: s[a:b] = substring from min(a,len) of length max(0, min(b,len)-a)
            n = z3.Length(c)
            a = z3.IntVal(0) if lo is None else to_int_term(lo)
            b = n if hi is None else to_int_term(hi)
            self.oblige(st, f'safety.slice_bounds_nonneg@{line}', z3.And(a >= 0, b >= 0), kind='safety', line=line,
                        note='negative slice bounds of a symbolic string are not modelled')
            a2 = z3.If(a > n, n, a)
            b2 = z3.If(b > n, n, b)
            return [ok(z3.SubString(c, a2, z3.If(b2 > a2, b2 - a2, 0)), st)]
        if isinstance(c, bytes) and c == b'':
            return [ok(b'', st)]
        if isinstance(c, (str, tuple, bytes)) and not is_sym(lo) and not is_sym(hi):
            return [ok(c[lo:hi], st)]
        if isinstance(c, Ref) and st.obj(c).kind == 'list' and not is_sym(lo) and not is_sym(hi):
            return [ok(st.alloc(HObj('list', items=st.obj(c).items[lo:hi])), st)]
        if isinstance(c, Opaque) and c.kind == 'str':
            return [ok(Opaque(fresh_name('strslice'), kind='str'), st)]
        raise EngineError(f'slice of {type(c).__name__} at line {line}')

    # ------------------------------------------------------------------ calls
    def eval_call(self, e, st):
        # super() special form
        if isinstance(e.func, ast.Attribute) and isinstance(e.func.value, ast.Call) \
                and isinstance(e.func.value.func, ast.Name) and e.func.value.func.id == 'super' \
                and not e.func.value.args:
            cur = st.env.get('$func')
            selfv = st.env.get('$self')
            if cur is None or cur.cls is None:
                raise EngineError('super() outside method')
            fi = self.repo.find_method(cur.cls, e.func.attr, after=cur.cls)
            if fi is None:
                ext = self.repo.external_bases(cur.cls)
                return self.bind(self.eval_args(e, st),
                                 lambda ak, s: self.call_external_base(ext, e.func.attr, selfv, ak[0], ak[1], s, e.lineno))
            return self.bind(self.eval_args(e, st),
                             lambda ak, s: self.call_repo_function(fi, selfv, ak[0], ak[1], s, e.lineno))

        def with_func(f, s):
            return self.bind(self.eval_args(e, s), lambda ak, s2: self.call_value(f, ak[0], ak[1], s2, e.lineno, node=e))
        return self.bind(self.eval(e.func, st), with_func)

    def call_external_base(self, ext_bases, name, selfv, args, kwargs, st, line):
        # super().__init__(msg) of an exception class etc.: no modelled effect
        return [ok(None, st)]

    def eval_args(self, e, st):
        """-> Res list with val = (args list, kwargs dict)."""
        exprs = []
        shape = []
        for a in e.args:
            if isinstance(a, ast.Starred):
                shape.append(('star',))
                exprs.append(a.value)
            else:
                shape.append(('pos',))
                exprs.append(a)
        for k in e.keywords:
            shape.append(('kw', k.arg))
            exprs.append(k.value)

        def fin(vs, s):
            args, kwargs = [], {}
            for sh, v in zip(shape, vs):
                if sh[0] == 'pos':
                    args.append(v)
                elif sh[0] == 'star':
                    seq = self.concrete_iterable(v, s)
                    if seq is None:
                        raise EngineError(f'*args of symbolic sequence at line {e.lineno}')
                    args.extend(seq)
                elif sh[1] is None:
                    if isinstance(v, Ref) and s.obj(v).kind == 'dict':
                        for kk, vv in s.obj(v).items.items():
                            kwargs[kk] = vv
                    elif isinstance(v, Ref) and s.obj(v).kind in ('symdict', 'smap'):
                        kwargs['**'] = v
                    elif isinstance(v, Opaque) and v.kind in ('kwargs', 'crt_callargs'):
                        kwargs['**'] = v
                    else:
                        raise EngineError(f'**kwargs of {type(v).__name__} at line {e.lineno}')
                else:
                    kwargs[sh[1]] = v
            return [ok((args, kwargs), s)]
        return self.bind(self.eval_list(exprs, st), fin)

    def call_value(self, f, args, kwargs, st, line, node=None):
        if isinstance(f, Opt):
            f = self.unwrap_opt(f, st, 'call', line)
        if isinstance(f, FuncRef):
            return self.call_repo_function(f.finfo, None, args, kwargs, st, line)
        if isinstance(f, BoundMethod):
            return self.call_repo_function(f.finfo, f.self_val, args, kwargs, st, line)
        if isinstance(f, ClassRef):
            return self.instantiate(f.cinfo, args, kwargs, st, line)
        if isinstance(f, ExtClassRef):
            if f.name in self.registry.builtin_models:
                return self.registry.builtin_models[f.name](self, st, args, kwargs, line)
            return [ok(self.make_exc(f, args, st), st)]
        if isinstance(f, PartialV):
            kw = dict(f.kwargs)
            kw.update(kwargs)
            return self.call_value(f.func, list(f.args) + list(args), kw, st, line)
        if isinstance(f, Closure):
            return self.call_closure(f, args, kwargs, st, line)
        if isinstance(f, Builtin):
            return self.call_builtin(f.name, args, kwargs, st, line)
        if isinstance(f, ExtMethod):
            return self.call_ext_method(f.self_val, f.name, args, kwargs, st, line)
        if isinstance(f, Ref):
            h = st.obj(f)
            if h.kind == 'obj':
                fi = self.repo.find_method(h.cls, '__call__')
                if fi is None:
                    raise EngineError(f'{h.cls.name} object is not callable')
                return self.call_repo_function(fi, f, args, kwargs, st, line)
        if isinstance(f, Opaque):
            return self.call_ext_method(f, '()', args, kwargs, st, line)
        raise EngineError(f'call of {type(f).__name__} at line {line}')

    def bind_params(self, fnode, self_val, args, kwargs, st, finfo=None):
        a = fnode.args
        names = [x.arg for x in a.posonlyargs + a.args]
        env = {}
        args = list(args)
        if self_val is not None and not (finfo is not None and finfo.is_staticmethod):
            args = [self_val] + args
        defaults = [None] * (len(names) - len(a.defaults)) + list(a.defaults)
        kwargs = dict(kwargs)
        splat = kwargs.pop('**', None)
        for i, n in enumerate(names):
            if i < len(args):
                env[n] = args[i]
            elif n in kwargs:
                env[n] = kwargs.pop(n)
            elif defaults[i] is not None:
                env[n] = ('$default', defaults[i])
            else:
                raise EngineError(f'missing argument {n} for {fnode.name}')
        extra = args[len(names):]
        if a.vararg is not None:
            env[a.vararg.arg] = tuple(extra)
        elif extra:
            raise EngineError(f'too many positional arguments for {fnode.name}: TypeError in the real code')
        for k, d in zip(a.kwonlyargs, a.kw_defaults):
            if k.arg in kwargs:
                env[k.arg] = kwargs.pop(k.arg)
            elif d is not None:
                env[k.arg] = ('$default', d)
            else:
                raise EngineError(f'missing kw-only argument {k.arg}')
        if a.kwarg is not None:
            if splat is not None:
                if kwargs:
                    raise EngineError('mixed symbolic ** and explicit extra kwargs')
                env[a.kwarg.arg] = splat
            else:
                env[a.kwarg.arg] = st.alloc(HObj('dict', items=dict(kwargs)))
        elif kwargs or splat is not None:
            raise EngineError(f'unexpected keyword arguments {list(kwargs)} for {fnode.name}')
        return env

    def resolve_defaults(self, env, st, mod):
        for k, v in list(env.items()):
            if isinstance(v, tuple) and len(v) == 2 and (isinstance(v[0], str) and v[0] == '$default'):
                from .state import State
                tmp = State()
                tmp.env['$mod'] = mod
                tmp.oid = st.oid
                if isinstance(v[1], (ast.List, ast.Dict, ast.Set)) or (
                        isinstance(v[1], ast.Call) and isinstance(v[1].func, ast.Name) and v[1].func.id in ('list', 'dict', 'set')):
                    # a mutable default is evaluated ONCE, at definition time: every call that omits the argument
                    # gets the same object, with whatever earlier calls left in it -> arbitrary content
                    from .contracts import ExtT, ListOfT, MapT, SetT
                    kind = 'list' if isinstance(v[1], ast.List) or (isinstance(v[1], ast.Call) and v[1].func.id == 'list') else (
                        'dict' if isinstance(v[1], ast.Dict) or (isinstance(v[1], ast.Call) and v[1].func.id == 'dict') else 'set')
                    t = {'list': ListOfT(ExtT('shared_default_item'), name=f'{k}_shared_default'), 'dict': MapT('Str', ExtT('shared_default_item')),
                         'set': SetT('U')}[kind]
                    env[k] = self.make_symbolic(t, f'{k}_shared_mutable_default', st)
                    self.dropped.append(f'mutable default argument {k!r}: modelled as one shared object with arbitrary content') \
                        if hasattr(self, 'dropped') and isinstance(self.dropped, list) else None
                    continue
                res = self.eval(v[1], tmp)
                if len(res) != 1 or res[0].kind != 'ok':
                    raise EngineError('default argument expression')
                val = res[0].val
                if isinstance(val, Ref):
                    # move the allocated default into the current heap
                    st.heap[val.oid] = res[0].st.heap[val.oid]
                env[k] = val

    def tag_loops(self, finfo):
        if getattr(finfo.node, '_pyvc_tagged', False):
            return
        for n in ast.walk(finfo.node):
            if isinstance(n, (ast.For, ast.While)):
                n._pyvc_func = finfo
        finfo.node._pyvc_tagged = True

    def call_repo_function(self, finfo, self_val, args, kwargs, st, line, force_inline=False):
        q = finfo.qualname
        c = self.registry.contracts.get(q) if self.registry else None
        if finfo.name == '__repr__':
            return [ok(Opaque(fresh_name('repr'), kind='str'), st)]
        if q in self.cur_inline_callees:
            force_inline = True
        if not force_inline and c is not None and not c.inline and q != self.cur_root_target_inline:
            return self.apply_contract(c, finfo, self_val, args, kwargs, st, line)
        if force_inline or (c is not None and c.inline) or q in self.registry.inline or self.auto_inline(finfo):
            self.inlined.add(q)
            return self.inline_call(finfo, self_val, args, kwargs, st, line)
        # a package function without a contract that is not on any inline list (typically a helper the code did not have when the
        # contracts were written): executing its real body at the call site is exact, so it is inlined (recorded in the evidence);
        # recursion and deep chains stay out of reach
        if len(st.stack) < 12 and not any(e.get('$func') is finfo for e in st.stack + [st.env]):
            self.inlined.add(q)
            self.auto_inlined_unknown.add(q)
            return self.inline_call(finfo, self_val, args, kwargs, st, line)
        raise EngineError(f'call to {q} at line {line}: no contract and not inlinable')

    cur_root_target_inline = None
    cur_inline_callees = ()

    def auto_inline(self, finfo):
        """Trivial getters (`return self._x`) and properties are inlined without being listed."""
        body = [s for s in finfo.node.body if not (isinstance(s, ast.Expr) and isinstance(s.value, ast.Constant))]
        if len(body) == 1 and isinstance(body[0], ast.Return) and body[0].value is not None:
            v = body[0].value
            if isinstance(v, ast.Attribute) and isinstance(v.value, ast.Name) and v.value.id == 'self':
                return True
            if isinstance(v, ast.Constant) or isinstance(v, ast.Name):
                return True
        if len(body) == 1 and isinstance(body[0], ast.Pass):
            return True
        # properties run the real code like any attribute read; call-free straight-line getters likewise
        if any(isinstance(d, ast.Name) and d.id == 'property' for d in finfo.node.decorator_list):
            return True
        # ... and property setters (an attribute store runs the setter's real code)
        if any(isinstance(d, ast.Attribute) and d.attr == 'setter' for d in finfo.node.decorator_list):
            return True
        if body and all(isinstance(x, (ast.Assign, ast.Return)) for x in body) and not any(
                isinstance(n, (ast.Call, ast.Yield, ast.Await)) for x in body for n in ast.walk(x)) and all(
                isinstance(t, ast.Name) for x in body if isinstance(x, ast.Assign) for t in x.targets):
            return True
        return False

    def inline_call(self, finfo, self_val, args, kwargs, st, line, closure_env=None):
        if finfo.is_generator:
            return self.make_generator(finfo, self_val, args, kwargs, st, line)
        self.tag_loops(finfo)
        if isinstance(self_val, ClassRef) and not finfo.is_classmethod:
            self_val = None
        env = self.bind_params(finfo.node, self_val, args, kwargs, st, finfo)
        self.resolve_defaults(env, st, finfo.module)
        env['$mod'] = finfo.module
        env['$func'] = finfo
        if self_val is not None:
            env['$self'] = self_val
        if len(st.stack) > 40:
            raise EngineError('inline depth')
        st.stack.append(st.env)
        st.env = env
        out = []
        if getattr(self, 'inlined_functions', None) is not None:
            self.inlined_functions[finfo.qualname] = finfo
        for o, s1 in self.exec_block(finfo.node.body, st):
            s1.env = s1.stack.pop()
            if o[0] == 'normal':
                out.append(ok(None, s1))
            elif o[0] == 'return':
                out.append(ok(o[1], s1))
            elif o[0] == 'raise':
                out.append(rs(o[1], s1))
            else:
                raise EngineError('break/continue escaped function')
        return out

    def call_closure(self, f, args, kwargs, st, line):
        node = f.node
        if isinstance(node, ast.Lambda):
            env = dict(f.env)
            names = [a.arg for a in node.args.args]
            if len(names) != len(args) or kwargs:
                raise EngineError('lambda arity')
            env.update(zip(names, args))
            st.stack.append(st.env)
            st.env = env
            out = []
            for r in self.eval(node.body, st):
                r.st.env = r.st.stack.pop()
                out.append(r)
            return out
        env = dict(f.env)
        env.update(self.bind_params(node, None, args, kwargs, st))
        self.resolve_defaults(env, st, f.env.get('$mod'))
        st.stack.append(st.env)
        st.env = env
        out = []
        for o, s1 in self.exec_block(node.body, st):
            s1.env = s1.stack.pop()
            if o[0] in ('normal',):
                out.append(ok(None, s1))
            elif o[0] == 'return':
                out.append(ok(o[1], s1))
            elif o[0] == 'raise':
                out.append(rs(o[1], s1))
            else:
                raise EngineError('break/continue escaped closure')
        return out

    def ex_FunctionDef(self, s, st):
        if any(isinstance(n, (ast.Yield, ast.YieldFrom, ast.Nonlocal)) for n in ast.walk(s)):
            raise EngineError('nested generator / nonlocal')
        # closure rule: free variables are snapshotted; sound if the enclosing function does not
        # rebind them afterwards (checked syntactically)
        st.env[s.name] = Closure(s, dict(st.env), None)
        return [(NORMAL, st)]

    def instantiate(self, cinfo, args, kwargs, st, line):
        ext_bases = self.repo.external_bases(cinfo)
        is_exc = any(isinstance(self.external_name(b), ExtClassRef) for b in ext_bases if isinstance(b, str))
        if is_exc:
            e = self.make_exc(ClassRef(cinfo), args, st, kwargs)
            return [ok(e, st)]
        ref = st.alloc(HObj('obj', cls=cinfo))
        init = self.repo.find_method(cinfo, '__init__')
        if init is None:
            return [ok(ref, st)]
        out = []
        for r in self.call_repo_function(init, ref, args, kwargs, st, line):
            out.append(ok(ref, r.st) if r.kind == 'ok' else r)
        return out
