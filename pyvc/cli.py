"""./check <property> [--tier quick|thorough] [--replay file]"""
import argparse
import fnmatch
import importlib
import json
import os
import pkgutil
import subprocess
import sys
import time
import traceback

VERIF = os.path.dirname(os.path.dirname(os.path.abspath(__file__)))
OUT = os.environ.get('PYVC_OUT') or VERIF     # where evidence/ and replays/ are written (self-test children use a scratch dir)
sys.path.insert(0, VERIF)

import z3  # noqa: E402

from pyvc import Engine, EngineError  # noqa: E402
from pyvc.contracts import Registry  # noqa: E402
from pyvc.discharge import discharge, status  # noqa: E402
from pyvc.repo import Repo  # noqa: E402
from pyvc.state import Obligation, State  # noqa: E402

VENV_PY = '/venv/bin/python'


# assumptions built into the engine's semantics (every property)
ENGINE_ASSUMPTIONS = [
    'A-EXC-ENUM a specification\'s abstract `raises Exception` stands for an exception of none of the classes a handler on the way '
    'distinguishes; distinguished classes are enumerated in the specifications (an except clause that is dead under them makes the root undecided)',
    'A-STORED-EXC what set_exception / cancel record is an instance of Exception (never KeyboardInterrupt / SystemExit); its class is otherwise unknown',
    'A-PY-SUBSET the Python subset and encoding of DESIGN.md section 3.2 (ints mathematical, no async exceptions between statements, '
    'logging calls dropped, attribute access on typed objects does not raise)',
]


def load_registry():
    R = Registry()
    import contracts
    mods = []
    for m in sorted(pkgutil.iter_modules(contracts.__path__), key=lambda x: x.name):
        mod = importlib.import_module(f'contracts.{m.name}')
        if hasattr(mod, 'register'):
            mod.register(R)
            mods.append(mod)
    return R, mods


def known_findings():
    p = os.path.join(VERIF, 'known_findings.json')
    if not os.path.exists(p):
        return []
    return json.load(open(p))['findings']


def match_finding(prop, o, findings):
    for f in findings:
        if f.get('status') != 'open' or f['property'] != prop:
            continue
        if any(fnmatch.fnmatch(o.id, pat) for pat in f['obligations']):
            return f
    return None


def write_replay(prop, o, registry, repo_root):
    """Replay file for a failed obligation. Returns (path, reproduced: bool|None)."""
    d = os.path.join(OUT, 'replays', prop)
    os.makedirs(d, exist_ok=True)
    safe = o.id.replace('/', '__').replace('<', 'lt').replace('>', 'gt')
    path = os.path.join(d, safe + '.py')
    c = None
    for t, cc in registry.contracts.items():
        short = t.replace('s3transfer.', '').replace(':', '.')
        if o.function == short or o.function == t:
            c = cc
    header = [
        '"""Replay of a failed verification obligation.',
        f'property:   {prop}',
        f'obligation: {o.id}',
        f'function:   {o.function}',
        f'kind:       {o.kind}   line: {o.line}',
        f'note:       {o.note}',
        f'solver:     {o.backend} verdict={o.verdict} time={o.time_s}',
        'model (projection on 0-ary symbols):',
    ]
    for k, v in sorted((o.model or {}).items()):
        header.append(f'    {k} = {v}')
    header.append('"""')
    body = []
    reproduced = None
    if c is not None and c.replay and o.model is not None and o.kind in ('post', 'safety', 'loop-init', 'loop-preserve', 'loop-variant', 'pre'):
        args = {}
        finfo = None
        from pyvc.repo import Repo as _R
        for pname in c.params:
            val = None
            isnone = None
            for k, v in o.model.items():
                base = k.split('!')[0]
                if base == pname:
                    val = v
                if base == pname + '_is_none':
                    isnone = (v == 'True')
            if isnone:
                args[pname] = None
            elif val is not None:
                try:
                    args[pname] = int(val)
                except ValueError:
                    if len(val) >= 2 and val[0] == '"' and val[-1] == '"':      # a z3 string literal
                        import re as _re
                        val = _re.sub(r'\\u\{([0-9a-fA-F]+)\}', lambda m: chr(int(m.group(1), 16)), val[1:-1]).replace('""', '"')
                    args[pname] = val
            else:
                args[pname] = 1
        rp = c.replay
        body += [
            'import sys, json',
            f'sys.path.insert(0, {repo_root!r}); sys.path.insert(0, {VERIF!r})',
            'from contracts import oracles',
            f'import {rp["module"]} as M',
            f'args = {args!r}',
            f'pre = getattr(oracles, "pre_{rp["oracle"]}", lambda a: True)(args)',
            'result = exc = None',
            'try:',
        ]
        if rp.get('cls'):
            body.append(f'    result = M.{rp["cls"]}().{rp["func"]}(**args)')
        else:
            body.append(f'    result = M.{rp["func"]}(**args)')
        body += [
            'except Exception as e:',
            '    exc = e',
            f'ok, why = oracles.oracle_{rp["oracle"]}(args, result, exc)',
            'print(json.dumps({"args": args, "pre": pre, "result": repr(result), "exc": repr(exc), "ok": ok, "why": why}))',
            'sys.exit(0 if (ok or not pre) else 1)',
        ]
    else:
        body += ['# no concrete input could be derived for this obligation (ghost / trace / monitor state)',
                 'NO_FAILING_INPUT_FOUND = True',
                 'SMT2 = r"""' + (o.smt2()[:20000]) + '"""',
                 'SOLVER_OUTPUT = r"""' + str(o.raw)[:4000] + '"""']
    open(path, 'w').write('\n'.join(header + body) + '\n')
    if c is not None and c.replay and body and body[0].startswith('import sys'):
        try:
            p = subprocess.run([VENV_PY, path], capture_output=True, text=True, timeout=120)
            reproduced = (p.returncode == 1)
            open(path, 'a').write('# replay output: ' + p.stdout.strip()[:2000].replace('\n', ' ') + '\n')
        except Exception as e:
            open(path, 'a').write(f'# replay failed to run: {e}\n')
    return path, reproduced


def all_verified_targets(R, mods):
    out = set()
    for m in mods:
        out |= set(getattr(m, 'ROOTS', []) or [])
    import contracts
    for m in pkgutil.iter_modules(contracts.__path__):
        mod = sys.modules.get(f'contracts.{m.name}')
        if mod is not None:
            out |= set(getattr(mod, 'ROOTS', []) or [])
    out |= {t for t, c in R.contracts.items() if c.props and not c.inline}
    return out


def self_test(prop, repo_root):
    """Thorough tier only, evidence only (never changes the verdict): every stored seeded change of this property
    (seeded/<prop>*/patch.diff) is applied to a scratch copy of the tree under check and the quick check is run on
    it; it must report a violation.  A patch that no longer applies (the tree moved on) is recorded as stale."""
    import shutil
    import tempfile
    out = []
    sdir = os.path.join(VERIF, 'seeded')
    for name in sorted(os.listdir(sdir)) if os.path.isdir(sdir) else []:
        patch = os.path.join(sdir, name, 'patch.diff')
        if not name.startswith(prop) or not os.path.exists(patch):
            continue
        scratch = tempfile.mkdtemp(prefix='pyvc_selftest_', dir=os.environ.get('TMPDIR') or '/var/tmp')
        try:
            shutil.copytree(os.path.join(repo_root, 's3transfer'), os.path.join(scratch, 's3transfer'),
                            ignore=shutil.ignore_patterns('__pycache__'))
            a = subprocess.run(['git', 'apply', '--whitespace=nowarn', patch], cwd=scratch, capture_output=True, text=True)
            if a.returncode != 0:
                out.append({'seed': name, 'result': 'stale (patch does not apply to this tree)'})
                continue
            env = dict(os.environ, PYVC_REPO=scratch, PYVC_OUT=os.path.join(scratch, 'out'), PYVC_SELFTEST_CHILD='1')
            t0 = time.time()
            p = subprocess.run([sys.executable, '-m', 'pyvc.cli', prop, '--tier', 'quick'], cwd=VERIF, env=env,
                               capture_output=True, text=True, timeout=1800)
            failing = sorted(set(l.split('failed obligation: ')[1].split(' ')[0].split('#')[0]
                                 for l in p.stdout.splitlines() if 'failed obligation: ' in l))
            out.append({'seed': name, 'result': {1: 'detected', 0: 'MISSED', 2: 'undecided', 3: 'checker error'}.get(p.returncode, str(p.returncode)),
                        'exit': p.returncode, 'failing_obligations': failing[:6], 'wall_s': round(time.time() - t0, 1)})
        except Exception as e:
            out.append({'seed': name, 'result': f'self-test could not run: {type(e).__name__}: {e}'})
        finally:
            shutil.rmtree(scratch, ignore_errors=True)
    for r in out:
        print(f'SELF-TEST {prop} {r["seed"]}: {r["result"]}')
    return out


def run_property(prop, tier, seed):
    t0 = time.time()
    R, mods = load_registry()
    repo = Repo()
    eng = Engine(repo, R)
    eng.frame_report = {}
    eng.dead_under_contract = {}
    eng.executed_nodes = set()
    eng.executed_all = set()
    eng.auto_inlined_unknown = set()
    eng.dead_handlers = {}
    eng.inlined_functions = {}
    problems = R.check_attached(repo)
    if problems:
        for p in problems:
            print('UNDECIDED contract does not attach:', p)
        return 2, None
    mod = importlib.import_module(f'contracts.{prop.lower()}')
    if hasattr(mod, 'configure'):
        mod.configure(eng)
    roots = [t for t in getattr(mod, 'ROOTS', []) if t in R.contracts or not R.optional_targets.get(t)]
    # every contract that carries clauses of this property is verified for it (not only the declared roots)
    roots += [t for t, c in R.contracts.items() if prop in c.props and not c.inline and t not in roots]
    stats = []
    out_of_reach = []
    for target in roots:
        c = R.contracts[target]
        ieee_default = eng.ieee_checks
        try:
            z3_before = len(eng.obligations)
            stats.append(eng.verify_contract(c))
        except EngineError as e:
            # the exploration of this root stopped: what was generated so far stays (an obligation that fails on an explored
            # path is a real failure), but the root is out of reach: nothing is claimed about its unexplored paths
            out_of_reach.append({'function': target, 'reason': str(e), 'obligations_from_the_partial_exploration': len(eng.obligations) - z3_before})
            for o in eng.obligations[z3_before:]:
                o.note = (o.note or '') + ' [partial exploration of an out-of-reach root]'
            eng.obligations[z3_before:] = [o for o in eng.obligations[z3_before:] if o.kind not in ('cover', 'cover-path', 'twin')]
            eng.cur_root_target_inline = None
            eng.cur_inline_callees = ()
        except (KeyError, AttributeError, IndexError, TypeError, ValueError) as e:
            # a contract clause refers to something (a local variable, a field, an event) that the code under check no
            # longer has: the contract does not attach to this version of the function -> undecided for this root,
            # never a violation and never a crash of the whole check
            tb = traceback.extract_tb(e.__traceback__)
            where = '; '.join(f'{os.path.basename(f.filename)}:{f.lineno}' for f in tb[-3:])
            out_of_reach.append({'function': target, 'reason': f'contract clause cannot be evaluated on this version of the code '
                                                                f'({type(e).__name__}: {str(e)[:120]} at {where})'})
            del eng.obligations[z3_before:]
            eng.cur_root_target_inline = None
            eng.cur_inline_callees = ()
        finally:
            eng.ieee_checks = ieee_default
    # A-EXC-ENUM guard: an `except H` clause that no feasible path enters although its try statement runs means that the
    # specifications of the calls inside do not enumerate H (they raise an abstract class that stands for "none of the classes
    # a handler distinguishes"): what that handler does -- e.g. swallow a failure -- is then not examined.  Such a function is
    # out of reach (undecided), never silently accepted.
    oor_targets = {r['function'] for r in out_of_reach}
    for target, sets in sorted(eng.dead_handlers.items()):
        common = set.intersection(*sets) if sets else set()
        if common and target not in oor_targets:
            out_of_reach.append({'function': target, 'reason': f'except clause(s) at line(s) {sorted(common)} are never entered under the '
                                 'specifications of the calls they guard (the exception class they name is not enumerated there, A-EXC-ENUM): '
                                 'what the handler does is not examined'})
    for q, fi in sorted(eng.inlined_functions.items()):
        if q in eng.dead_handlers:
            continue
        dh = eng.dead_handler_lines(fi, eng.executed_all)
        if dh:
            out_of_reach.append({'function': q, 'reason': f'(inlined) except clause(s) at line(s) {dh} are never entered under the specifications '
                                 'of the calls they guard (A-EXC-ENUM): what the handler does is not examined'})
    # lemmas
    for lp, name, fn in R.lemmas:
        if lp == prop:
            f = fn()
            if f is None:
                continue
            eng.cur_root = 'lemma'
            eng.cur_props = (prop,)
            eng.oblige(State(), name, f, kind='lemma')
    # property-specific extra obligations (tables, oracles...)
    extra_info = {}
    if hasattr(mod, 'extra_obligations'):
        extra_info = mod.extra_obligations(eng, R, tier) or {}
    # obligation-level attribution: keep what belongs to this property
    eng.obligations = [o for o in eng.obligations if prop in o.props or not o.props]
    obls = eng.obligations
    timeout = 10 if tier == 'quick' else 60
    trivial = discharge(obls, timeout_s=timeout)
    findings = known_findings()
    failed, undecided, errors, known = [], [], [], []
    # path covers: a refuted one is a dead path (carried along because pruning ignores quantified
    # assumptions); its obligations are vacuous and it is not counted.  A root function none of whose
    # paths is feasible is a vacuous proof: checker error.
    dead_paths = [o for o in obls if o.kind == 'cover-path' and status(o) == 'failed']
    by_root = {}
    for o in obls:
        if o.kind == 'cover-path':
            by_root.setdefault(o.function, []).append(o)
    vacuous_roots = [r for r, lst in by_root.items() if all(status(o) == 'failed' for o in lst)]
    for r in vacuous_roots:
        print(f'CHECKER-ERROR vacuous: no feasible path through {r}')
    obls = [o for o in obls if o not in dead_paths]
    eng.obligations = obls
    for o in obls:
        s = status(o)
        if s == 'failed' and o.kind == 'frame':
            # an undeclared modification makes the callers' proofs unsound, it is not by itself a violation of the
            # property: undecided until the contract declares it (and the callers are re-verified against that)
            o.raw = 'frame: ' + (o.note or '') + ' | ' + str(o.raw)[:300]
            undecided.append(o)
        elif s == 'failed':
            kf = match_finding(prop, o, findings)
            (known if kf else failed).append((o, kf))
        elif s == 'undecided':
            undecided.append(o)
        elif s == 'error':
            errors.append(o)
    bounded = {}
    if hasattr(mod, 'bounded_checks'):
        bounded = mod.bounded_checks(tier, seed) or {}
    violations = []
    for o, _ in failed:
        path, reproduced = write_replay(prop, o, R, repo.root)
        # a recorded finding that came back: its native witness script is the replay
        for f in findings:
            if f['property'] == prop and f.get('witness') and any(fnmatch.fnmatch(o.id, pat) for pat in f['obligations']):
                w = os.path.join(VERIF, f['witness'])
                try:
                    p = subprocess.run([VENV_PY, w, repo.root], capture_output=True, text=True, timeout=300)
                    if p.returncode == 1:
                        path, reproduced = w, True
                except Exception:
                    pass
        tail = '' if reproduced else ' no-failing-input-found'
        violations.append((o, path, reproduced))
        print(f'VIOLATION property={prop} replay={path}{tail}')
        print(f'  failed obligation: {o.id} ({o.kind}, line {o.line}) {o.note}')
    for b in bounded.get('violations', []):
        print(f'VIOLATION property={prop} replay={b["replay"]}')
        print(f'  bounded stand-in: {b["what"]}')
    seen_kf = set()
    for o, kf in known:
        if kf['id'] not in seen_kf:
            seen_kf.add(kf['id'])
            print(f'KNOWN-FINDING: property={prop} {kf["id"]} {kf["what"]}')
    for o in undecided:
        print(f'UNDECIDED {o.id}: {o.raw}')
    for o in errors:
        print(f'CHECKER-ERROR {o.id}: {o.raw}')
    for r in out_of_reach:
        print(f'OUT-OF-REACH {r["function"]}: {r["reason"]}')
    paths_report = eng.dead_under_contract.pop('$paths', {})
    if os.environ.get('PYVC_DEAD'):
        for t in paths_report.get('roots_without_a_normal_return', []):
            print('NO-NORMAL-RETURN', t)
        for t, ks in paths_report.get('allowed_exceptions_no_path_raises', {}).items():
            print('ALLOWED-EXCEPTION-NEVER-RAISED', t, ks)
    inlined_dead = {}
    for q, fi in sorted(eng.inlined_functions.items()):
        if q in eng.dead_under_contract or q in R.contracts and q in roots:
            continue
        d = eng.unreached_lines(fi, eng.executed_all)
        if d:
            inlined_dead[q] = sorted(set(d))
    if os.environ.get('PYVC_DEAD'):
        for q, d in inlined_dead.items():
            print(f'DEAD-IN-INLINED {q}: lines {d}')
    if os.environ.get('PYVC_DEAD'):
        for t, v in sorted(eng.dead_under_contract.items()):
            if any(v.values()) and all(v.values()):
                # unreached in EVERY parameter alternative
                common = set.intersection(*[set(x) for x in v.values()])
                if common:
                    print(f'DEAD-UNDER-CONTRACT {t}: lines {sorted(common)}')
    if os.environ.get('PYVC_LIST'):
        with open(os.environ['PYVC_LIST'], 'w') as fh:
            for o in obls:
                fh.write(f'{status(o)}\t{o.kind}\t{o.id}\n')
    if os.environ.get('PYVC_DUMP'):
        for o in obls:
            if fnmatch.fnmatch(o.id, os.environ['PYVC_DUMP']):
                print('=== DUMP', o.id, status(o)); print(o.smt2()[:6000])
    known_set = {id(o) for o, _ in known}
    # roots verified only up to a stated bound (e.g. a loop unrolled over short concrete lists) are reported separately:
    # labelled bounded, never counted among the proved obligations
    bounded_roots = {}
    for t in roots:
        c = R.contracts.get(t)
        b = getattr(c, 'bounded', None) if c is not None else None
        if b:
            key = t.replace('s3transfer.', '').replace(':', '.')
            mine = [o for o in obls if o.function.startswith(key)]
            bounded_roots[t] = {'bound': b, 'label': 'bounded', 'obligations': len(mine),
                                'discharged': sum(1 for o in mine if status(o) == 'discharged')}
            for o in mine:
                o.is_bounded = True
    n = len([o for o in obls if id(o) not in known_set and not getattr(o, 'is_bounded', False)])   # (open findings reported separately)
    disch = sum(1 for o in obls if status(o) == 'discharged' and not getattr(o, 'is_bounded', False))
    by_backend = {}
    for o in obls:
        by_backend[o.backend or 'none'] = by_backend.get(o.backend or 'none', 0) + 1
    level = getattr(mod, 'LEVEL', 'proof')
    samples = []
    for o in obls[:400]:
        if o.kind in ('post', 'monitor', 'lemma', 'lock') and len(samples) < 4:
            samples.append({'id': o.id, 'kind': o.kind, 'verdict': o.verdict, 'backend': o.backend,
                            'smt2': o.smt2()[:1500]})
    ev = {
        'property_id': prop, 'tier': tier, 'seed': seed, 'level': level,
        'coverage': {
            'obligations': n, 'discharged': disch,
            'checker_cmd': f'./check {prop} --tier {tier}',
            'trusted_base': sorted(set(getattr(mod, 'TRUSTED', [])) | set(ENGINE_ASSUMPTIONS) | {f'external:{x}' for x in eng.used_externals}),
            'explanation': getattr(mod, 'EXPLANATION', ''),
            'functions_under_contract': stats,
            'functions_out_of_reach': out_of_reach,
            'inlined_functions': sorted(eng.inlined),
            'contracts_used_at_call_sites': sorted(eng.used_contracts),
            # contracts of repository functions that callers rely on but that NO check verifies against the function's body
            # (interface contracts of abstract methods, thin OS wrappers, ...): assumptions, listed by name
            'assumed_contracts_of_repository_functions_not_verified_by_any_check': sorted(
                t for t in eng.used_contracts if t not in all_verified_targets(R, mods)),
            'builtin_models_used': sorted(eng.used_builtins),
            'by_backend': by_backend,
            'by_kind': {k: sum(1 for o in obls if o.kind == k) for k in sorted({o.kind for o in obls})},
            'solver_time_s': round(sum(o.time_s or 0 for o in obls), 3),
            'slowest_obligations_s': [[round(o.time_s or 0, 2), o.id] for o in sorted(obls, key=lambda o: -(o.time_s or 0))[:5]],
            'per_obligation_timeout_s': timeout,
            'trivially_discharged_by_simplifier': trivial,
            'dropped_statements': eng.dropped,
            'unattached_loop_invariants': R.unattached_loops,
            'alpha_renamed_locals_mapped_back': repo.alpha_renamed,
            'frame': {'roots_checked_to_modify_only_what_their_contract_declares': len(eng.frame_report.get('checked', {})),
                      'frame_obligations_needing_the_solver': sum(eng.frame_report.get('checked', {}).values()),
                      'top_level_roots_without_frame_check': sorted(eng.frame_report.get('top_level_not_checked', []))},
            # vacuity guard: lines of a verified function that no feasible path reached in ANY of its parameter alternatives
            # (dead under the contract's preconditions and the callees' contracts: clauses about them would be vacuous)
            'statements_no_feasible_path_reaches_under_the_contract': {
                t: sorted(set.intersection(*[set(x) for x in v.values()])) for t, v in sorted(eng.dead_under_contract.items())
                if v and set.intersection(*[set(x) for x in v.values()])},
            'statements_of_inlined_callees_no_feasible_path_reaches': inlined_dead,
            'package_functions_without_contract_inlined_at_their_call_sites': sorted(eng.auto_inlined_unknown),
            'roots_without_a_normal_return': sorted(paths_report.get('roots_without_a_normal_return', [])),
            'allowed_exceptions_no_path_raises': paths_report.get('allowed_exceptions_no_path_raises', {}),
            'racy_reads': sorted(f'{a}:{b}@{c}' for a, b, c in eng.racy_reads),
            'vacuity': {'covers': sum(1 for o in obls if o.kind == 'cover'),
                        'must_fail_twins': sum(1 for o in obls if o.kind == 'twin'),
                        'paths': eng.paths, 'infeasible_branches_pruned': eng.pruned, 'dead_paths_not_counted': len(dead_paths)},
            'failed': [o.id for o, _ in failed], 'undecided': [o.id for o in undecided],
            'known_findings_hit': sorted(seen_kf), 'obligations_failing_under_known_findings': len(known),
            'bounded_standins': bounded.get('report', {}),
            'bounded_roots_not_counted_as_proved': bounded_roots,
            'samples': samples,
            'repo_sha256': repo.shas(),
        },
        'assumptions': list(getattr(mod, 'ASSUMPTIONS', [])) + [a for a in ENGINE_ASSUMPTIONS if a not in getattr(mod, 'ASSUMPTIONS', [])],
        'wall_s': round(time.time() - t0, 3),
        'violations': len(violations) + len(bounded.get('violations', [])),
    }
    extra_errors = extra_info.pop('checker_errors', []) if isinstance(extra_info, dict) else []
    for e in extra_errors:
        print(f'CHECKER-ERROR {e}')
    ev['coverage'].update(extra_info)
    if tier == 'thorough' and not os.environ.get('PYVC_SELFTEST_CHILD'):
        from .discharge import cross_check_cvc5
        cc = cross_check_cvc5(obls, seed=seed)
        ev['coverage']['second_opinion_cvc5_on_a_sample_of_z3_discharged_obligations'] = cc
        for oid in cc.get('disagree', []):
            print(f'CHECKER-ERROR solver disagreement on {oid}: z3 unsat, cvc5 sat')
            extra_errors.append(oid)
        ev['coverage']['self_test_on_stored_seeded_changes'] = self_test(prop, repo.root)
    os.makedirs(os.path.join(OUT, 'evidence'), exist_ok=True)
    json.dump(ev, open(os.path.join(OUT, 'evidence', f'{prop}.json'), 'w'), indent=1, default=str)
    print(f'{prop}: {disch}/{n} obligations discharged, {len(failed)} failed, {len(known)} known, '
          f'{len(undecided)} undecided, {len(out_of_reach)} out of reach, {ev["wall_s"]}s')
    if violations or bounded.get('violations'):
        return 1, ev
    if errors or n == 0 or vacuous_roots or extra_errors:
        return 3, ev
    if undecided or out_of_reach:
        return 2, ev
    return 0, ev


def main():
    ap = argparse.ArgumentParser()
    ap.add_argument('prop')
    ap.add_argument('--tier', default=os.environ.get('VERIF_TIER', 'quick'))
    ap.add_argument('--replay')
    a = ap.parse_args()
    if a.replay:
        p = subprocess.run([VENV_PY, a.replay])
        sys.exit(p.returncode)
    seed = int(os.environ.get('VERIF_SEED', '0') or 0)
    try:
        code, _ = run_property(a.prop, a.tier if a.tier in ('quick', 'thorough') else 'quick', seed)
    except Exception:
        traceback.print_exc()
        print('CHECKER-CRASH')
        sys.exit(3)
    sys.exit(code)


if __name__ == '__main__':
    main()
