"""Sidecar contract API: types, contracts, loop specs, contexts, registry."""
import ast

import z3

from .values import HObj, Opaque, Opt, Ref, U, BytesV, fresh_name, is_sym


# ---------------------------------------------------------------------------------- types
class T:
    pass


class _Prim(T):
    def __init__(self, name):
        self.name = name

    def __repr__(self):
        return self.name


Int = _Prim('Int')
Real = _Prim('Real')
Bool = _Prim('Bool')
Str = _Prim('Str')
Any = _Prim('Any')


class OptT(T):
    def __init__(self, inner):
        self.inner = inner


class ExtT(T):
    """Opaque value with an external interface kind."""

    def __init__(self, kind):
        self.kind = kind


class ObjT(T):
    """Instance of a package class with symbolic fields taken from the registered field schema;
    `fields` overrides individual field types or gives concrete values via Const."""

    def __init__(self, cls, shared=False, unvalidated=False, **fields):
        self.cls = cls
        self.fields = fields
        self.shared = shared
        self.unvalidated = unvalidated     # True: the class's registered validity predicate is NOT assumed (constructors, validators)


class Const(T):
    def __init__(self, value):
        self.value = value


class ListOfT(T):
    """Symbolic-length list; elements of type elem (Int or ExtT)."""

    def __init__(self, elem, name=None):
        self.elem = elem
        self.name = name


class RecordT(T):
    """Element type of a symbolic list of dict records {field: Int | BytesT(base)}."""

    def __init__(self, **fields):
        self.fields = fields


class HeapT(T):
    """heapq list of (offset:int, data:bytes-view of `base`) tuples, abstracted to the multiset
    count[(offset, length)] (data is determined by offset/length: data == base[o:o+l])."""

    def __init__(self, base):
        self.base = base


class ConcreteListT(T):
    """Python list of known length with element types."""

    def __init__(self, elems):
        self.elems = elems


class DictT(T):
    """Concrete-key dict {key: type}."""

    def __init__(self, **items):
        self.items = items


class MapT(T):
    """Symbolic map K -> V (z3 arrays). key: 'U' or 'Int'. val: Int | ListOfT(Int) | Any.
    default_int: defaultdict(int) semantics."""

    def __init__(self, key='U', val=Int, default_int=False):
        self.key = key
        self.val = val
        self.default_int = default_int


class SetT(T):
    def __init__(self, key='U', elem_kind=None):
        self.key = key
        self.elem_kind = elem_kind


class LockT(T):
    def __init__(self, name=None, reentrant=False, kind='lock', of=None):
        self.name = name
        self.reentrant = reentrant
        self.kind = kind
        self.of = of


class BytesT(T):
    """Byte view base[lo:hi] with fresh lo/hi (or of a named base)."""

    def __init__(self, base=None):
        self.base = base


class ExcT(T):
    def __init__(self, cls='Exception'):
        self.cls = cls


class FuncT(T):
    """A callable value referring to a package function/method: value given directly."""

    def __init__(self, value):
        self.value = value


# ---------------------------------------------------------------------------------- contexts
class View:
    """Read-only view of a state for contract formulas."""

    def __init__(self, engine, st):
        self.engine = engine
        self.st = st

    def f(self, ref, name):
        return self.st.obj(ref).fields[name]

    def obj(self, ref):
        return self.st.obj(ref)

    def local(self, name):
        return self.st.env[name]


class CallCtx:
    def __init__(self, engine, finfo, args, self_val, old, new=None, result=None, exc=None, trace_mark=0):
        self.engine = engine
        self.finfo = finfo
        self.args = args  # dict name -> value
        self.self = self_val
        self.old = View(engine, old)
        self.new = View(engine, new) if new is not None else None
        self.result = result
        self.exc = exc
        self.trace_mark = trace_mark
        self.ghost = {}

    def __getattr__(self, name):
        if name.startswith('a_'):
            return self.args[name[2:]]
        raise AttributeError(name)

    @property
    def trace(self):
        return self.new.st.trace[self.trace_mark:]

    def arg(self, name):
        return self.args[name]

    def oldf(self, name, ref=None):
        return self.old.f(ref or self.self, name)

    def newf(self, name, ref=None):
        return self.new.f(ref or self.self, name)


class LoopCtx:
    def __init__(self, engine, st, node, iterable):
        self.engine = engine
        self.st = st
        self.pre = None
        self.node = node
        self.iterable = iterable
        self.index = None
        self.length = None
        self.item_fn = None
        self.ghost = {}

    def local(self, name):
        return self.st.env[name]

    def pre_local(self, name):
        return self.pre.env[name]

    def outer_local(self, name):
        """Local of the consumer frame when the loop belongs to a fused generator."""
        return self.st.stack[-1][name]

    def pre_outer_local(self, name):
        return self.pre.stack[-1][name]

    def f(self, ref, name):
        return self.st.obj(ref).fields[name]

    def pre_f(self, ref, name):
        return self.pre.obj(ref).fields[name]

    def at(self, st):
        c = LoopCtx(self.engine, st, self.node, self.iterable)
        c.pre, c.index, c.length, c.item_fn, c.ghost = self.pre, self.index, self.length, self.item_fn, self.ghost
        return c

    def after_iteration(self, st):
        c = self.at(st)
        if self.index is not None:
            c.index = self.index + 1
        return c

    # ---- for loops over symbolic iterables
    def setup_iteration(self, spec):
        st, it = self.st, self.iterable
        if isinstance(it, Ref):
            h = st.obj(it)
            if h.kind == 'range':
                lo, hi = h.meta['lo'], h.meta['hi']
                n = hi - lo
                self.length = z3.If(n > 0, n, 0) if is_sym(n) else max(n, 0)
                self.item_fn = lambda k, s: lo + k
            elif h.kind == 'slist':
                self.length = h.meta['len']
                self.item_fn = lambda k, s, h=h: h.meta['elem'](k)
            elif h.kind == 'sentinel_iter':
                self.length = None
                self.item_fn = None
                self.ghost['sentinel_iter'] = it
            elif h.kind == 'obj' and self.engine.repo.find_method(h.cls, '__next__') is not None:
                # iterator protocol: the guard is a call of __next__ (StopIteration ends the loop)
                self.length = None
                self.item_fn = None
                self.ghost['iterator'] = it
            elif h.kind == 'smapitems':
                # enumeration (unspecified order, A-DICT-ORDER) of the keys present in the map when
                # the loop starts: e[0..n) distinct, exactly the present keys
                mh = st.obj(h.meta['map'])
                m = mh.meta
                ks = m['present'].domain()
                n = z3.Int(fresh_name('map_len'))
                e = z3.Array(fresh_name('map_enum'), z3.IntSort(), ks)
                pos = z3.Function(fresh_name('map_pos'), ks, z3.IntSort())
                kk, ii = z3.Const('k__', ks), z3.Int('i__')
                pres0, vals0 = m['present'], m['vals']
                st.assume(n >= 0)
                st.assume(z3.ForAll([ii], z3.Implies(z3.And(ii >= 0, ii < n), z3.And(z3.Select(pres0, z3.Select(e, ii)), pos(z3.Select(e, ii)) == ii))))
                st.assume(z3.ForAll([kk], z3.Implies(z3.Select(pres0, kk), z3.And(pos(kk) >= 0, pos(kk) < n, z3.Select(e, pos(kk)) == kk))))
                self.length = n
                self.ghost['enum'] = e
                self.ghost['pos'] = pos
                self.ghost['present0'] = pres0
                self.ghost['vals0'] = vals0
                what = h.meta['what']
                val_int = m['val_t'] is Int

                def item(i, s, e=e, vals0=vals0, what=what, val_int=val_int):
                    i = i if is_sym(i) else z3.IntVal(i)
                    k = z3.Select(e, i)
                    if what == 'keys':
                        return k
                    v = z3.Select(vals0, k)
                    return (k, v if val_int else Opaque(v))
                self.item_fn = item
            elif h.kind == 'sset':
                # iteration over a set snapshot: an enumeration of unspecified order (A-DICT-ORDER)
                n = z3.Int(fresh_name('set_len'))
                st.assume(n >= 0)
                arr = z3.Array(fresh_name('set_enum'), z3.IntSort(), U)
                k = h.meta.get('elem_kind')
                self.length = n
                self.item_fn = lambda i, s, arr=arr, k=k: Opaque(z3.Select(arr, i if is_sym(i) else z3.IntVal(i)), kind=k)
            elif h.kind == 'list' and spec.iterate_concrete_list_symbolically:
                items = list(h.items)
                if not all(isinstance(x, str) for x in items):
                    from .engine import EngineError
                    raise EngineError('symbolic iteration over a concrete list of non-strings')
                self.length = len(items)
                self.ghost['items'] = items

                def item(i, s, items=items):
                    i = i if is_sym(i) else z3.IntVal(i)
                    v = z3.StringVal(items[-1])
                    for j in range(len(items) - 2, -1, -1):
                        v = z3.If(i == j, z3.StringVal(items[j]), v)
                    return v
                self.item_fn = item
            else:
                from .engine import EngineError
                raise EngineError(f'for loop with invariant over {h.kind}')
        else:
            from .engine import EngineError
            raise EngineError(f'for loop with invariant over {type(it).__name__}')
        self.index = 0

    def havoc_index(self):
        if self.length is None:
            self.index = z3.Int(fresh_name('k'))
            self.st.assume(self.index >= 0)
            return
        k = z3.Int(fresh_name('k'))
        self.st.assume(k >= 0)
        self.st.assume(k <= self.length)
        self.index = k

    def for_guard(self, st):
        from .engine import ok, rs
        if self.length is None and 'sentinel_iter' in self.ghost:
            h = st.obj(self.ghost['sentinel_iter'])
            out = []
            for r in self.engine.call_value(h.meta['fn'], [], {}, st, self.node.lineno):
                if r.kind == 'raise':
                    out.append(r)
                    continue
                eq = self.engine.value_eq(r.val, h.meta['sentinel'], r.st)
                for is_end, s2 in self.engine.branch(r.st, eq):
                    if is_end:
                        out.append(ok(False, s2))
                    else:
                        s2.ghost['$next_item'] = r.val
                        out.append(ok(True, s2))
            return out
        if self.length is None:
            it = self.ghost['iterator']
            fi = self.engine.repo.find_method(st.obj(it).cls, '__next__')
            out = []
            for r in self.engine.call_repo_function(fi, it, [], {}, st, self.node.lineno):
                if r.kind == 'raise' and r.val.cls == 'StopIteration':
                    out.append(ok(False, r.st))
                elif r.kind == 'raise':
                    out.append(r)
                else:
                    r.st.ghost['$next_item'] = r.val
                    out.append(ok(True, r.st))
            return out
        return [ok(self.index < self.length, st)]

    def for_body_state(self, st, spec):
        return None

    def current_item(self, st):
        if self.length is None:
            return st.ghost.pop('$next_item')
        return self.item_fn(self.index, st)

    def at_exit(self, st):
        pass

    def havoc_local(self, name, old, spec):
        t = spec.local_types.get(name)
        eng = self.engine
        if t is not None:
            return eng.make_symbolic(t, name, self.st)
        if isinstance(old, bool) or (is_sym(old) and z3.is_bool(old)):
            return z3.Bool(fresh_name(name))
        if isinstance(old, int) or (is_sym(old) and z3.is_int(old)):
            return z3.Int(fresh_name(name))
        if isinstance(old, float) or (is_sym(old) and z3.is_real(old)):
            return z3.Real(fresh_name(name))
        if old is None:
            from .engine import EngineError
            raise EngineError(f'loop-modified local {name}: type needed in LoopSpec.local_types')
        if isinstance(old, Opt):
            inner = self.havoc_local(name, old.val, spec)
            return Opt(z3.Bool(fresh_name(name + '_none')), inner)
        if isinstance(old, Opaque):
            return Opaque(fresh_name(name), kind=old.kind)
        if name in self.engine.assigned_names([self.node.target] if hasattr(self.node, 'target') else []):
            return Opaque(fresh_name(name))   # the loop target is assigned before it is used
        from .engine import EngineError
        raise EngineError(f'cannot havoc local {name} of type {type(old).__name__}')

    def havoc_field(self, ref, name, t):
        self.st.obj(ref).fields[name] = self.engine.make_symbolic(t, name, self.st)


class LoopSpec:
    def __init__(self, invariant, modifies_locals=None, local_types=None, havoc_heap=None, variant=None, outer_local_types=None, iteration_checks=None, symbolic_iteration=False):
        self.invariant = invariant
        self.modifies_locals = modifies_locals
        self.local_types = local_types or {}
        self._havoc_heap = havoc_heap
        self.variant = variant
        self.iterate_concrete_list_symbolically = symbolic_iteration
        self.iteration_checks = iteration_checks   # fn(ctx_before, ctx_after, events_of_iteration) -> dict name -> Bool
        self.outer_local_types = outer_local_types or {}   # consumer-frame locals (fused generator loops)

    def havoc_heap(self, ctx):
        if self._havoc_heap:
            self._havoc_heap(ctx)


class Contract:
    def __init__(self, target, props=(), params=None, self_type=None, requires=None, ensures=None,
                 raises=None, modifies=None, returns=None, effects=None, loops=None, inline=False,
                 raise_when=None, setup=None, twins=None, replay=None, top=False, note='',
                 checks=None, inline_callees=(), typed=False, param_alternatives=None, gen_loops=None,
                 old_at='entry', kwargs_type=None, monitor=False, events=True, raise_effects=None,
                 reach=True, optional=False, top_level=False, requires_held=()):
        self.target = target
        # requires_held: names of lock fields of `self` the CALLER holds (private helpers of a monitor): acquired before the
        # body at the root (not expected to be released by it), an obligation at every call site
        self.requires_held = tuple(requires_held)
        # top_level: an entry point that verified code never calls through this contract (task mains run by the
        # executor, public API).  No frame obligations are generated for it, and using it at a call site is an error.
        self.top_level = top_level
        self.optional = optional      # helper that may legitimately not exist: its contract is then dropped (recorded)
        self.props = tuple(props)
        self.params = params or {}
        self.self_type = self_type
        self.requires = requires or (lambda c: [])
        self.ensures = ensures or (lambda c: {})   # checked at the root, assumed at call sites
        self.inline_callees = tuple(inline_callees)
        self.typed = typed
        self.param_alternatives = param_alternatives
        self.gen_loops = gen_loops or {}
        self.checks = checks or (lambda c: {})     # checked at the root only (trace / top-level)
        self.raises = raises or {}        # exc class name -> fn(c) -> dict name->Bool (checked)
        self.raise_when = raise_when or {}  # exc class name -> fn(c) -> Bool assumed at call sites
        self.raise_effects = raise_effects or {}
        # modifies: fn(ctx) -> list of locations ('f', obj_ref, field) | ('m', obj_ref, meta_key) | ('g', ghost_key[, sub])
        # the function may change besides what `effects` sets: havocked at call sites on every exit, and the
        # root is checked to modify nothing else (frame)
        self.modifies = modifies
        self.returns = returns
        self.effects = effects
        self.loops = loops or {}
        self.inline = inline
        self.setup = setup            # fn(engine, st, args, self) -> None : extra initial assumptions
        self.twins = twins or (lambda c: {})  # must-fail twins: name -> formula that must be refutable
        self.replay = replay
        self.top = top
        self.note = note
        self.old_at = old_at
        self.kwargs_type = kwargs_type
        self.monitor = monitor
        self.events = events
        self.reach = reach


class Monitor:
    """Representation invariant of a lock-protected class (K2)."""

    def __init__(self, cls, lock, fields, invariant, guarantee=None, props=(), aliases=(), nested=None, on_acquire=None, on_release=None):
        self.cls = cls
        self.lock = lock            # field name of the lock ('_lock'); `aliases`: e.g. '_condition'
        self.fields = fields        # guarded field -> type (havocked at acquisition)
        self.invariant = invariant  # fn(view, ref) -> dict name->Bool
        self.guarantee = guarantee  # fn(old_view, new_view, ref) -> dict name->Bool (two-state)
        self.props = tuple(props)
        self.aliases = tuple(aliases)
        self.on_release = on_release  # fn(engine, st, owner, old_state): lemma instances before the invariant is asserted
        self.on_acquire = on_acquire  # fn(engine, st, owner): lemma instances to assume at acquisition
        self.nested = nested or {}   # owned sub-objects guarded by the same lock: field -> {field: type}


class Registry:
    def __init__(self):
        self.contracts = {}
        self.fields = {}      # class qualname -> dict field -> T
        self.valid = {}       # class qualname -> fn(view, ref) -> list[Bool]
        self.monitors = {}    # class qualname -> Monitor
        self.externals = {}   # kind -> dict method -> ExtSpec ; '*' default
        self.ext_values = {}  # dotted external name -> value
        self.builtin_models = {}  # dotted name -> fn(engine, st, args, kwargs, line) -> list[Res]
        self.inline = set()
        self.lemmas = []
        self.lock_levels = {}
        self.unattached_loops = []
        self.optional_targets = {}
        self.global_overrides = {}   # (module, name) -> value for module constants built by unmodelled library calls

    def contract(self, target, **kw):
        c = Contract(target, **kw)
        self.contracts[target] = c
        self.optional_targets[target] = c.optional
        return c

    def add_fields(self, cls, valid=None, **fields):
        self.fields.setdefault(cls, {}).update(fields)
        if valid is not None:
            self.valid[cls] = valid

    def monitor(self, cls, **kw):
        m = Monitor(cls, **kw)
        self.monitors.setdefault(cls, []).append(m)
        return m

    def external(self, kind, **methods):
        self.externals.setdefault(kind, {}).update(methods)

    def mark_inline(self, *targets):
        self.inline.update(targets)

    def loop_spec(self, finfo, node, root=None):
        if root is not None and root.gen_loops:
            loops = [n for n in ast.walk(finfo.node) if isinstance(n, (ast.For, ast.While))]
            loops.sort(key=lambda n: (n.lineno, n.col_offset))
            if node in loops and (finfo.qualname, loops.index(node)) in root.gen_loops:
                return root.gen_loops[(finfo.qualname, loops.index(node))]
        c = self.contracts.get(finfo.qualname)
        if c is None or not c.loops:
            return None
        loops = [n for n in ast.walk(finfo.node) if isinstance(n, (ast.For, ast.While))]
        loops.sort(key=lambda n: (n.lineno, n.col_offset))
        try:
            idx = loops.index(node)
        except ValueError:
            return None
        return c.loops.get(idx)

    def check_attached(self, repo):
        """Every contract / loop ordinal must attach to the current source."""
        problems = []
        for t, c in list(self.contracts.items()):
            fi = repo.func(t)
            if fi is None:
                if c.optional:
                    del self.contracts[t]
                    self.unattached_loops.append(f'optional helper {t} does not exist (its contract is unused)')
                    continue
                problems.append(f'contract target {t} does not exist')
                continue
            loops = [n for n in ast.walk(fi.node) if isinstance(n, (ast.For, ast.While))]
            for k in c.loops:
                if k >= len(loops) and not c.inline:
                    # the loop the invariant was written for is gone: the invariant is simply unused and the
                    # function is verified as it now stands (recorded, not fatal)
                    self.unattached_loops.append(f'loop ordinal {k} of {t} does not exist (its invariant is unused)')
        # (an inline mark for a method a class merely inherits is harmless: a call that resolves to a
        # function without contract and without inline mark makes the root out of reach anyway)
        for cl in list(self.fields) + list(self.monitors):
            if repo.cls(cl) is None:
                problems.append(f'class {cl} does not exist')
        return problems


class ExtSpec:
    """Contract of an external (assumed) method.
    returns: T | fn(engine, st, recv, args, kwargs) -> value
    raises: list of exception class names the call may raise (each forks one path)
    effect: fn(engine, st, recv, args, kwargs, result) -> None (applied on normal return)
    effect_on_raise: bool -- the external effect may have happened although the call raised
    event: record in trace
    pure: no event, no raise"""

    def __init__(self, returns=None, raises=('Exception',), effect=None, event=True, pure=False,
                 effect_on_raise=False, user_code=False, blocking=False, pre=None, on_raise=None):
        self.on_raise = on_raise      # fn(engine, st, recv, args, kwargs, exc): assumptions of the raising exit
        self.returns = returns
        self.raises = () if pure else tuple(raises)
        self.effect = effect
        self.event = event and not pure
        self.pure = pure
        self.effect_on_raise = effect_on_raise
        self.user_code = user_code
        self.blocking = blocking
        self.pre = pre
