"""Root verification of one function against its sidecar contract."""
import os

import z3

from .contracts import CallCtx, ObjT, View
from .engine import EngineError, ok, rs
from .state import State
from .values import ClassRef, ExcV, HObj, Opaque, Ref, fresh_name, is_sym


class VerifyMixin:
    frame_report = None
    racy_reads = None
    background = None
    ieee_checks = True

    def make_generator(self, finfo, self_val, args, kwargs, st, line):
        """Calling a generator function does not run it: a generator value is returned and the body is
        fused with the consuming for-loop (each `yield v` runs the loop body with the target bound to v)."""
        env = self.bind_params(finfo.node, self_val, args, kwargs, st, finfo)
        self.resolve_defaults(env, st, finfo.module)
        env['$mod'] = finfo.module
        env['$func'] = finfo
        if self_val is not None:
            env['$self'] = self_val
        self.tag_loops(finfo)
        self.inlined.add(finfo.qualname + ' (generator, fused with its consumer loop)')
        return [ok(('generator', finfo, env), st)]

    def exec_yield(self, node, st):
        """Inside a generator under root verification: a yield is an event carrying the value."""
        from .state import Event
        from .stmts import NORMAL
        if not isinstance(node, __import__('ast').Yield):
            raise EngineError('yield from')
        if node.value is None:
            vals = [ok(None, st)]
        else:
            vals = self.eval(node.value, st)
        out = []
        for r in vals:
            if r.kind == 'raise':
                out.append((('raise', r.val), r.st))
                continue
            s1 = r.st
            s1.trace.append(Event('yield', 'yield', args=(r.val,), line=node.lineno, held=s1.held,
                                  extra={'env': dict(s1.env)}))
            fused = s1.env.get('$yield_to')
            if fused is None:
                out.append((NORMAL, s1))
                continue
            # switch to the consumer frame: run `target = value; loop body`
            s1.env, s1.stack[-1] = s1.stack[-1], s1.env
            for o, s2 in self.assign(fused.target, r.val, s1):
                res = [(o, s2)] if o[0] != 'normal' else self.exec_block(fused.body, s2)
                for bo, s3 in res:
                    s3.env, s3.stack[-1] = s3.stack[-1], s3.env   # back to the generator frame
                    if bo[0] in ('normal', 'continue'):
                        out.append((NORMAL, s3))
                    elif bo[0] == 'raise':
                        out.append((('raise_consumer', bo[1]), s3))
                    elif bo[0] == 'return':
                        # the consumer returns from inside the loop: the generator is abandoned at this yield (its enclosing
                        # `finally` blocks run on the way out, as on generator close)
                        out.append((('return_consumer', bo[1]), s3))
                    elif bo[0] == 'break':
                        out.append((('break_consumer', None), s3))
                    else:
                        raise EngineError('unexpected outcome inside a loop over a fused generator')
        return out

    def verify_contract(self, c):
        """All obligations for contract c (once per combination of parameter-type alternatives)."""
        alts = getattr(c, 'param_alternatives', None)
        if not alts:
            return self._verify_contract(c, '')
        import itertools
        names = sorted(alts)
        res = None
        for combo in itertools.product(*[alts[n] for n in names]):
            saved = dict(c.params)
            saved_self = c.self_type
            label = ','.join(lbl for lbl, _ in combo)
            for n, (lbl, t) in zip(names, combo):
                if n == 'self':
                    c.self_type = t
                else:
                    c.params[n] = t
            try:
                r = self._verify_contract(c, f'[{label}]')
            finally:
                c.params = saved
                c.self_type = saved_self
            if res is None:
                res = r
            else:
                res['paths'] += r['paths']
                res['normal_paths'] += r['normal_paths']
                res['obligations'] += r['obligations']
        return res

    def unreached_lines(self, finfo, executed):
        import ast as _ast
        dead = []

        def walk(stmts):
            for s in stmts:
                if isinstance(s, (_ast.FunctionDef, _ast.AsyncFunctionDef, _ast.ClassDef)):
                    if id(s) not in executed:
                        dead.append(s.lineno)
                    continue
                if isinstance(s, _ast.Expr) and isinstance(s.value, _ast.Constant) and isinstance(s.value.value, str):
                    continue
                if id(s) not in executed:
                    dead.append(s.lineno)
                    continue
                for fld in ('body', 'orelse', 'finalbody'):
                    walk(getattr(s, fld, []) or [])
                for h in getattr(s, 'handlers', []) or []:
                    walk(h.body)
        walk(finfo.node.body)
        return dead

    def dead_handler_lines(self, finfo, executed):
        """`except` clauses of an executed try statement whose body no feasible path entered."""
        import ast as _ast
        out = []
        for n in _ast.walk(finfo.node):
            if isinstance(n, _ast.Try) and id(n) in executed:
                for h in n.handlers:
                    if h.body and id(h.body[0]) not in executed:
                        out.append(h.lineno)
        return sorted(set(out))

    def guarded_keys(self, st):
        """fields under a monitor of a shared object: every acquisition havocs them, callers never rely on them"""
        out = set()
        for oid in st.shared:
            h = st.heap.get(oid)
            if h is None or h.kind != 'obj':
                continue
            mons = [m for ci in self.repo.mro(h.cls) for m in self.registry.monitors.get(ci.qualname, ())]
            for mon in mons:
                for f in mon.fields:
                    out.add(('f', oid, f))
                for nfield, nfields in mon.nested.items():
                    nv = h.fields.get(nfield)
                    if isinstance(nv, Ref):
                        for f in nfields:
                            out.add(('f', nv.oid, f))
                        out.add(('*', nv.oid))
        return out

    def declared_frame(self, c, finfo, args, self_val, pre, exc_key=None):
        s = pre.fork()
        before = self.heap_snapshot(s)
        ctx = CallCtx(self, finfo, args, self_val, pre.fork(), s, None, None, 0)
        if exc_key is None:
            if c.effects is not None:
                c.effects(ctx, s)
        else:
            eff = c.raise_effects.get(exc_key)
            if eff is not None:
                eff(ctx, s, ExcV(exc_key, ()))
        after = self.heap_snapshot(s)
        declared = {k for k in after if k not in before or not self.same_value_identity(before[k], after[k])}
        declared |= set(self.modifies_keys(c, ctx, s))
        if finfo.name == '__init__' and isinstance(self_val, Ref):
            declared |= {k for k in after if k[0] == 'f' and k[1] == self_val.oid}    # a constructor initialises its object
        return declared

    def root_frame_obligations(self, c, finfo, args, self_val, pre, terminals):
        pre_snap = self.heap_snapshot(pre)
        guarded = self.guarded_keys(pre)
        decl_cache = {}
        for o, s1 in terminals:
            if o[0] in ('normal', 'return'):
                key = None
            elif o[0] == 'raise':
                key = None
                for k in c.raises:
                    if k == o[1].cls or (o[1].cls != '$stored' and k != '$stored' and self.exc_is_subclass(o[1].cls, k)):
                        key = k
                        break
                key = key or o[1].cls
            else:
                continue
            if key not in decl_cache:
                try:
                    decl_cache[key] = self.declared_frame(c, finfo, args, self_val, pre, key)
                except EngineError:
                    raise
                except Exception as e:
                    raise EngineError(f'effects of {c.target} cannot be evaluated for the frame check: {type(e).__name__}: {e}')
            declared = decl_cache[key]
            post = self.heap_snapshot(s1)
            for k, pv in pre_snap.items():
                if k not in post or k in declared or k in guarded or ('*', k[1]) in guarded:
                    continue
                nv = post[k]
                if self.same_value_identity(pv, nv):
                    continue
                goal = False
                if is_sym(pv) and is_sym(nv) and pv.sort() == nv.sort():
                    if not self.feasible(s1, nv != pv):
                        continue
                    goal = (nv == pv)
                self.oblige(s1, 'frame.' + self.frame_label(pre, k) + ('' if key is None else f'.on_{key.split(":")[-1]}'), goal, kind='frame',
                            line=finfo.lineno, note='modified but not declared by the contract (effects): callers would reason with the stale value')

    def frame_label(self, st, k):
        if k[0] == 'g':
            return 'ghost.' + '.'.join(str(x) if not isinstance(x, tuple) else '_'.join(str(y) for y in x) for x in k[1:])
        h = st.heap.get(k[1])
        cn = h.cls.name if h is not None and h.cls is not None else (h.kind if h is not None else 'obj')
        return f'{cn}.{k[2]}' if len(k) > 2 else f'{cn}.items'

    def _verify_contract(self, c, suffix):
        finfo = self.repo.func(c.target)
        if finfo is None:
            raise EngineError(f'contract target {c.target} does not exist')
        self.cur_root = c.target.split(':', 1)[1] if c.target.startswith('s3transfer.') else c.target
        self.cur_root = c.target.replace('s3transfer.', '').replace(':', '.') if not c.target.startswith('s3transfer:') else c.target.replace('s3transfer:', 'legacy.')
        self.cur_root += suffix
        self.cur_props = c.props
        if getattr(c, 'real_arithmetic', False):
            self.ieee_checks = False      # A-REAL for this root (floats as reals, stated in the contract's assumptions)
        self.cur_root_target_inline = c.target
        self.cur_inline_callees = c.inline_callees
        n0 = len(self.obligations)
        self.bounded_unknown_loops = set()
        self.executed_nodes = set()
        st = State()
        for bg in (self.background or ()):
            st.assume(bg)
        self_val = None
        a = finfo.node.args
        names = [x.arg for x in a.posonlyargs + a.args]
        env = {}
        if finfo.cls is not None and not finfo.is_staticmethod:
            if finfo.is_classmethod:
                self_val = ClassRef(finfo.cls)
            else:
                t = c.self_type or ObjT(finfo.cls.qualname)
                self_val = self.make_symbolic(t, 'self', st)
            env[names[0]] = self_val
            names = names[1:]
        defaults = [None] * (len(names) - len(a.defaults)) + list(a.defaults) if len(a.defaults) <= len(names) else list(a.defaults)[-len(names):]
        for n, d in zip(names, defaults):
            if n in c.params:
                env[n] = self.make_symbolic(c.params[n], n, st)
            elif d is not None:
                env[n] = ('$default', d)
            else:
                raise EngineError(f'contract for {c.target} gives no type for parameter {n}')
        for k, d in zip(a.kwonlyargs, a.kw_defaults):
            if k.arg in c.params:
                env[k.arg] = self.make_symbolic(c.params[k.arg], k.arg, st)
            elif d is not None:
                env[k.arg] = ('$default', d)
            else:
                raise EngineError(f'no type for kw-only parameter {k.arg}')
        if a.vararg is not None:
            env[a.vararg.arg] = self.make_symbolic(c.params[a.vararg.arg], a.vararg.arg, st) if a.vararg.arg in c.params else ()
        if a.kwarg is not None:
            if c.kwargs_type is not None:
                env[a.kwarg.arg] = self.make_symbolic(c.kwargs_type, a.kwarg.arg, st)
            else:
                env[a.kwarg.arg] = st.alloc(HObj('dict', items={}))
        self.resolve_defaults(env, st, finfo.module)
        env['$mod'] = finfo.module
        env['$func'] = finfo
        if self_val is not None:
            env['$self'] = self_val
        args = {k: v for k, v in env.items() if not k.startswith('$')}
        if c.setup is not None:
            c.setup(self, st, args, self_val)
        pre0 = st.fork()
        ctx0 = CallCtx(self, finfo, args, self_val, pre0)
        for f in c.requires(ctx0):
            fm = f[1] if isinstance(f, tuple) else f
            st.assume(fm)
        # vacuity guard: the precondition must be satisfiable
        self.oblige(st, 'vacuity.requires_sat', True, kind='cover', expect='sat')
        entry_held = []
        for lname in getattr(c, 'requires_held', ()):
            lref = st.obj(self_val).fields[lname]
            self.lock_acquire(lref, st, finfo.lineno)
            entry_held.append(self.lock_of(lref, st).oid)
        pre = st.fork()
        self.tag_loops(finfo)
        st.env = env
        terminals = []
        for o, s1 in self.exec_block(finfo.node.body, st):
            terminals.append((o, s1))
        self.paths += len(terminals)
        n_normal = 0
        for pi, (o, s1) in enumerate(terminals):
            self.oblige(s1, f'vacuity.path_feasible.{pi}', True, kind='cover-path', expect='sat')
        for o, s1 in terminals:
            old = s1.ghost.get('old_snapshot') if c.old_at == 'acquire' else None
            if old is None and c.old_at == 'acquire' and self_val is not None and isinstance(self_val, Ref):
                old = s1.ghost.get(('mon_old', self_val.oid))
            if o[0] in ('normal', 'return'):
                n_normal += 1
                res = o[1] if o[0] == 'return' else None
                ctx = CallCtx(self, finfo, args, self_val, old or pre, s1, res, None, 0)
                if [l for l in s1.held if l not in entry_held]:
                    self.oblige(s1, 'lock.released_at_exit', False, kind='lock',
                                note='returns while still holding ' + ','.join(self.lock_label(s1, l) for l in s1.held if l not in entry_held))
                if any(l not in s1.held for l in entry_held):
                    self.oblige(s1, 'lock.callers_lock_still_held_at_exit', False, kind='lock', note='releases a lock its caller holds')
                for nm, f in list(c.ensures(ctx).items()) + list(c.checks(ctx).items()):
                    self.oblige(s1, f'post.{nm}', f, kind='post', line=finfo.lineno)
            elif o[0] == 'raise':
                exc = o[1]
                ctx = CallCtx(self, finfo, args, self_val, old or pre, s1, None, exc, 0)
                handler = None
                for key, fn in c.raises.items():
                    if key == exc.cls or (exc.cls != '$stored' and key != '$stored' and self.exc_is_subclass(exc.cls, key)):
                        handler = (key, fn)
                        break
                if [l for l in s1.held if l not in entry_held]:
                    self.oblige(s1, 'lock.released_at_raise', False, kind='lock',
                                note='raises while still holding ' + ','.join(self.lock_label(s1, l) for l in s1.held if l not in entry_held))
                if handler is None:
                    self.oblige(s1, f'raises.unexpected.{exc.cls}', False, kind='post', line=finfo.lineno,
                                note=f'path raises {exc.cls} which the contract does not allow')
                else:
                    for nm, f in handler[1](ctx).items():
                        self.oblige(s1, f'raises.{handler[0]}.{nm}', f, kind='post', line=finfo.lineno)
            else:
                raise EngineError('break/continue at function level')
        # frame: what the function modifies (of the objects that existed at entry, and of the ghost state) must be
        # declared by the contract's effects -- callers are checked against the contract only, so an undeclared
        # modification would let them reason with stale values
        if not c.top_level and not c.inline and os.environ.get('PYVC_NO_FRAME') != '1':
            nf = len(self.obligations)
            self.root_frame_obligations(c, finfo, args, self_val, pre, terminals)
            self.frame_report.setdefault('checked', {})[c.target + suffix] = len(self.obligations) - nf
        elif c.top_level:
            self.frame_report.setdefault('top_level_not_checked', []).append(c.target + suffix)
        # must-fail twins: wrong variants of postconditions have to be refutable on some path
        twin_goals = {}
        for o, s1 in terminals:
            if o[0] in ('normal', 'return'):
                res = o[1] if o[0] == 'return' else None
                ctx = CallCtx(self, finfo, args, self_val, pre, s1, res, None, 0)
                for nm, f in c.twins(ctx).items():
                    twin_goals.setdefault(nm, []).append((s1, f))
        for nm, lst in twin_goals.items():
            # the twin must fail on at least one path: exists path: pc /\ not f is sat
            disj = []
            for s1, f in lst:
                disj.append(z3.And(list(s1.pc) + [z3.Not(f) if not isinstance(f, bool) else z3.BoolVal(not f)]))
            tmp = State()
            self.oblige(tmp, f'vacuity.twin_must_fail.{nm}', z3.Or(disj), kind='twin', expect='sat')
        self.cur_root_target_inline = None
        self.cur_inline_callees = ()
        # statements of the root that no feasible path reached: dead under the contract's preconditions / callee contracts.
        # Reported (evidence + DEAD-UNDER-CONTRACT lines), since an over-strong precondition makes clauses about them vacuous.
        dead = self.unreached_lines(finfo, self.executed_nodes)
        self.dead_handlers.setdefault(c.target, []).append(set(self.dead_handler_lines(finfo, self.executed_nodes)))
        rep = self.dead_under_contract.setdefault('$paths', {})
        if n_normal == 0:
            rep.setdefault('roots_without_a_normal_return', []).append(c.target + suffix)
        raised = {o[1].cls for o, _ in terminals if o[0] == 'raise'}
        unused = [k for k in c.raises if not any(k == r or (r != '$stored' and k != '$stored' and self.exc_is_subclass(r, k)) for r in raised)]
        if unused:
            rep.setdefault('allowed_exceptions_no_path_raises', {})[c.target + suffix] = sorted(unused)
        if dead:
            self.dead_under_contract.setdefault(c.target, {})[suffix or '-'] = sorted(set(dead))
        elif suffix:
            self.dead_under_contract.setdefault(c.target, {})[suffix] = []
        if self.bounded_unknown_loops:
            # nothing is proved about this root: its failures stand (real paths), its passes do not count
            lines = sorted(self.bounded_unknown_loops)
            self.bounded_unknown_loops = set()
            raise EngineError(f'loop(s) without a loop contract at line(s) {lines}: explored for at most {self.UNKNOWN_LOOP_BOUND} iterations '
                              '(bounded): failures on the explored paths are reported, nothing is proved')
        return {'function': c.target, 'paths': len(terminals), 'normal_paths': n_normal,
                'obligations': len(self.obligations) - n0, 'lines': (finfo.lineno, finfo.end_lineno),
                'module_sha256': finfo.module.sha256}
