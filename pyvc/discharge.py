"""Discharge obligations in a process pool: z3 (python wheel) first, cvc5 binary for unknowns."""
import os
import subprocess
import tempfile
import time
from concurrent.futures import ProcessPoolExecutor

CVC5 = '/usr/bin/cvc5'


def _symbols(e, z3, cache):
    """uninterpreted constants / functions occurring in e"""
    out = set()
    todo = [e]
    seen = set()
    while todo:
        x = todo.pop()
        k = x.get_id()
        if k in seen:
            continue
        seen.add(k)
        if z3.is_quantifier(x):
            todo.append(x.body())
        elif z3.is_app(x):
            d = x.decl()
            if d.kind() == z3.Z3_OP_UNINTERPRETED:
                out.add(d.name())
            todo.extend(x.children())
    return out


def _coi_slice(smt2, timeout_s, expect_unsat=True):
    """Cone-of-influence fallback for `unknown`: the assertions are split into the connected component (shared
    uninterpreted symbols) of the last assertion (the negated goal) and the rest.  slice unsat => the whole query is
    unsat.  slice sat and the rest not refutable (it shares no symbol with the slice, so the union is satisfiable iff
    both are) => sat, with the model of the slice.  -> (verdict, model, raw) or None when nothing was dropped."""
    import z3
    ctx = z3.Context()
    asserts = list(z3.parse_smt2_string(smt2, ctx=ctx))
    if len(asserts) < 2:
        return None
    syms = [_symbols(a, z3, None) for a in asserts]
    cone = set(syms[-1])
    inside = {len(asserts) - 1}
    changed = True
    while changed:
        changed = False
        for i, sy in enumerate(syms):
            if i not in inside and sy & cone:
                inside.add(i)
                cone |= sy
                changed = True
    if len(inside) == len(asserts):
        return None
    s = z3.Solver(ctx=ctx)
    s.set('timeout', int(timeout_s * 1000))
    for i in sorted(inside):
        s.add(asserts[i])
    r = s.check()
    if r == z3.unsat:
        return 'unsat', None, f'coi-slice unsat ({len(inside)}/{len(asserts)} assertions)'
    if r != z3.sat:
        return None
    m = s.model()
    model = {str(d.name()): str(m[d]) for d in m.decls() if d.arity() == 0}
    s2 = z3.Solver(ctx=ctx)
    s2.set('timeout', int(min(timeout_s, 4) * 1000))
    for i in range(len(asserts)):
        if i not in inside:
            s2.add(asserts[i])
    r2 = s2.check()
    if r2 == z3.unsat:
        return 'unsat', None, 'coi-slice: the dropped assumptions are contradictory (dead path)'
    return 'sat', (model, str(m)[:4000]), f'coi-slice sat ({len(inside)}/{len(asserts)} assertions; rest {r2})'


def _run_one(job):
    oid, smt2, timeout_s, want_model, model_vars = job
    smoke = timeout_s <= 4 and ('(forall' in smt2 or '(exists' in smt2)
    import z3
    t0 = time.time()
    res = {'id': oid, 'verdict': 'unknown', 'backend': 'z3', 'model': None, 'raw': ''}
    try:
        # fresh context per query (term numbering of earlier queries in the same worker must not
        # influence heuristics); on `unknown` retry with other random seeds before giving up
        for attempt, seed in enumerate((0,) if smoke else (0, 7, 23)):
            ctx = z3.Context()
            s = z3.Solver(ctx=ctx)
            s.set('timeout', int(timeout_s * 1000 / (1 if attempt == 0 else 2)))
            if seed:
                s.set('random_seed', seed)
            s.from_string(smt2)
            r = s.check()
            res['verdict'] = str(r)
            if r == z3.sat:
                m = s.model()
                res['model'] = {str(d.name()): str(m[d]) for d in m.decls() if d.arity() == 0}
                res['raw'] = str(m)[:4000]
            elif r == z3.unknown:
                res['raw'] = s.reason_unknown() + f' (seed {seed})'
                continue
            break
    except Exception as e:  # parse errors etc. are checker crashes, reported as such
        res['verdict'] = 'error'
        res['raw'] = f'{type(e).__name__}: {str(e)[:300]}'
    res['time_s'] = time.time() - t0
    if res['verdict'] == 'unknown' and not smoke and ('(forall' in smt2 or '(exists' in smt2):
        try:
            t1 = time.time()
            sl = _coi_slice(smt2, timeout_s)
            res['time_s'] += time.time() - t1
            if sl is not None:
                res['verdict'], res['backend'] = sl[0], 'z3-coi'
                res['raw'] += ' | ' + sl[2]
                if sl[1] is not None:
                    res['model'], raw_model = sl[1]
                    res['raw'] = raw_model + ' | ' + res['raw']
        except Exception as e:
            res['raw'] += f' | coi-slice failed: {type(e).__name__}: {str(e)[:200]}'
    if res['verdict'] == 'unknown' and smoke:
        res['backend'] = 'z3-smoke(not-refuted)'
    elif res['verdict'] == 'unknown' and os.path.exists(CVC5):
        t1 = time.time()
        with tempfile.NamedTemporaryFile('w', suffix='.smt2', delete=False, dir=os.environ.get('PYVC_TMP', None)) as f:
            f.write('(set-logic ALL)\n' + smt2)
            fn = f.name
        try:
            p = subprocess.run([CVC5, '--strings-exp', '--produce-models', '--dump-models', f'--tlimit={int(timeout_s * 1000)}', fn],
                               capture_output=True, text=True, timeout=timeout_s + 5)
            out = p.stdout.strip().splitlines()
            if out and out[0] in ('sat', 'unsat'):
                res['verdict'] = out[0]
                res['backend'] = 'cvc5'
                if out[0] == 'sat':
                    import re
                    mdl = {}
                    for mm in re.finditer(r'\(define-fun (\S+) \(\) \S+ (.*)\)\s*$', p.stdout, re.M):
                        v = mm.group(2).strip()
                        neg = re.fullmatch(r'\(- (\d+)\)', v)
                        mdl[mm.group(1).strip('|')] = ('-' + neg.group(1)) if neg else {'true': 'True', 'false': 'False'}.get(v, v)
                    if mdl:
                        res['model'] = mdl
                        res['raw'] = '\n'.join(out[1:])[:4000] + ' | ' + res['raw']
            res['raw'] += ' | cvc5: ' + (out[0] if out else p.stderr[:200])
        except subprocess.TimeoutExpired:
            res['raw'] += ' | cvc5: timeout'
        finally:
            os.unlink(fn)
        res['time_s'] += time.time() - t1
    return res


def discharge(obligations, timeout_s=10, workers=None, cross_check=False):
    """Fills verdict/backend/time/model of each obligation. verdict: 'unsat'|'sat'|'unknown'|'error'."""
    workers = workers or min(16, os.cpu_count() or 4)
    jobs = []
    trivial = 0
    import z3
    for o in obligations:
        # cheap syntactic discharge
        g = z3.simplify(o.goal) if not isinstance(o.goal, bool) else z3.BoolVal(o.goal)
        if o.expect == 'unsat' and z3.is_true(g):
            o.verdict, o.backend, o.time_s = 'unsat', 'simplifier', 0.0
            trivial += 1
            continue
        smt = o.smt2()
        o.quantified = ('(forall' in smt or '(exists' in smt)
        jobs.append((o.id, smt, (min(timeout_s, 4) if (o.expect == 'sat' and o.quantified) else timeout_s), True, o.model_vars))
    by_id = {}
    for o in obligations:
        by_id.setdefault(o.id, o)
    if jobs:
        if workers == 1 or len(jobs) < 4:
            results = [_run_one(j) for j in jobs]
        else:
            with ProcessPoolExecutor(max_workers=workers) as ex:
                results = list(ex.map(_run_one, jobs, chunksize=max(1, len(jobs) // (workers * 4))))
        for r in results:
            o = by_id[r['id']]
            o.verdict, o.backend, o.time_s, o.model, o.raw = r['verdict'], r['backend'], r['time_s'], r['model'], r['raw']
    return trivial


def status(o):
    """-> 'discharged' | 'failed' | 'undecided' | 'error'."""
    if o.verdict == 'error':
        return 'error'
    if o.verdict == 'unknown' and o.expect == 'sat' and o.quantified:
        # vacuity guards over quantified path conditions are smoke tests (as in Boogie/Dafny): the
        # solver must fail to refute them; a model is not required
        return 'discharged'
    if o.verdict == 'unknown' or o.verdict is None:
        return 'undecided'
    if o.expect == 'unsat':
        return 'discharged' if o.verdict == 'unsat' else 'failed'
    return 'discharged' if o.verdict == 'sat' else 'failed'


def _cvc5_one(job):
    oid, smt2, timeout_s = job
    with tempfile.NamedTemporaryFile('w', suffix='.smt2', delete=False, dir=os.environ.get('PYVC_TMP', None)) as f:
        f.write('(set-logic ALL)\n' + smt2)
        fn = f.name
    try:
        p = subprocess.run([CVC5, '--strings-exp', f'--tlimit={int(timeout_s * 1000)}', fn], capture_output=True, text=True, timeout=timeout_s + 5)
        out = p.stdout.strip().splitlines()
        return oid, (out[0] if out and out[0] in ('sat', 'unsat', 'unknown') else 'unknown')
    except subprocess.TimeoutExpired:
        return oid, 'unknown'
    finally:
        os.unlink(fn)


def cross_check_cvc5(obligations, sample=400, timeout_s=20, seed=0, workers=None):
    """Second opinion (thorough tier): a sample of the obligations z3 discharged as unsat is re-run with cvc5.
    -> {'checked', 'agree', 'cvc5_unknown', 'disagree': [ids]}; a disagreement is a checker error."""
    import random
    if not os.path.exists(CVC5):
        return {'checked': 0, 'note': 'cvc5 not available'}
    cands = [o for o in obligations if o.expect == 'unsat' and o.verdict == 'unsat' and (o.backend or '').startswith('z3') and not o.quantified]
    random.Random(seed).shuffle(cands)
    cands = cands[:sample]
    jobs = [(o.id, o.smt2(), timeout_s) for o in cands]
    res = {'checked': len(jobs), 'agree': 0, 'cvc5_unknown': 0, 'disagree': []}
    if not jobs:
        return res
    with ProcessPoolExecutor(max_workers=workers or min(16, os.cpu_count() or 4)) as ex:
        for oid, v in ex.map(_cvc5_one, jobs, chunksize=4):
            if v == 'unsat':
                res['agree'] += 1
            elif v == 'sat':
                res['disagree'].append(oid)
            else:
                res['cvc5_unknown'] += 1
    return res
