"""Builtin function models, methods of builtin containers, external (assumed) interfaces,
context managers and locks, contract application at call sites."""
import ast

import z3

from .contracts import (
    Any, Bool, CallCtx, ExtSpec, ExtT, Int, ListOfT, OptT, Real, Str, View,
)
from .engine import EngineError, Res, ok, rs
from .repo import ClassInfo
from .state import Event
from .stmts import NORMAL
from .values import (
    BoundMethod, Builtin, BytesV, ClassRef, Closure, ExcV, ExtClassRef, ExtMethod, FStr, FuncRef,
    HObj, ModuleRef, Opaque, Opt, PartialV, Ref, U, fresh_name, is_bool_like, is_int_like,
    is_real_like, is_sym, to_int_term, to_real, to_z3_bool,
)


def zmin(a, b):
    if not is_sym(a) and not is_sym(b):
        return min(a, b)
    if is_real_like(a) or is_real_like(b):
        a, b = to_real(a), to_real(b)
    else:
        a, b = to_int_term(a), to_int_term(b)
    return z3.If(a <= b, a, b)


def zmax(a, b):
    if not is_sym(a) and not is_sym(b):
        return max(a, b)
    if is_real_like(a) or is_real_like(b):
        a, b = to_real(a), to_real(b)
    else:
        a, b = to_int_term(a), to_int_term(b)
    return z3.If(a >= b, a, b)


FUTURE_FAILED = z3.Function('future_failed', U, z3.BoolSort())


class ModelMixin:
    # ------------------------------------------------------------------ builtin functions
    def call_builtin(self, name, args, kwargs, st, line):
        if self.registry and name in self.registry.builtin_models:
            self.used_builtins.add(name)
            return self.registry.builtin_models[name](self, st, args, kwargs, line)
        m = getattr(self, 'bi_' + name.replace('.', '_'), None)
        if m is None:
            raise EngineError(f'builtin {name} not modelled (line {line})')
        self.used_builtins.add(name)
        return m(args, kwargs, st, line)

    def bi_sys_exc_info(self, args, kwargs, st, line):
        # (type, value, traceback) of the exception being handled; the type and traceback are opaque
        cur = st.env.get('$handling')
        if cur is None:
            return [ok((None, None, None), st)]
        return [ok((Opaque(fresh_name('exc_type'), kind='excclass'), cur, Opaque(fresh_name('traceback'), kind='traceback')), st)]

    def bi_object(self, args, kwargs, st, line):
        # `object()`: a value with an identity of its own (sentinels): one uninterpreted constant per call site, so that a
        # module-level `SENTINEL = object()` denotes the same value wherever it is referenced
        return [ok(Opaque(f'object_created_at_line_{line}', kind='object'), st)]

    def bi_len(self, args, kwargs, st, line):
        v = self.unwrap_opt(args[0], st, 'len', line)
        if isinstance(v, (str, bytes, tuple)):
            if isinstance(v, tuple) and len(v) == 2 and (isinstance(v[0], str) and v[0] == 'frozenlist'):
                return [ok(len(v[1]), st)]
            return [ok(len(v), st)]
        if isinstance(v, BytesV):
            return [ok(z3.simplify(to_int_term(v.hi) - to_int_term(v.lo)) if (is_sym(v.hi) or is_sym(v.lo)) else v.hi - v.lo, st)]
        if is_sym(v) and z3.is_string(v):
            return [ok(z3.Length(v), st)]
        if isinstance(v, Ref):
            h = st.obj(v)
            if h.kind in ('list', 'dict', 'set', 'tuple'):
                return [ok(len(h.items), st)]
            if h.kind == 'slist':
                return [ok(h.meta['len'], st)]
            if h.kind == 'obj':
                fi = self.repo.find_method(h.cls, '__len__')
                if fi is not None:
                    return self.call_repo_function(fi, v, [], {}, st, line)
        if isinstance(v, tuple) and v and (isinstance(v[0], str) and v[0] == 'mapslot'):
            return [ok(self.list_as_array(v, st)[1], st)]
        raise EngineError(f'len of {type(v).__name__} at line {line}')

    def _minmax(self, fn, args, st, line):
        if len(args) == 1:
            seq = self.concrete_iterable(args[0], st)
            if seq is None:
                raise EngineError('min/max of symbolic sequence')
            args = seq
        vals = [self.unwrap_opt(a, st, 'minmax', line) for a in args]
        r = vals[0]
        for v in vals[1:]:
            r = fn(r, v)
        return [ok(r, st)]

    def bi_min(self, args, kwargs, st, line):
        return self._minmax(zmin, args, st, line)

    def bi_max(self, args, kwargs, st, line):
        return self._minmax(zmax, args, st, line)

    def bi_abs(self, args, kwargs, st, line):
        v = args[0]
        return [ok(abs(v) if not is_sym(v) else z3.If(v >= 0, v, -v), st)]

    def bi_int(self, args, kwargs, st, line):
        v = self.unwrap_opt(args[0], st, 'int', line)
        if isinstance(v, (int, float)) and not is_sym(v):
            return [ok(int(v), st)]
        if is_sym(v) and z3.is_int(v):
            return [ok(v, st)]
        if is_sym(v) and z3.is_real(v):
            # truncation toward zero
            return [ok(z3.If(v >= 0, z3.ToInt(v), -z3.ToInt(-v)), st)]
        if is_sym(v) and z3.is_bool(v):
            return [ok(z3.If(v, 1, 0), st)]
        raise EngineError(f'int() of {type(v).__name__} at line {line}')

    def bi_float(self, args, kwargs, st, line):
        v = self.unwrap_opt(args[0], st, 'float', line)
        if isinstance(v, str):
            if v in ('inf', '+inf', '-inf', 'nan'):
                return [ok(('$inf', v), st)]
            return [ok(float(v), st)]
        if isinstance(v, (int, float)) and not is_sym(v):
            # keep integers exact: A-REAL
            return [ok(to_real(v), st)] if isinstance(v, int) else [ok(v, st)]
        if is_sym(v) and z3.is_int(v) and self.ieee_checks:
            # A-IEEE: int -> double conversion is exact below 2**53
            self.oblige(st, f'ieee.float_exact@{line}', z3.And(v > -2**53, v < 2**53), kind='safety', line=line)
        return [ok(to_real(v), st)]

    def bi_bool(self, args, kwargs, st, line):
        return [ok(self.truthy(args[0], st), st)]

    def bi_math_ceil(self, args, kwargs, st, line):
        v = args[0]
        if not is_sym(v):
            import math
            return [ok(math.ceil(v), st)]
        if z3.is_int(v):
            return [ok(v, st)]
        return [ok(-z3.ToInt(-v), st)]

    def bi_math_floor(self, args, kwargs, st, line):
        v = args[0]
        if not is_sym(v):
            import math
            return [ok(math.floor(v), st)]
        return [ok(z3.ToInt(v) if z3.is_real(v) else v, st)]

    def bi_str(self, args, kwargs, st, line):
        if not args:
            return [ok('', st)]
        v = args[0]
        if isinstance(v, ExcV):
            return [ok(self.exc_str(v, st), st)]
        if isinstance(v, Opt):
            v = self.unwrap_opt(v, st, 'str', line)
        p = self.fmt_value(v, st, line)
        return [ok(self.mk_fstr([p]) if not isinstance(p, Opaque) else p, st)]

    def exc_str(self, e, st):
        if len(e.args) == 1:
            a = e.args[0]
            if isinstance(a, (str, FStr, Opaque)) or (is_sym(a) and z3.is_string(a)):
                return a
        if len(e.args) == 0 and e.cls != '$any':
            return ''
        return Opaque(fresh_name('excstr'), kind='str')

    def bi_repr(self, args, kwargs, st, line):
        v = args[0]
        if isinstance(v, Opt):
            v = v.val
        if isinstance(v, Opaque):
            f = z3.Function('repr_of', U, U)
            return [ok(Opaque(f(v.term), kind='str', label=f'repr({v.label})'), st)]
        return [ok(Opaque(fresh_name('repr'), kind='str'), st)]

    def bi_isinstance(self, args, kwargs, st, line):
        v, t = args
        return [ok(self.isinstance_value(v, t, st, line), st)]

    def isinstance_value(self, v, t, st, line):
        if isinstance(t, tuple):
            rs_ = [self.isinstance_value(v, x, st, line) for x in t]
            if all(isinstance(r, bool) for r in rs_):
                return any(rs_)
            return z3.Or([to_z3_bool(r) for r in rs_])
        if isinstance(v, Opt):
            inner = self.isinstance_value(v.val, t, st, line)
            return z3.And(z3.Not(v.is_none), to_z3_bool(inner))
        if isinstance(t, Builtin):
            tn = t.name
            if tn == 'list':
                return isinstance(v, Ref) and st.obj(v).kind in ('list', 'slist')
            if tn == 'dict':
                return isinstance(v, Ref) and st.obj(v).kind in ('dict', 'smap', 'symdict')
            if tn == 'str':
                if isinstance(v, Opaque) and v.kind in ('fileobj_or_name',):
                    return self.opaque_pred(v, 'is_str')
                return isinstance(v, (str, FStr)) or (is_sym(v) and z3.is_string(v)) or (isinstance(v, Opaque) and v.kind == 'str')
            if tn == 'int':
                return is_int_like(v)
            if tn == 'bytes':
                return isinstance(v, (bytes, BytesV))
            if '.' in tn:
                # a class of a dependency (not an exception class): an object of a repository class is an instance of
                # it only if the repository class derives from it
                if isinstance(v, Ref) and st.obj(v).kind == 'obj' and isinstance(st.obj(v).cls, ClassInfo):
                    return any(tn.split('.')[-1] == str(b).split('.')[-1] for ci in self.repo.mro(st.obj(v).cls)
                               for b in self.repo.external_bases(ci) if isinstance(b, str))
                if isinstance(v, Opaque):
                    spec = self.ext_spec(v.kind, 'isinstance:' + tn.split('.')[-1])
                    if spec is not None:
                        return bool(spec.returns)
                    return self.opaque_pred(v, 'isinstance_' + tn.replace('.', '_'))
                if v is None or isinstance(v, (str, int, bytes)) or is_sym(v):
                    return False
            raise EngineError(f'isinstance(_, {tn})')
        if isinstance(t, ExtClassRef):
            if isinstance(v, ExcV):
                if v.cls == '$stored':
                    raise EngineError('isinstance on stored exception of unknown class')
                return self.exc_is_subclass(v.cls, t.name)
            if isinstance(v, Opaque):
                spec = self.ext_spec(v.kind, 'isinstance:' + t.name.split('.')[-1])
                if spec is not None:
                    return bool(spec.returns)
                return self.opaque_pred(v, 'isinstance_' + t.name)
            return False
        if isinstance(t, ClassRef):
            if isinstance(v, Ref) and st.obj(v).kind == 'obj' and isinstance(st.obj(v).cls, ClassInfo):
                return any(c.qualname == t.cinfo.qualname for c in self.repo.mro(st.obj(v).cls))
            if isinstance(v, ExcV):
                return self.exc_is_subclass(v.cls, t.cinfo.qualname)
            if isinstance(v, Opaque):
                return self.opaque_pred(v, 'isinstance_' + t.cinfo.name)
            return False
        raise EngineError(f'isinstance type {t!r} at line {line}')

    def opaque_pred(self, v, pred):
        """Uninterpreted boolean attribute of an opaque value (stable per value)."""
        f = z3.Function('pred_' + pred, U, z3.BoolSort())
        return f(v.term)

    def bi_issubclass(self, args, kwargs, st, line):
        a, b = args
        return [ok(self.exc_is_subclass(self.exc_class_name(a), self.exc_class_name(b)), st)]

    def bi_hasattr(self, args, kwargs, st, line):
        v, name = args
        if isinstance(v, Opt):
            v = self.unwrap_opt(v, st, 'hasattr', line)
        if isinstance(v, Ref):
            h = st.obj(v)
            if h.kind == 'obj':
                if name in h.fields or self.repo.find_method(h.cls, name) is not None:
                    return [ok(True, st)]
                return [ok(False, st)]
            if h.kind == 'bytesio':
                return [ok(name in ('read', 'seek', 'tell', 'write', 'close', 'readable', 'seekable'), st)]
            return [ok(False, st)]
        if isinstance(v, Opaque):
            spec = self.ext_spec(v.kind, 'hasattr:' + name)
            if spec is not None:
                val = spec.returns(self, st, v, (), {}) if callable(spec.returns) else spec.returns
                return [ok(val, st)]
            return [ok(self.opaque_pred(v, 'hasattr_' + name), st)]
        if isinstance(v, (str, FStr)):
            return [ok(hasattr('', name), st)]
        raise EngineError(f'hasattr on {type(v).__name__}')

    def bi_getattr(self, args, kwargs, st, line):
        v, name = args[0], args[1]
        if not isinstance(name, str):
            raise EngineError('getattr with non-literal name')
        if len(args) == 3:
            has = self.bi_hasattr([v, name], {}, st, line)[0].val
            out = []
            for yes, s2 in self.branch(st, has):
                out.extend(self.getattr_value(v, name, s2, line) if yes else [ok(args[2], s2)])
            return out
        return self.getattr_value(v, name, st, line)

    def bi_setattr(self, args, kwargs, st, line):
        o, name, v = args
        if not isinstance(name, str):
            raise EngineError('setattr with non-literal name')
        res = self.setattr_value(o, name, v, st, line)
        return [ok(None, s) for _, s in res]

    def bi_range(self, args, kwargs, st, line):
        if len(args) == 1:
            lo, hi = 0, args[0]
        elif len(args) == 2:
            lo, hi = args
        else:
            raise EngineError('range with step')
        hi = self.unwrap_opt(hi, st, 'range', line)
        return [ok(st.alloc(HObj('range', meta={'lo': lo, 'hi': hi})), st)]

    def bi_list(self, args, kwargs, st, line):
        if not args:
            return [ok(st.alloc(HObj('list', items=[])), st)]
        a0 = args[0]
        if isinstance(a0, tuple) and len(a0) == 3 and isinstance(a0[0], str) and a0[0] == 'mapiter':
            # list(executor.map(fn, iterable)): fn is applied to every element (the calls themselves are abstracted: fn is
            # under its own contract); the first failing call's exception is raised here, else a list of the results
            out = []
            s2 = st.fork()
            exc = ExcV('Exception', (), tag=fresh_name('map_exc'))
            s2.trace.append(Event('ext', 'legacy_executor.map', None, (a0[1], a0[2]), {}, None, line, s2.held, extra={'raised': exc}))
            out.append(rs(exc, s2))
            st.trace.append(Event('ext', 'legacy_executor.map', None, (a0[1], a0[2]), {}, None, line, st.held))
            out.append(ok(Opaque(fresh_name('map_results'), kind='list'), st))
            return out
        seq = self.concrete_iterable(a0, st)
        if seq is None:
            raise EngineError('list() of symbolic iterable')
        return [ok(st.alloc(HObj('list', items=list(seq))), st)]

    def bi_tuple(self, args, kwargs, st, line):
        seq = self.concrete_iterable(args[0], st) if args else []
        if seq is None:
            raise EngineError('tuple() of symbolic iterable')
        return [ok(tuple(seq), st)]

    def bi_dict(self, args, kwargs, st, line):
        if len(args) == 1 and not kwargs:
            v = self.unwrap_opt(args[0], st, 'dict', line)
            if isinstance(v, Ref) and st.obj(v).kind in ('dict', 'smap', 'symdict'):
                return [ok(st.alloc(st.obj(v).clone()), st)]       # dict(mapping): a shallow copy
        if args:
            raise EngineError('dict(x)')
        return [ok(st.alloc(HObj('dict', items=dict(kwargs))), st)]

    def bi_set(self, args, kwargs, st, line):
        if args:
            seq = self.concrete_iterable(args[0], st)
            if seq is None:
                raise EngineError('set() of symbolic iterable')
            return [ok(st.alloc(HObj('set', items=set(seq))), st)]
        return [ok(st.alloc(HObj('set', items=set())), st)]

    def bi_any(self, args, kwargs, st, line):
        seq = self.concrete_iterable(args[0], st)
        if seq is None:
            raise EngineError('any() of symbolic iterable')
        ts = [self.truthy(x, st) for x in seq]
        if all(isinstance(t, bool) for t in ts):
            return [ok(any(ts), st)]
        return [ok(z3.Or([to_z3_bool(t) for t in ts]), st)]

    def bi_all(self, args, kwargs, st, line):
        seq = self.concrete_iterable(args[0], st)
        if seq is None:
            raise EngineError('all() of symbolic iterable')
        ts = [self.truthy(x, st) for x in seq]
        if all(isinstance(t, bool) for t in ts):
            return [ok(all(ts), st)]
        return [ok(z3.And([to_z3_bool(t) for t in ts]), st)]

    def bi_iter(self, args, kwargs, st, line):
        if len(args) == 1:
            return [ok(args[0], st)]
        # iter(callable, sentinel): iteration calls the callable until it returns the sentinel
        return [ok(st.alloc(HObj('sentinel_iter', meta={'fn': args[0], 'sentinel': args[1]})), st)]

    def bi_type(self, args, kwargs, st, line):
        v = args[0]
        if isinstance(v, ExcV):
            return [ok(ExtClassRef(v.cls) if ':' not in v.cls else ClassRef(self.repo.cls(v.cls)), st)]
        return [ok(Opaque(fresh_name('type'), kind='type'), st)]

    def bi_callable(self, args, kwargs, st, line):
        return [ok(True, st)]

    def bi_functools_partial(self, args, kwargs, st, line):
        return [ok(PartialV(args[0], args[1:], kwargs), st)]

    def bi_concurrent_futures_wait(self, args, kwargs, st, line):
        """concurrent.futures.wait(fs, timeout=None, return_when=...) over a concrete list of futures: one path per
        possible `done` set.  future_failed(f) is the (eventual) outcome of f.  ALL_COMPLETED: done = all;
        FIRST_COMPLETED: done is non-empty; FIRST_EXCEPTION: done = all, or some future in done failed."""
        fs = args[0]
        items = list(st.obj(fs).items) if isinstance(fs, Ref) and st.obj(fs).kind == 'list' else None
        if items is None or not all(isinstance(f, Opaque) for f in items):
            raise EngineError('concurrent.futures.wait over a non-concrete list of futures')
        if (len(args) > 1 and args[1] is not None) or kwargs.get('timeout') is not None:
            raise EngineError('concurrent.futures.wait with a timeout')
        rw = kwargs.get('return_when', args[2] if len(args) > 2 else 'ALL_COMPLETED')
        if rw not in ('ALL_COMPLETED', 'FIRST_COMPLETED', 'FIRST_EXCEPTION'):
            raise EngineError(f'concurrent.futures.wait: return_when {rw!r}')
        out = []
        n = len(items)
        for mask in range(1 << n):
            done = [f for i, f in enumerate(items) if mask >> i & 1]
            rest = [f for i, f in enumerate(items) if not mask >> i & 1]
            if rw == 'ALL_COMPLETED' and rest:
                continue
            if rw == 'FIRST_COMPLETED' and n and not done:
                continue
            s2 = st.fork()
            if rw == 'FIRST_EXCEPTION' and rest:
                if not done:
                    continue
                s2.assume(z3.Or([FUTURE_FAILED(f.term) for f in done]))
                if not self.feasible(s2):
                    continue
            dv, rv = s2.alloc(HObj('list', items=done)), s2.alloc(HObj('list', items=rest))
            s2.trace.append(Event('ext', 'concurrent.futures.wait', None, args, kwargs, (dv, rv), line, s2.held, extra={'done': done, 'not_done': rest}))
            out.append(ok((dv, rv), s2))
        return out

    def bi_copy_copy(self, args, kwargs, st, line):
        v = args[0]
        if isinstance(v, Ref):
            h = st.obj(v)
            if h.kind in ('list', 'dict', 'set', 'smap', 'sset', 'symdict'):
                return [ok(st.alloc(h.clone()), st)]
        raise EngineError(f'copy.copy of {type(v).__name__}')

    def bi_threading_Lock(self, args, kwargs, st, line):
        return [ok(st.alloc(HObj('lock', meta={'reentrant': False})), st)]

    def bi_threading_RLock(self, args, kwargs, st, line):
        return [ok(st.alloc(HObj('lock', meta={'reentrant': True})), st)]

    def bi_threading_Condition(self, args, kwargs, st, line):
        return [ok(st.alloc(HObj('condition', meta={'lock': args[0] if args else None})), st)]

    def bi_threading_Event(self, args, kwargs, st, line):
        return [ok(st.alloc(HObj('event', meta={})), st)]

    def bi_threading_Semaphore(self, args, kwargs, st, line):
        return [ok(st.alloc(HObj('semaphore', meta={'count': args[0] if args else 1})), st)]

    def bi_collections_defaultdict(self, args, kwargs, st, line):
        if len(args) == 1 and isinstance(args[0], Builtin) and args[0].name == 'int':
            ks = U
            return [ok(st.alloc(HObj('smap', meta={
                'present': z3.K(ks, z3.BoolVal(False)), 'vals': z3.K(ks, z3.IntVal(0)),
                'default_int': True, 'key': 'U', 'val_t': Int})), st)]
        raise EngineError('defaultdict factory')

    def bi_enumerate(self, args, kwargs, st, line):
        seq = self.concrete_iterable(args[0], st)
        if seq is None:
            raise EngineError('enumerate of symbolic iterable')
        return [ok(tuple((i, x) for i, x in enumerate(seq)), st)]

    def bi_sum(self, args, kwargs, st, line):
        seq = self.concrete_iterable(args[0], st)
        if seq is None:
            raise EngineError('sum of symbolic iterable')
        tot = 0
        for x in seq:
            tot = tot + x
        return [ok(tot, st)]

    # ------------------------------------------------------------------ heapq on the abstract heap
    def _heap_item(self, h, item, st, line):
        if not (isinstance(item, tuple) and len(item) == 2 and isinstance(item[1], BytesV)):
            raise EngineError('heap item must be (offset, bytes-view)')
        o, d = item
        if d.base != h.meta['base']:
            raise EngineError('heap item of another base')
        # the abstraction (data determined by offset and length) needs data == base[o:o+len]
        self.oblige(st, f'heap.item_is_view_at_its_offset@{line}', to_int_term(d.lo) == to_int_term(o), kind='safety', line=line)
        return to_int_term(o), to_int_term(d.hi) - to_int_term(d.lo)

    def bi_heapq_heappush(self, args, kwargs, st, line):
        hv, item = args
        h = st.obj(hv)
        if h.kind == 'list' and not h.items and False:
            pass
        if h.kind != 'sheap':
            raise EngineError('heappush on a non-abstract heap')
        o, l = self._heap_item(h, item, st, line)
        c = h.meta['count']
        h.meta['count'] = z3.Store(c, o, z3.Store(z3.Select(c, o), l, z3.Select(z3.Select(c, o), l) + 1))
        return [ok(None, st)]

    def _heap_min(self, h, st):
        """Witness of a minimal element: (offset m, length lm)."""
        c = h.meta['count']
        m, lm = z3.Int(fresh_name('heap_min')), z3.Int(fresh_name('heap_min_len'))
        o, l = z3.Ints('o__ l__')
        st.assume(z3.Select(z3.Select(c, m), lm) > 0)
        st.assume(z3.ForAll([o, l], z3.Implies(z3.Select(z3.Select(c, o), l) > 0, m <= o)))
        return m, lm

    def sheap_nonempty(self, h, st):
        c = h.meta['count']
        cache = h.meta.get('nonempty_cache')
        if cache is not None and cache[0].eq(c):
            return cache[1]
        b = z3.Bool(fresh_name('heap_nonempty'))
        h.meta['nonempty_cache'] = (c, b)
        wo, wl = z3.Int(fresh_name('heap_wo')), z3.Int(fresh_name('heap_wl'))
        o, l = z3.Ints('o__ l__')
        st.assume(z3.Implies(b, z3.Select(z3.Select(c, wo), wl) > 0))
        st.assume(z3.Implies(z3.Not(b), z3.ForAll([o, l], z3.Select(z3.Select(c, o), l) <= 0)))
        return b

    def sheap_peek(self, ref, h, k, st, line):
        if k != 0:
            raise EngineError('heap index other than 0')
        out = []
        for ne, s2 in self.branch(st, self.sheap_nonempty(h, st)):
            if not ne:
                out.append(rs(ExcV('IndexError'), s2))
                continue
            h2 = s2.obj(ref)
            m, lm = self._heap_min(h2, s2)
            out.append(ok((m, BytesV(h2.meta['base'], m, m + lm)), s2))
        return out

    def bi_heapq_heappop(self, args, kwargs, st, line):
        hv = args[0]
        h = st.obj(hv)
        if h.kind != 'sheap':
            raise EngineError('heappop on a non-abstract heap')
        out = []
        for ne, s2 in self.branch(st, self.sheap_nonempty(h, st)):
            if not ne:
                out.append(rs(ExcV('IndexError'), s2))
                continue
            h2 = s2.obj(hv)
            m, lm = self._heap_min(h2, s2)
            c = h2.meta['count']
            h2.meta['count'] = z3.Store(c, m, z3.Store(z3.Select(c, m), lm, z3.Select(z3.Select(c, m), lm) - 1))
            out.append(ok((m, BytesV(h2.meta['base'], m, m + lm)), s2))
        return out

    # ------------------------------------------------------------------ comprehension (finite)
    def eval_comprehension(self, e, st, kind):
        if len(e.generators) != 1 or e.generators[0].is_async:
            raise EngineError('comprehension with several generators')
        g = e.generators[0]

        def fin(itv, s):
            seq = self.concrete_iterable(itv, s)
            if seq is None:
                raise EngineError(f'comprehension over symbolic iterable at line {e.lineno}')
            results = [ok([], s)]
            for item in seq:
                nxt = []
                for r in results:
                    if r.kind != 'ok':
                        nxt.append(r)
                        continue
                    s1 = r.st
                    saved = dict(s1.env)
                    for o, s2 in self.assign(g.target, item, s1):
                        conds = [ok(True, s2)]
                        for c in g.ifs:
                            conds = self.bind(conds, lambda v, s3, c=c: [Res('ok', to_z3_bool(self.truthy(x.val, x.st)) if False else x.val, x.st) for x in self.eval(c, s3)] if v is not False else [ok(False, s3)])
                        for cr in conds:
                            if cr.kind != 'ok':
                                nxt.append(cr)
                                continue
                            for taken, s4 in self.branch(cr.st, self.truthy(cr.val, cr.st)):
                                if not taken:
                                    nxt.append(ok(r.val, s4))
                                else:
                                    for er in self.eval(e.elt, s4):
                                        nxt.append(ok(r.val + [er.val], er.st) if er.kind == 'ok' else er)
                results = nxt
            out = []
            for r in results:
                if r.kind == 'ok':
                    out.append(ok(r.st.alloc(HObj('list', items=r.val)), r.st))
                else:
                    out.append(r)
            return out
        return self.bind(self.eval(g.iter, st), fin)

    # ------------------------------------------------------------------ methods of builtin values
    def call_ext_method(self, recv, name, args, kwargs, st, line):
        if isinstance(recv, Ref):
            h = st.obj(recv)
            m = getattr(self, f'm_{h.kind}_{name}', None)
            if m is not None:
                return m(recv, h, args, kwargs, st, line)
            raise EngineError(f'method {name} of {h.kind} not modelled (line {line})')
        if isinstance(recv, tuple) and recv and (isinstance(recv[0], str) and recv[0] == 'mapslot'):
            m = getattr(self, f'm_mapslot_{name}', None)
            if m is not None:
                return m(recv, args, kwargs, st, line)
            raise EngineError(f'method {name} of map-held list not modelled')
        if isinstance(recv, Opaque):
            return self.call_external(recv, name, args, kwargs, st, line)
        if isinstance(recv, (str, FStr)) or (is_sym(recv) and z3.is_string(recv)):
            return self.str_method(recv, name, args, kwargs, st, line)
        raise EngineError(f'method {name} on {type(recv).__name__} at line {line}')

    def str_method(self, recv, name, args, kwargs, st, line):
        if isinstance(recv, str) and all(isinstance(a, (str, int)) for a in args) and name in (
                'replace', 'upper', 'lower', 'startswith', 'endswith', 'format', 'strip', 'split', 'title', 'capitalize',
                'lstrip', 'rstrip', 'rsplit', 'isdigit'):
            r = getattr(recv, name)(*args)
            if isinstance(r, list):
                r = st.alloc(HObj('list', items=list(r)))
            return [ok(r, st)]
        if isinstance(recv, str) and name == 'join' and len(args) == 1:
            seq = self.concrete_iterable(args[0], st)
            if seq is not None and all(isinstance(x, str) for x in seq):
                return [ok(recv.join(seq), st)]
        if name == 'replace' and is_sym(recv) and z3.is_string(recv) and all(isinstance(a, str) for a in args) and len(args) == 2:
            # z3 str.replace replaces the first occurrence; equal to Python's replace-all when the
            # pattern occurs at most once -- obligation
            first = z3.Replace(recv, z3.StringVal(args[0]), z3.StringVal(args[1]))
            self.oblige(st, f'safety.replace_single_occurrence@{line}', z3.Not(z3.Contains(first, z3.StringVal(args[0]))), kind='safety', line=line)
            return [ok(first, st)]
        if name in ('format', 'join', 'upper', 'lower', 'replace', 'strip'):
            return [ok(Opaque(fresh_name('str'), kind='str'), st)]
        raise EngineError(f'str.{name}')

    # list
    def m_list_append(self, recv, h, args, kwargs, st, line):
        h.items.append(args[0])
        return [ok(None, st)]

    def m_list_extend(self, recv, h, args, kwargs, st, line):
        seq = self.concrete_iterable(args[0], st)
        if seq is None:
            if isinstance(args[0], Ref) and st.obj(args[0]).kind == 'slist':
                # extending by a list of symbolic length: keep the segments (as for `+=`)
                h.kind = 'seglist'
                h.meta = {'segments': [('items', list(h.items)), ('slist', args[0])]}
                h.items = None
                return [ok(None, st)]
            raise EngineError('extend with symbolic iterable')
        h.items.extend(seq)
        return [ok(None, st)]

    def m_seglist_extend(self, recv, h, args, kwargs, st, line):
        seq = self.concrete_iterable(args[0], st)
        if seq is not None:
            h.meta['segments'] = list(h.meta['segments']) + [('items', list(seq))]
        elif isinstance(args[0], Ref) and st.obj(args[0]).kind == 'slist':
            h.meta['segments'] = list(h.meta['segments']) + [('slist', args[0])]
        else:
            raise EngineError('extend of a concatenated list with a symbolic iterable')
        return [ok(None, st)]

    def m_seglist_append(self, recv, h, args, kwargs, st, line):
        h.meta['segments'] = list(h.meta['segments']) + [('items', [args[0]])]
        return [ok(None, st)]

    def m_list_pop(self, recv, h, args, kwargs, st, line):
        if not h.items:
            return [rs(ExcV('IndexError'), st)]
        return [ok(h.items.pop(*args), st)]

    def m_list_copy(self, recv, h, args, kwargs, st, line):
        return [ok(st.alloc(h.clone()), st)]

    # symbolic list
    def m_slist_append(self, recv, h, args, kwargs, st, line):
        v = args[0]
        if 'arrs' in h.meta:
            if not (isinstance(v, Ref) and st.obj(v).kind == 'dict'):
                raise EngineError('append of a non-record to a record list')
            items = st.obj(v).items
            if set(items) != set(h.meta['arrs']):
                raise EngineError('record fields differ')
            n = h.meta['len']
            new = {}
            for fname, a in h.meta['arrs'].items():
                x = items[fname]
                if isinstance(a, tuple) and a[0] == '$U':
                    if not isinstance(x, Opaque):
                        raise EngineError('record field expects an opaque value')
                    new[fname] = ('$U', a[1], z3.Store(a[2], n, x.term))
                elif isinstance(a, tuple):
                    if not (isinstance(x, BytesV) and x.base == a[0]):
                        raise EngineError('record bytes field of another base')
                    new[fname] = (a[0], z3.Store(a[1], n, to_int_term(x.lo)), z3.Store(a[2], n, to_int_term(x.hi)))
                else:
                    new[fname] = z3.Store(a, n, to_int_term(x))
            h.meta['arrs'] = new
            h.meta['len'] = n + 1
            h.meta['elem'] = self.record_elem_fn(h)
            return [ok(None, st)]
        if isinstance(v, Ref):
            term = z3.Const(f'ref!{v.oid}', U)
            h.meta.setdefault('refs', {})[v.oid] = v
        elif isinstance(v, Opaque):
            term = v.term
        elif h.meta.get('elem_t') is Int:
            term = to_int_term(v)
        else:
            raise EngineError('append to symbolic list')
        n = h.meta['len']
        arr = z3.Store(h.meta['arr'], n, term)
        h.meta['arr'] = arr
        h.meta['len'] = n + 1
        et = h.meta.get('elem_t')
        if et is Int:
            h.meta['elem'] = lambda i, arr=arr: z3.Select(arr, to_int_term(i))
        else:
            kind = et.kind if et is not None else None
            h.meta['elem'] = lambda i, arr=arr, k=kind: Opaque(z3.Select(arr, to_int_term(i)), kind=k)
        return [ok(None, st)]

    # dict
    def m_dict_get(self, recv, h, args, kwargs, st, line):
        k = self.hashable_key(args[0])
        return [ok(h.items.get(k, args[1] if len(args) > 1 else None), st)]

    def m_dict_items(self, recv, h, args, kwargs, st, line):
        return [ok(st.alloc(HObj('dictitems', meta={'dict': recv})), st)]

    def m_dict_keys(self, recv, h, args, kwargs, st, line):
        return [ok(tuple(h.items.keys()), st)]

    def m_dict_values(self, recv, h, args, kwargs, st, line):
        return [ok(tuple(h.items.values()), st)]

    def m_dict_update(self, recv, h, args, kwargs, st, line):
        if args:
            o = args[0]
            if isinstance(o, Ref) and st.obj(o).kind == 'smap':
                self.promote_dict_to_smap(recv, st, st.obj(o).meta['key'])
                return self.m_smap_update(recv, st.obj(recv), args, kwargs, st, line)
            if isinstance(o, Ref) and st.obj(o).kind == 'dict':
                h.items.update(st.obj(o).items)
            else:
                raise EngineError('dict.update with non-concrete dict')
        h.items.update(kwargs)
        return [ok(None, st)]

    def m_dict_copy(self, recv, h, args, kwargs, st, line):
        return [ok(st.alloc(h.clone()), st)]

    def m_dict_setdefault(self, recv, h, args, kwargs, st, line):
        k = self.hashable_key(args[0])
        if k not in h.items:
            h.items[k] = args[1] if len(args) > 1 else None
        return [ok(h.items[k], st)]

    def m_dict_pop(self, recv, h, args, kwargs, st, line):
        k = self.hashable_key(args[0])
        if k in h.items:
            return [ok(h.items.pop(k), st)]
        if len(args) > 1:
            return [ok(args[1], st)]
        return [rs(ExcV('KeyError', (args[0],)), st)]

    # set (concrete)
    def m_set_add(self, recv, h, args, kwargs, st, line):
        h.items.add(args[0])
        return [ok(None, st)]

    def m_set_remove(self, recv, h, args, kwargs, st, line):
        if args[0] in h.items:
            h.items.remove(args[0])
            return [ok(None, st)]
        return [rs(ExcV('KeyError', (args[0],)), st)]

    # symbolic set
    def m_sset_add(self, recv, h, args, kwargs, st, line):
        h.meta['present'] = z3.Store(h.meta['present'], self.key_term(args[0], h), True)
        return [ok(None, st)]

    def m_sset_remove(self, recv, h, args, kwargs, st, line):
        kt = self.key_term(args[0], h)
        out = []
        for isin, s2 in self.branch(st, z3.Select(h.meta['present'], kt)):
            if isin:
                h2 = s2.obj(recv)
                h2.meta['present'] = z3.Store(h2.meta['present'], kt, False)
                out.append(ok(None, s2))
            else:
                out.append(rs(ExcV('KeyError', (args[0],)), s2))
        return out

    # symbolic map
    def m_smap_get(self, recv, h, args, kwargs, st, line):
        kt = self.key_term(args[0], h)
        default = args[1] if len(args) > 1 else None
        out = []
        for isin, s2 in self.branch(st, z3.Select(h.meta['present'], kt)):
            out.append(ok(self.smap_value(recv, s2.obj(recv), kt) if isin else default, s2))
        return out

    def m_smap_items(self, recv, h, args, kwargs, st, line):
        return [ok(st.alloc(HObj('smapitems', meta={'map': recv, 'what': 'items'})), st)]

    def m_smap_keys(self, recv, h, args, kwargs, st, line):
        return [ok(st.alloc(HObj('smapitems', meta={'map': recv, 'what': 'keys'})), st)]

    def m_smap_copy(self, recv, h, args, kwargs, st, line):
        return [ok(st.alloc(h.clone()), st)]

    def m_smap_update(self, recv, h, args, kwargs, st, line):
        o = args[0]
        if isinstance(o, Ref) and st.obj(o).kind == 'smap':
            src = st.obj(o).meta
            ks = h.meta['present'].domain()
            k = z3.Const('k__', ks)
            np_ = z3.Array(fresh_name('upd_present'), ks, z3.BoolSort())
            nv = z3.Array(fresh_name('upd_vals'), ks, h.meta['vals'].range())
            st.assume(z3.ForAll([k], z3.And(
                z3.Select(np_, k) == z3.Or(z3.Select(h.meta['present'], k), z3.Select(src['present'], k)),
                z3.Select(nv, k) == z3.If(z3.Select(src['present'], k), z3.Select(src['vals'], k), z3.Select(h.meta['vals'], k)))))
            h.meta['present'], h.meta['vals'] = np_, nv
            return [ok(None, st)]
        raise EngineError('smap.update with non-map')

    def m_smap_pop(self, recv, h, args, kwargs, st, line):
        kt = self.key_term(args[0], h)
        out = []
        for isin, s2 in self.branch(st, z3.Select(h.meta['present'], kt)):
            h2 = s2.obj(recv)
            if isin:
                val = self.smap_value(recv, h2, kt)
                h2.meta['present'] = z3.Store(h2.meta['present'], kt, False)
                out.append(ok(val, s2))
            elif len(args) > 1:
                out.append(ok(args[1], s2))
            else:
                out.append(rs(ExcV('KeyError', (args[0],)), s2))
        return out

    def m_smap_setdefault(self, recv, h, args, kwargs, st, line):
        kt = self.key_term(args[0], h)
        out = []
        for isin, s2 in self.branch(st, z3.Select(h.meta['present'], kt)):
            h2 = s2.obj(recv)
            if not isin:
                for o, s3 in self.setitem(recv, args[0], args[1], s2, line):
                    out.append(ok(self.smap_value(recv, s3.obj(recv), kt), s3))
            else:
                out.append(ok(self.smap_value(recv, h2, kt), s2))
        return out

    # list held in a symbolic map: operations write through to the map
    def _slot_set(self, slot, arr, n, st):
        h = st.obj(slot[1])
        h.meta['vals'] = {'arr': z3.Store(h.meta['vals']['arr'], slot[2], arr), 'len': z3.Store(h.meta['vals']['len'], slot[2], n)}

    def m_mapslot_append(self, slot, args, kwargs, st, line):
        arr, n = self.list_as_array(slot, st)
        self._slot_set(slot, z3.Store(arr, n, to_int_term(args[0])), n + 1, st)
        return [ok(None, st)]

    def m_mapslot_pop(self, slot, args, kwargs, st, line):
        if args:
            raise EngineError('pop(index) on map-held list')
        arr, n = self.list_as_array(slot, st)
        out = []
        for nonempty, s2 in self.branch(st, n > 0):
            if nonempty:
                arr2, n2 = self.list_as_array(slot, s2)
                self._slot_set(slot, arr2, n2 - 1, s2)
                out.append(ok(z3.Select(arr2, n2 - 1), s2))
            else:
                out.append(rs(ExcV('IndexError'), s2))
        return out

    def m_mapslot_sort(self, slot, args, kwargs, st, line):
        """Builtin contract of list.sort(reverse=True): result is a permutation of the old list,
        sorted descending.  Encoded for the one shape that occurs (list strictly descending before
        its last element was appended): the contract module supplies the model."""
        fn = self.registry.builtin_models.get('list.sort')
        if fn is None:
            raise EngineError('list.sort on symbolic list needs a builtin contract')
        return fn(self, st, [slot], kwargs, line)

    # ------------------------------------------------------------------ external interfaces
    def ext_spec(self, kind, name):
        if self.registry is None:
            return None
        tbl = self.registry.externals.get(kind)
        if tbl is None:
            return None
        if name in tbl:
            return tbl[name]
        if name.startswith('.') or name.startswith('hasattr:') or name.startswith('isinstance:') or name == '[]':
            return None
        return tbl.get('*')

    def call_external(self, recv, name, args, kwargs, st, line):
        spec = self.ext_spec(recv.kind, name)
        if spec is None:
            raise EngineError(f'external {recv.kind}.{name} has no assumed contract (line {line})')
        self.used_externals.add(f'{recv.kind}.{name}')
        if spec.pure:
            val = spec.returns(self, st, recv, args, kwargs) if callable(spec.returns) else (
                self.make_symbolic(spec.returns, name, st) if spec.returns is not None else None)
            return [ok(val, st)]
        self.check_user_code_and_blocking(spec, recv, name, st, line)
        if spec.pre is not None:
            for nm, f in spec.pre(self, st, recv, args, kwargs).items():
                self.oblige(st, f'ext_pre.{recv.kind}.{name}.{nm}@{line}', f, kind='pre', line=line)
        out = []
        for ecls in spec.raises:
            s2 = st.fork()
            exc = ExcV(ecls, (), tag=fresh_name(f'{name}_exc'))
            ev = Event('ext', f'{recv.kind}.{name}', recv, args, kwargs, None, line, s2.held,
                       extra={'raised': exc, 'effect_may_have_happened': spec.effect_on_raise,
                              'splat': self.splat_snapshot(kwargs, s2)})
            s2.trace.append(ev)
            if spec.on_raise is not None:
                spec.on_raise(self, s2, recv, args, kwargs, exc)
                if not self.feasible(s2):
                    continue
            if spec.effect_on_raise and spec.effect is not None:
                # both variants: effect happened / did not happen
                s3 = s2.fork()
                spec.effect(self, s3, recv, args, kwargs, None)
                out.append(rs(exc, s3))
            out.append(rs(exc, s2))
        val = spec.returns(self, st, recv, args, kwargs) if callable(spec.returns) else (
            self.make_symbolic(spec.returns, name, st) if spec.returns is not None else None)
        if spec.event:
            st.trace.append(Event('ext', f'{recv.kind}.{name}', recv, args, kwargs, val, line, st.held,
                                  extra={'splat': self.splat_snapshot(kwargs, st)}))
        if spec.effect is not None:
            spec.effect(self, st, recv, args, kwargs, val)
        out.append(ok(val, st))
        return out

    def splat_snapshot(self, kwargs, st):
        v = kwargs.get('**')
        if isinstance(v, Ref) and st.obj(v).kind == 'smap':
            m = st.obj(v).meta
            return {'present': m['present'], 'vals': m['vals'], 'key': m['key']}
        return None

    def check_user_code_and_blocking(self, spec, recv, name, st, line):
        """K4 obligations at calls into user code / blocking calls."""
        if not self.lock_rules:
            return
        if spec.user_code:
            bad = [l for l in st.held if self.lock_label(st, l) in self.lock_rules.get('public_api_locks', ())]
            self.oblige(st, f'lock.user_code_unheld.{recv.kind}.{name}@{line}', len(bad) == 0, kind='lock', line=line,
                        note='user code invoked while holding ' + ','.join(self.lock_label(st, l) for l in bad))
        if spec.blocking:
            allowed = self.lock_rules.get('allowed_while_blocking', {}).get(f'{recv.kind}.{name}', ())
            bad = [l for l in st.held if self.lock_label(st, l) not in allowed]
            self.oblige(st, f'lock.blocking_unheld.{recv.kind}.{name}@{line}', len(bad) == 0, kind='lock', line=line,
                        note='blocking call while holding ' + ','.join(self.lock_label(st, l) for l in bad))

    lock_rules = None

    def lock_label(self, st, oid):
        h = st.heap[oid]
        owner = h.meta.get('owner')
        cls = st.obj(owner).cls.name if owner is not None and isinstance(st.obj(owner).cls, ClassInfo) else '?'
        return f'{cls}.{h.meta.get("name")}'

    # ------------------------------------------------------------------ locks / context managers
    def lock_of(self, ref, st):
        h = st.obj(ref)
        if h.kind == 'condition':
            lk = h.meta.get('lock')
            if lk is None:
                raise EngineError('condition without lock')
            return lk
        return ref

    def lock_acquire(self, ref, st, line, blocking=True):
        lk = self.lock_of(ref, st)
        h = st.obj(lk)
        label = self.lock_label(st, lk.oid)
        if not h.meta.get('reentrant'):
            self.oblige(st, f'lock.no_reacquire.{label}@{line}', lk.oid not in st.held, kind='lock', line=line,
                        note=f'non-reentrant {label} acquired while already held')
        if self.lock_rules:
            levels = self.lock_rules.get('levels', {})
            if label in levels:
                for held in st.held:
                    hl = self.lock_label(st, held)
                    if hl in levels and held != lk.oid:
                        self.oblige(st, f'lock.order.{hl}<{label}@{line}', levels[hl] < levels[label], kind='lock', line=line,
                                    note=f'{label} (level {levels[label]}) acquired while holding {hl} (level {levels[hl]})')
        st.trace.append(Event('lock', label, recv=lk, line=line, held=st.held))
        st.held.append(lk.oid)
        self.monitor_enter(lk, st, line)

    def lock_release(self, ref, st, line):
        lk = self.lock_of(ref, st)
        label = self.lock_label(st, lk.oid)
        if lk.oid not in st.held:
            self.oblige(st, f'lock.release_unheld.{label}@{line}', False, kind='lock', line=line)
            return
        self.monitor_exit(lk, st, line)
        st.held.remove(lk.oid)
        st.trace.append(Event('unlock', label, recv=lk, line=line, held=st.held))

    def monitor_enter(self, lk, st, line):
        """On acquisition: the guarded fields hold whatever other threads left there; only the
        representation invariant is known (K2)."""
        h = st.obj(lk)
        owner = h.meta.get('owner')
        if owner is None or owner.oid not in st.shared:
            return
        oh = st.obj(owner)
        mon = self.monitor_of(oh, lock=h.meta.get('name'))
        if mon is None:
            return
        for fname, t in mon.fields.items():
            oh.fields[fname] = self.make_symbolic(t, f'{fname}', st)
        for nfield, nfields in mon.nested.items():
            nh = st.obj(oh.fields[nfield])
            for fname, t in nfields.items():
                nh.fields[fname] = self.make_symbolic(t, f'{nfield}.{fname}', st)
        for nm, f in mon.invariant(View(self, st), owner).items():
            st.assume(f)
        if mon.on_acquire is not None:
            mon.on_acquire(self, st, owner)
        st.ghost[('mon_old', owner.oid)] = st.fork()

    def monitor_exit(self, lk, st, line):
        h = st.obj(lk)
        owner = h.meta.get('owner')
        if owner is None or owner.oid not in st.shared:
            return
        oh = st.obj(owner)
        mon = self.monitor_of(oh, lock=h.meta.get('name'))
        if mon is None:
            return
        if mon.on_release is not None:
            mon.on_release(self, st, owner, st.ghost.get(('mon_old', owner.oid)))
        for nm, f in mon.invariant(View(self, st), owner).items():
            self.oblige(st, f'monitor.{mon.cls.split(":")[1]}.inv.{nm}@release{line}', f, kind='monitor', line=line)
        old = st.ghost.get(('mon_old', owner.oid))
        if mon.guarantee is not None and old is not None:
            for nm, f in mon.guarantee(View(self, old), View(self, st), owner).items():
                self.oblige(st, f'monitor.{mon.cls.split(":")[1]}.guar.{nm}@release{line}', f, kind='monitor', line=line)

    def cm_enter(self, cm, st, line):
        if isinstance(cm, Ref):
            h = st.obj(cm)
            if h.kind in ('lock', 'condition'):
                self.lock_acquire(cm, st, line)
                return [ok(cm, st)]
            if h.kind == 'obj':
                fi = self.repo.find_method(h.cls, '__enter__')
                if fi is None:
                    raise EngineError(f'{h.cls.name} is not a context manager')
                return self.call_repo_function(fi, cm, [], {}, st, line)
            if h.kind == 'bytesio':
                return [ok(cm, st)]
        if isinstance(cm, Opaque):
            return self.call_external(cm, '__enter__', [], {}, st, line)
        raise EngineError(f'with on {type(cm).__name__}')

    def cm_exit(self, cm, st, line, outcome):
        """-> list of Res; 'ok' means: propagate the body's outcome."""
        if isinstance(cm, Ref):
            h = st.obj(cm)
            if h.kind in ('lock', 'condition'):
                self.lock_release(cm, st, line)
                return [ok(None, st)]
            if h.kind == 'obj':
                fi = self.repo.find_method(h.cls, '__exit__')
                a = [None, None, None]
                if outcome[0] == 'raise':
                    a = [Opaque(fresh_name('exc_type')), outcome[1], Opaque(fresh_name('tb'))]
                res = self.call_repo_function(fi, cm, a, {}, st, line)
                out = []
                for r in res:
                    if r.kind == 'ok' and not isinstance(self.truthy(r.val, r.st), bool):
                        raise EngineError('__exit__ with symbolic result')
                    if r.kind == 'ok' and self.truthy(r.val, r.st) and outcome[0] == 'raise':
                        raise EngineError('__exit__ swallowing exceptions')
                    out.append(r)
                return out
            if h.kind == 'bytesio':
                return [ok(None, st)]
        if isinstance(cm, Opaque):
            return self.call_external(cm, '__exit__', [], {}, st, line)
        raise EngineError('with exit')

    # io.BytesIO over a byte view
    def bi_io_BytesIO(self, args, kwargs, st, line):
        data = args[0] if args else b''
        if data == b'':
            data = BytesV(fresh_name('empty'), 0, 0)
        if not isinstance(data, BytesV):
            raise EngineError('BytesIO of non-view bytes')
        return [ok(st.alloc(HObj('bytesio', meta={'data': data, 'pos': 0, 'closed': False})), st)]

    def m_bytesio_tell(self, recv, h, args, kwargs, st, line):
        return [ok(h.meta['pos'], st)]

    def m_bytesio_seek(self, recv, h, args, kwargs, st, line):
        where = args[0]
        whence = args[1] if len(args) > 1 else kwargs.get('whence', 0)
        n = h.meta['data'].hi - h.meta['data'].lo
        if whence == 0:
            new = where
        elif whence == 1:
            new = h.meta['pos'] + where
        elif whence == 2:
            new = n + where
        else:
            raise EngineError('seek whence')
        new = zmax(new, 0)
        h.meta['pos'] = new
        return [ok(new, st)]

    def m_bytesio_read(self, recv, h, args, kwargs, st, line):
        d = h.meta['data']
        n = to_int_term(d.hi) - to_int_term(d.lo)
        pos = to_int_term(h.meta['pos'])
        amount = args[0] if args else None
        if isinstance(amount, Opt):
            out = []
            for isnone, s2 in self.branch(st, amount.is_none):
                out.extend(self.m_bytesio_read(recv, s2.obj(recv), [None if isnone else amount.val], kwargs, s2, line))
            return out
        start = z3.If(pos > n, n, pos)
        if amount is None:
            end = n
        else:
            a = to_int_term(amount)
            end = z3.If(a < 0, n, z3.If(start + a > n, n, start + a))
        h.meta['pos'] = z3.simplify(z3.If(pos > n, pos, end))
        return [ok(BytesV(d.base, z3.simplify(to_int_term(d.lo) + start), z3.simplify(to_int_term(d.lo) + end)), st)]

    def m_bytesio_close(self, recv, h, args, kwargs, st, line):
        h.meta['closed'] = True
        return [ok(None, st)]

    def m_bytesio_readable(self, recv, h, args, kwargs, st, line):
        return [ok(True, st)]

    m_bytesio_seekable = m_bytesio_readable

    # lock / condition / event / semaphore methods
    def m_lock_acquire(self, recv, h, args, kwargs, st, line):
        self.lock_acquire(recv, st, line)
        return [ok(True, st)]

    def m_lock_release(self, recv, h, args, kwargs, st, line):
        self.lock_release(recv, st, line)
        return [ok(None, st)]

    m_condition_acquire = m_lock_acquire
    m_condition_release = m_lock_release

    def m_condition_wait(self, recv, h, args, kwargs, st, line):
        """wait() releases the lock and re-acquires it: invariant must hold, state is havocked."""
        lk = self.lock_of(recv, st)
        if lk.oid not in st.held:
            self.oblige(st, f'lock.wait_unheld@{line}', False, kind='lock', line=line)
        others = [l for l in st.held if l != lk.oid]
        if self.lock_rules:
            self.oblige(st, f'lock.wait_holds_only_own@{line}', len(others) == 0, kind='lock', line=line)
        self.monitor_exit(lk, st, line)
        st.trace.append(Event('ext', 'condition.wait', recv, line=line, held=st.held))
        self.monitor_enter(lk, st, line)
        return [ok(True, st)]

    def m_condition_notify(self, recv, h, args, kwargs, st, line):
        st.trace.append(Event('ext', 'condition.notify', recv, args, line=line, held=st.held))
        return [ok(None, st)]

    m_condition_notify_all = m_condition_notify
    m_condition_notifyAll = m_condition_notify

    def m_event_set(self, recv, h, args, kwargs, st, line):
        st.trace.append(Event('ext', 'event.set', recv, line=line, held=st.held,
                              extra={'label': self.lock_label(st, recv.oid)}))
        h.meta['is_set'] = True
        return [ok(None, st)]

    def m_event_wait(self, recv, h, args, kwargs, st, line):
        if self.lock_rules:
            allowed = self.lock_rules.get('allowed_while_blocking', {}).get('event.wait', ())
            bad = [l for l in st.held if self.lock_label(st, l) not in allowed]
            self.oblige(st, f'lock.blocking_unheld.event.wait@{line}', len(bad) == 0, kind='lock', line=line,
                        note='Event.wait while holding ' + ','.join(self.lock_label(st, l) for l in bad))
        st.trace.append(Event('ext', 'event.wait', recv, args, line=line, held=st.held))
        out = [ok(True, st)]
        if self.event_wait_may_interrupt:
            s2 = st.fork()
            out.append(rs(ExcV('KeyboardInterrupt'), s2))
        return out

    event_wait_may_interrupt = True

    def m_event_is_set(self, recv, h, args, kwargs, st, line):
        r = z3.Bool(fresh_name('is_set'))      # whatever other threads made of it
        st.trace.append(Event('ext', 'event.is_set', recv, (), {}, r, line, st.held))
        return [ok(r, st)]

    def m_event_clear(self, recv, h, args, kwargs, st, line):
        st.trace.append(Event('ext', 'event.clear', recv, line=line, held=st.held))
        return [ok(None, st)]

    def m_semaphore_acquire(self, recv, h, args, kwargs, st, line):
        blocking = args[0] if args else kwargs.get('blocking', True)
        st.trace.append(Event('ext', 'semaphore.acquire', recv, args, kwargs, line=line, held=st.held))
        t = self.truthy(blocking, st)
        if t is True:
            return [ok(True, st)]
        res = z3.Bool(fresh_name('sem_acquired'))
        if not isinstance(t, bool):
            st.assume(z3.Implies(t, res))
        return [ok(res, st)]

    def m_semaphore_release(self, recv, h, args, kwargs, st, line):
        st.trace.append(Event('ext', 'semaphore.release', recv, args, kwargs, line=line, held=st.held))
        return [ok(None, st)]

    # ------------------------------------------------------------------ contracts at call sites
    def describe(self, v):
        if isinstance(v, Opaque):
            return f'{v.kind} value'
        if is_bool_like(v):
            return 'bool'
        if is_int_like(v):
            return 'int'
        return type(v).__name__

    def describe_type(self, t):
        return getattr(t, 'kind', None) or getattr(t, 'name', None) or type(t).__name__

    def coerce_arg(self, v, t, st, what, line):
        from .contracts import OptT, Int, Real, Bool
        if isinstance(t, OptT):
            if isinstance(v, Opt):
                return v
            if v is None:
                return Opt(z3.BoolVal(True), self.make_symbolic(t.inner, what + '_absent', st))
            return Opt(z3.BoolVal(False), v)
        if t in (Int, Real, Bool) and isinstance(v, Opt):
            return self.unwrap_opt(v, st, what, line)
        from .contracts import MapT, ListOfT, SetT, ObjT
        if isinstance(t, MapT) and isinstance(v, Ref) and st.obj(v).kind == 'dict' and t.key in ('Str',) and \
                all(isinstance(k, str) for k in st.obj(v).items):
            # a concrete str-keyed dict handed to a callee whose contract speaks about a map: same object, map view
            self.promote_dict_to_smap(v, st, 'Str')
            return v
        if isinstance(t, (MapT, ListOfT, SetT, ObjT)) and isinstance(v, Opt):
            # an Optional that the path condition already knows to be present (e.g. after `if x is None: x = ...`)
            if not self.feasible(st, v.is_none):
                return v.val
            return self.unwrap_opt(v, st, what, line)
        return v

    def type_ok(self, v, t):
        """Static type agreement of an argument with a declared parameter type (typed contracts)."""
        from .contracts import OptT, Int, Real, Bool, ExtT, Str
        if isinstance(t, OptT):
            return v is None or isinstance(v, Opt) or self.type_ok(v, t.inner)
        if isinstance(v, Opt):
            v = v.val
        if t is Bool:
            return is_bool_like(v)
        if t is Int:
            return is_int_like(v)
        if t is Str or (isinstance(t, ExtT) and t.kind == 'str'):
            return isinstance(v, (str, FStr)) or (is_sym(v) and z3.is_string(v)) or (isinstance(v, Opaque) and v.kind == 'str')
        if isinstance(t, ExtT) and t.kind == 'excclass':
            return (isinstance(v, Opaque) and v.kind == 'excclass') or isinstance(v, ExtClassRef) or \
                (isinstance(v, ClassRef) and any(isinstance(self.external_name(b), ExtClassRef) for b in self.repo.external_bases(v.cinfo) if isinstance(b, str)))
        return True

    def modifies_keys(self, c, ctx, st):
        """declared locations of contract c as snapshot keys of state st"""
        out = []
        if c.modifies is None:
            return out
        for loc in c.modifies(ctx):
            if loc[0] in ('f', 'm', 'i'):
                ref = loc[1]
                if isinstance(ref, Opt):
                    ref = ref.val
                if not isinstance(ref, Ref):
                    continue
                out.append((loc[0], ref.oid, loc[2]) if loc[0] != 'i' else ('i', ref.oid))
            elif loc[0] == 'g':
                out.append(tuple(loc))
            else:
                raise EngineError(f'modifies of {c.target}: unknown location {loc!r}')
        return out

    def havoc_modifies(self, c, ctx, st):
        keys = self.modifies_keys(c, ctx, st)
        if not keys:
            return
        snap = self.heap_snapshot(st)
        rest = {}
        for k in keys:
            if k not in snap:
                continue
            if k[0] == 'i':
                # the items of a concrete list may change: from here on it is a list of unknown content
                from .contracts import ExtT, ListOfT
                if st.heap[k[1]].kind == 'list':
                    tmp = self.make_symbolic(ListOfT(ExtT('havocked_item'), name='havocked_list'), 'havocked_list', st)
                    st.heap[k[1]] = st.heap.pop(tmp.oid)
                    continue
                raise EngineError('modifies: items of a concrete dict / set cannot be havocked')
            if k[0] == 'f':
                h = st.heap[k[1]]
                ft = None
                if h.kind == 'obj' and h.cls is not None:
                    for ci in self.repo.mro(h.cls):
                        ft = self.registry.fields.get(ci.qualname, {}).get(k[2], ft) if ft is None else ft
                if ft is not None:
                    h.fields[k[2]] = self.make_symbolic(ft, f'mod_{k[2]}', st)
                    continue
            rest[k] = snap[k]
        self.apply_extra_havoc(st, rest)

    def apply_contract(self, c, finfo, self_val, args, kwargs, st, line):
        if c.top_level:
            raise EngineError(f'contract of {c.target} is declared top_level but is used at a call site (line {line})')
        env = self.bind_params(finfo.node, self_val if not isinstance(self_val, ClassRef) else None, args, kwargs, st, finfo)
        self.resolve_defaults(env, st, finfo.module)
        self.used_contracts.add(c.target)
        for pn, pt in c.params.items():
            if pn in env:
                if c.typed and not self.type_ok(env[pn], pt):
                    self.oblige(st, f'pre.{finfo.qualname.split(":")[1]}.type_of_{pn}@{line}', False, kind='pre', line=line,
                                note=f'argument {pn} receives a {self.describe(env[pn])} where the callee needs {self.describe_type(pt)}',
                                props=c.typed if isinstance(c.typed, (list, tuple)) else None)
                env[pn] = self.coerce_arg(env[pn], pt, st, f'{finfo.name}.{pn}', line)
        pre = st.fork()
        ctx = CallCtx(self, finfo, env, self_val, pre)
        for lname in getattr(c, 'requires_held', ()):
            lref = st.obj(self_val).fields.get(lname) if isinstance(self_val, Ref) else None
            okh = isinstance(lref, Ref) and self.lock_of(lref, st).oid in st.held
            self.oblige(st, f'pre.{finfo.qualname.split(":")[1]}.caller_holds_{lname}@{line}', bool(okh), kind='lock', line=line,
                        note=f'{finfo.name} is a helper of the monitor: it must be called with {lname} held')
        for i, f in enumerate(c.requires(ctx)):
            nm = f[0] if isinstance(f, tuple) else str(i)
            fm = f[1] if isinstance(f, tuple) else f
            pp = f[2] if isinstance(f, tuple) and len(f) > 2 else None
            self.oblige(st, f'pre.{finfo.qualname.split(":")[1]}.{nm}@{line}', fm, kind='pre', line=line, props=pp)
        out = []
        mark = len(st.trace)
        # exceptional exits
        # every exception class the contract ALLOWS at its root is one the caller must be prepared for: a class without
        # an explicit raise_when condition may be raised at any time (sound over-approximation of the callee)
        whens = dict(c.raise_when)
        for k in c.raises:
            whens.setdefault(k, lambda c_: None)
        for ecls, when in whens.items():
            s2 = st.fork()
            ctx2 = CallCtx(self, finfo, env, self_val, pre, s2, None, None, mark)
            cond = when(ctx2)
            if cond is False:
                continue
            if cond is not True and cond is not None:
                s2.assume(cond)
                if not self.feasible(s2):
                    continue
            exc = ExcV(ecls, (), tag=fresh_name('exc'))
            self.havoc_modifies(c, ctx2, s2)
            eff = c.raise_effects.get(ecls)
            if eff is not None:
                exc = eff(ctx2, s2, exc) or exc
            # an exceptional exit is always recorded (also for callees whose normal calls leave no event): the caller's
            # "this exception came from a callee" clauses need it
            s2.trace.append(Event('call', finfo.qualname, self_val, args, kwargs, None, line, s2.held,
                                  extra={'raised': exc, 'env': env, 'pre': pre}))
            out.append(rs(exc, s2))
        # normal exit
        result = None
        ctxn = CallCtx(self, finfo, env, self_val, pre, st, None, None, mark)
        if c.events:
            ev = Event('call', finfo.qualname, self_val, args, kwargs, None, line, st.held, extra={'env': env, 'pre': pre})
            st.trace.append(ev)
        self.havoc_modifies(c, ctxn, st)
        if c.effects is not None:
            result = c.effects(ctxn, st)
        elif c.returns is not None:
            result = c.returns(ctxn, st) if callable(c.returns) else self.make_symbolic(c.returns, 'ret', st)
        ctxn.result = result
        if c.events:
            ev.result = result
        if c.old_at != 'acquire':
            # (postconditions of monitor methods speak about the state at lock acquisition, which a
            # caller cannot know: nothing is assumed from them at call sites)
            for nm, f in c.ensures(ctxn).items():
                f = f[0] if isinstance(f, tuple) else f
                if f is False or (is_sym(f) and z3.is_false(z3.simplify(f))):
                    raise EngineError(f'ensures clause {nm} of {c.target} is literally false at the call site in line {line}')
                st.assume(f)
        out.append(ok(result, st))
        return out
