"""Loads the real source of /repo/s3transfer with ast on every run."""
import ast
import hashlib
import os

REPO_ROOT = os.environ.get('PYVC_REPO', '/repo')
PKG = 's3transfer'


class FuncInfo:
    def __init__(self, module, cls, node):
        self.module = module
        self.cls = cls
        self.node = node
        self.name = node.name
        self.qualname = f'{module.name}:{cls.name + "." if cls else ""}{node.name}'
        decos = [ast.unparse(d) for d in node.decorator_list]
        self.is_property = 'property' in decos
        self.is_classmethod = 'classmethod' in decos
        self.is_staticmethod = 'staticmethod' in decos
        self.is_generator = any(
            isinstance(n, (ast.Yield, ast.YieldFrom)) for n in _walk_no_nested(node)
        )
        self.lineno = node.lineno
        self.end_lineno = node.end_lineno

    def __repr__(self):
        return f'<Func {self.qualname}>'


def _walk_no_nested(fnode):
    """Walk a function body without descending into nested function/class definitions."""
    stack = list(fnode.body)
    while stack:
        n = stack.pop()
        yield n
        for c in ast.iter_child_nodes(n):
            if isinstance(c, (ast.FunctionDef, ast.AsyncFunctionDef, ast.ClassDef, ast.Lambda)):
                continue
            stack.append(c)


class ClassInfo:
    def __init__(self, module, node):
        self.module = module
        self.node = node
        self.name = node.name
        self.qualname = f'{module.name}:{node.name}'
        self.base_exprs = node.bases
        self.methods = {}
        self.setters = {}
        self.assigns = {}
        for item in node.body:
            if isinstance(item, ast.FunctionDef):
                decos = [ast.unparse(d) for d in item.decorator_list]
                if f'{item.name}.setter' in decos:
                    # @<name>.setter: kept beside the getter (which stays the method named <name>)
                    fi = FuncInfo(module, self, item)
                    fi.qualname = f'{module.name}:{self.name}.{item.name}.setter'
                    self.setters[item.name] = fi
                    continue
                self.methods[item.name] = FuncInfo(module, self, item)
            elif isinstance(item, ast.Assign):
                for t in item.targets:
                    if isinstance(t, ast.Name):
                        self.assigns[t.id] = item.value

    def __repr__(self):
        return f'<Class {self.qualname}>'


class ModuleInfo:
    def __init__(self, name, path):
        self.name = name
        self.path = path
        src = open(path, 'rb').read()
        self.sha256 = hashlib.sha256(src).hexdigest()
        self.source = src.decode()
        self.tree = ast.parse(self.source, filename=path)
        self.funcs = {}
        self.classes = {}
        self.assigns = {}
        self.imports = {}  # local name -> ('module', dotted) | ('from', module, name)
        self._scan(self.tree.body)

    def _scan(self, body):
        for item in body:
            if isinstance(item, ast.FunctionDef):
                self.funcs[item.name] = FuncInfo(self, None, item)
            elif isinstance(item, ast.ClassDef):
                self.classes[item.name] = ClassInfo(self, item)
            elif isinstance(item, ast.Assign):
                for t in item.targets:
                    if isinstance(t, ast.Name):
                        self.assigns[t.id] = item.value
            elif isinstance(item, ast.Import):
                for a in item.names:
                    self.imports[a.asname or a.name.split('.')[0]] = ('module', a.name if a.asname else a.name.split('.')[0])
            elif isinstance(item, ast.ImportFrom):
                for a in item.names:
                    self.imports[a.asname or a.name] = ('from', item.module, a.name)
            elif isinstance(item, ast.Try):
                # try: from X import Y / except ImportError: fallback  -> take the try branch
                self._scan(item.body)
            elif isinstance(item, ast.If):
                # platform switches (compat.py): take the else branch (POSIX)
                self._scan(item.orelse)


def first_store_order(fn):
    """local variable names of a function in the order of their first assignment in the source (parameters and the
    names of nested functions' own locals excluded)"""
    params = {a.arg for a in ast.walk(fn.args) if isinstance(a, ast.arg)}
    seen, out = set(), []
    stores = [n for n in ast.walk(fn) if isinstance(n, ast.Name) and isinstance(n.ctx, ast.Store)]
    stores += [ast.Name(id=h.name, ctx=ast.Store(), lineno=h.lineno, col_offset=h.col_offset) for h in ast.walk(fn)
               if isinstance(h, ast.ExceptHandler) and h.name]
    for n in sorted(stores, key=lambda n: (n.lineno, n.col_offset)):
        if n.id not in seen and n.id not in params:
            seen.add(n.id)
            out.append(n.id)
    return out


class _Alpha(ast.NodeTransformer):
    def __init__(self, mapping):
        self.mapping = mapping

    def visit_Name(self, n):
        if n.id in self.mapping:
            n.id = self.mapping[n.id]
        return n

    def visit_ExceptHandler(self, n):
        if n.name in self.mapping:
            n.name = self.mapping[n.name]
        self.generic_visit(n)
        return n


class Repo:
    def __init__(self, root=None):
        self.root = root or REPO_ROOT
        self.modules = {}
        pkgdir = os.path.join(self.root, PKG)
        for fn in sorted(os.listdir(pkgdir)):
            if fn.endswith('.py'):
                mod = PKG if fn == '__init__.py' else f'{PKG}.{fn[:-3]}'
                self.modules[mod] = ModuleInfo(mod, os.path.join(pkgdir, fn))
        self.alpha_renamed = {}
        self._alpha_normalize()

    def _alpha_normalize(self):
        """Sidecar contracts name local variables.  contracts/bindings.json records, per function, the locals in the
        order of their first assignment as they were when the contracts were written.  If a function now has the same
        number of locals, all recorded names that disappeared sit at positions where a new name appeared, the function
        was alpha-renamed: the AST is renamed back (in memory only) so that the contracts still attach.  Anything else
        (different number of locals, a recorded name still present elsewhere) is left alone."""
        import json
        p = os.path.join(os.path.dirname(os.path.dirname(os.path.abspath(__file__))), 'contracts', 'bindings.json')
        if not os.path.exists(p):
            return
        rec = json.load(open(p))
        for q, old in rec.items():
            fi = self.func(q)
            if fi is None:
                continue
            cur = first_store_order(fi.node)
            if cur == old or len(cur) != len(old):
                continue
            mapping = {}
            okm = True
            all_names = {n.id for n in ast.walk(fi.node) if isinstance(n, ast.Name)} | {a.arg for a in ast.walk(fi.node) if isinstance(a, ast.arg)}
            for a, b in zip(old, cur):
                if a != b and a in all_names:
                    okm = False          # the old name is still used somewhere: not a consistent rename
                    break
                if a != b:
                    if a in cur or b in old:
                        okm = False      # not a pure rename (names moved around)
                        break
                    mapping[b] = a
            if okm and mapping:
                _Alpha(mapping).visit(fi.node)
                self.alpha_renamed[q] = mapping

    def func(self, qualname):
        """'s3transfer.utils:ReadFileChunk.read' -> FuncInfo or None."""
        mod, _, rest = qualname.partition(':')
        m = self.modules.get(mod)
        if m is None:
            return None
        if '.' in rest:
            cn, fn = rest.split('.', 1)
            c = m.classes.get(cn)
            return c.methods.get(fn) if c else None
        return m.funcs.get(rest)

    def cls(self, qualname):
        mod, _, rest = qualname.partition(':')
        m = self.modules.get(mod)
        return m.classes.get(rest) if m else None

    def resolve_base(self, cinfo, bexpr):
        """Resolve a base-class expression to ClassInfo (in package) or a dotted external name."""
        if isinstance(bexpr, ast.Name):
            name = bexpr.id
            m = cinfo.module
            if name in m.classes:
                return m.classes[name]
            imp = m.imports.get(name)
            if imp and imp[0] == 'from' and imp[1] and imp[1].startswith(PKG):
                target = self.modules.get(imp[1])
                if target and imp[2] in target.classes:
                    return target.classes[imp[2]]
                if target:
                    # re-export through another module
                    imp2 = target.imports.get(imp[2])
                    if imp2 and imp2[0] == 'from':
                        return f'{imp2[1]}.{imp2[2]}'
            if imp and imp[0] == 'from':
                return f'{imp[1]}.{imp[2]}'
            return name
        return ast.unparse(bexpr)

    def mro(self, cinfo):
        out = [cinfo]
        cur = cinfo
        seen = {cinfo.qualname}
        while True:
            nxt = None
            for b in cur.base_exprs:
                r = self.resolve_base(cur, b)
                if isinstance(r, ClassInfo) and r.qualname not in seen:
                    nxt = r
                    break
            if nxt is None:
                break
            out.append(nxt)
            seen.add(nxt.qualname)
            cur = nxt
        return out

    def external_bases(self, cinfo):
        out = []
        for c in self.mro(cinfo):
            for b in c.base_exprs:
                r = self.resolve_base(c, b)
                if not isinstance(r, ClassInfo):
                    out.append(r)
        return out

    def find_method(self, cinfo, name, after=None):
        """Look a method up along the (single-inheritance) MRO; `after`: start after that class."""
        chain = self.mro(cinfo)
        if after is not None:
            idx = [c.qualname for c in chain].index(after.qualname)
            chain = chain[idx + 1:]
        for c in chain:
            if name in c.methods:
                return c.methods[name]
        return None

    def find_class_attr(self, cinfo, name):
        for c in self.mro(cinfo):
            if name in c.assigns:
                return c, c.assigns[name]
        return None, None

    def subclasses(self, cinfo):
        out = []
        for m in self.modules.values():
            for c in m.classes.values():
                if c is not cinfo and any(x.qualname == cinfo.qualname for x in self.mro(c)):
                    out.append(c)
        return out

    def shas(self):
        return {m.name: m.sha256 for m in self.modules.values()}
