"""Value domain of the pyvc symbolic executor.

Concrete Python constants (int, bool, str, bytes, None, float) are used as they are.
Symbolic scalars are z3 terms: Int sort = Python int, Real sort = Python float treated as a
mathematical real (assumption A-REAL), Bool sort = bool, String sort = str.
Everything with identity lives in the state's heap and is referred to by Ref.
"""
import z3

U = z3.DeclareSort('U')  # opaque values (clients, file objects, keys, ...)

_counter = [0]


def fresh_name(base):
    _counter[0] += 1
    return f'{base}!{_counter[0]}'


def reset_names():
    _counter[0] = 0


class Ref:
    """Reference to a heap object of the current state."""
    __slots__ = ('oid',)

    def __init__(self, oid):
        self.oid = oid

    def __eq__(self, other):
        return isinstance(other, Ref) and other.oid == self.oid

    def __hash__(self):
        return hash(('Ref', self.oid))

    def __repr__(self):
        return f'Ref({self.oid})'


class Opaque:
    """Uninterpreted value: only equality is known.  `kind` selects an external interface
    (e.g. 'client', 'fileobj') for attribute / method dispatch."""
    __slots__ = ('term', 'kind', 'label')

    def __init__(self, term, kind=None, label=None):
        if isinstance(term, str):
            label = label or term
            term = z3.Const(term, U)
        self.term = term
        self.kind = kind
        self.label = label or str(term)

    def __repr__(self):
        return f'Opaque({self.label}:{self.kind})'


class Opt:
    """Optional[T]: `is_none` is a z3 Bool, `val` the payload used when it is not None."""
    __slots__ = ('is_none', 'val')

    def __init__(self, is_none, val):
        self.is_none = is_none
        self.val = val

    def __repr__(self):
        return f'Opt({self.is_none}, {self.val!r})'


class FStr:
    """Structured result of str()/f-string formatting: list of literal strings and
    symbolic non-negative ints (assumption A-FMT: decimal formatting of a non-negative int is a
    non-empty, digit-only, injective string, so two FStr with literal parts free of digits at the
    joints are equal iff their components are)."""
    __slots__ = ('parts', 'spec')

    def __init__(self, parts, spec=False):
        self.spec = spec      # built by a contract (the expected value), not by the code under check
        out = []
        for p in parts:
            if isinstance(p, FStr):
                for q in p.parts:
                    _fs_add(out, q)
            else:
                _fs_add(out, p)
        self.parts = out

    def __repr__(self):
        return 'FStr(' + ' ++ '.join(repr(p) if isinstance(p, str) else f'<{p}>' for p in self.parts) + ')'


def _fs_add(out, p):
    if isinstance(p, bool):
        p = str(p)
    if isinstance(p, int):
        p = str(p)
    if isinstance(p, str):
        if p == '':
            return
        if out and isinstance(out[-1], str):
            out[-1] = out[-1] + p
            return
    out.append(p)


class ExcV:
    """Exception value. `cls` is a concrete class name of the modelled lattice."""
    __slots__ = ('cls', 'args', 'tag', 'attrs')

    def __init__(self, cls, args=(), tag=None, attrs=None):
        self.cls = cls
        self.args = tuple(args)
        self.tag = tag if tag is not None else fresh_name('exc')
        self.attrs = attrs or {}

    def __repr__(self):
        return f'ExcV({self.cls},{self.tag})'


class FuncRef:
    __slots__ = ('finfo',)

    def __init__(self, finfo):
        self.finfo = finfo

    def __repr__(self):
        return f'FuncRef({self.finfo.qualname})'


class ClassRef:
    __slots__ = ('cinfo',)

    def __init__(self, cinfo):
        self.cinfo = cinfo

    def __repr__(self):
        return f'ClassRef({self.cinfo.qualname})'


class ExtClassRef:
    """A class that is not part of the package (exception classes, BytesIO, ...)."""
    __slots__ = ('name',)

    def __init__(self, name):
        self.name = name

    def __eq__(self, o):
        return isinstance(o, ExtClassRef) and o.name == self.name

    def __hash__(self):
        return hash(('ExtClassRef', self.name))

    def __repr__(self):
        return f'ExtClassRef({self.name})'


class BoundMethod:
    __slots__ = ('self_val', 'finfo')

    def __init__(self, self_val, finfo):
        self.self_val = self_val
        self.finfo = finfo

    def __repr__(self):
        return f'BoundMethod({self.self_val!r}.{self.finfo.name})'


class ExtMethod:
    """Method of an opaque / builtin-modelled value."""
    __slots__ = ('self_val', 'name')

    def __init__(self, self_val, name):
        self.self_val = self_val
        self.name = name

    def __repr__(self):
        return f'ExtMethod({self.self_val!r}.{self.name})'


class Builtin:
    __slots__ = ('name',)

    def __init__(self, name):
        self.name = name

    def __repr__(self):
        return f'Builtin({self.name})'


class PartialV:
    __slots__ = ('func', 'args', 'kwargs')

    def __init__(self, func, args, kwargs):
        self.func = func
        self.args = tuple(args)
        self.kwargs = dict(kwargs)

    def __repr__(self):
        return f'PartialV({self.func!r})'


class Closure:
    __slots__ = ('node', 'env', 'finfo')

    def __init__(self, node, env, finfo):
        self.node = node
        self.env = env
        self.finfo = finfo


class ModuleRef:
    __slots__ = ('name',)

    def __init__(self, name):
        self.name = name

    def __repr__(self):
        return f'ModuleRef({self.name})'


class BytesV:
    """Byte string known only as a slice of a ghost base sequence: base[lo:hi].
    `base` is a label (str); lo/hi are z3 Int or int.  Length = hi - lo."""
    __slots__ = ('base', 'lo', 'hi')

    def __init__(self, base, lo, hi):
        self.base = base
        self.lo = lo
        self.hi = hi

    def length(self):
        return self.hi - self.lo

    def __repr__(self):
        return f'BytesV({self.base}[{self.lo}:{self.hi}])'


class HObj:
    """Heap object.  kind: 'obj' (fields), 'list' (items: python list), 'dict' (items: dict with
    concrete hashable keys), 'set', 'smap' (symbolic map), 'slist' (symbolic sequence),
    'lock', 'event', ..."""
    __slots__ = ('kind', 'cls', 'fields', 'items', 'meta')

    def __init__(self, kind, cls=None, fields=None, items=None, meta=None):
        self.kind = kind
        self.cls = cls
        self.fields = fields if fields is not None else {}
        self.items = items
        self.meta = meta if meta is not None else {}

    def clone(self):
        items = self.items
        if isinstance(items, list):
            items = list(items)
        elif isinstance(items, dict):
            items = dict(items)
        elif isinstance(items, set):
            items = set(items)
        return HObj(self.kind, self.cls, dict(self.fields), items, dict(self.meta))


def is_sym(v):
    return isinstance(v, z3.ExprRef)


def is_int_like(v):
    return (isinstance(v, int) and not isinstance(v, bool)) or (is_sym(v) and z3.is_int(v))


def is_real_like(v):
    return isinstance(v, float) or (is_sym(v) and z3.is_real(v))


def is_bool_like(v):
    return isinstance(v, bool) or (is_sym(v) and z3.is_bool(v))


def to_z3_bool(v):
    if isinstance(v, bool):
        return z3.BoolVal(v)
    return v


def to_real(v):
    if isinstance(v, bool):
        v = int(v)
    if isinstance(v, int):
        return z3.RealVal(v)
    if isinstance(v, float):
        if v == float('inf') or v != v:
            raise ValueError('non-finite float')
        return z3.RealVal(repr(v))
    if z3.is_int(v):
        return z3.ToReal(v)
    return v


def to_int_term(v):
    if isinstance(v, bool):
        return z3.IntVal(int(v))
    if isinstance(v, int):
        return z3.IntVal(v)
    return v
