"""Expression evaluation."""
import ast

import z3

from .engine import BUILTIN_EXC, EngineError, Res, ok, rs
from .repo import ClassInfo
from .state import State
from .values import (
    BoundMethod, Builtin, BytesV, ClassRef, Closure, ExcV, ExtClassRef, ExtMethod, FStr, FuncRef,
    HObj, ModuleRef, Opaque, Opt, PartialV, Ref, U, fresh_name, is_bool_like, is_int_like,
    is_real_like, is_sym, to_int_term, to_real, to_z3_bool,
)

PY_BUILTINS = {
    'len', 'min', 'max', 'int', 'float', 'str', 'repr', 'isinstance', 'issubclass', 'hasattr',
    'getattr', 'setattr', 'range', 'iter', 'next', 'list', 'dict', 'set', 'tuple', 'sorted',
    'any', 'all', 'abs', 'open', 'type', 'super', 'enumerate', 'zip', 'callable', 'bool', 'id',
    'print', 'sum', 'bytes', 'object',
}


RESP_HAS = z3.Function('resp_has', U, U, z3.BoolSort())


class ExprMixin:
    # -------------------------------------------------------------- helpers
    def eval_list(self, exprs, st):
        """Evaluate expressions left to right. -> list of Res whose val is a python list."""
        results = [ok([], st)]
        for e in exprs:
            nxt = []
            for r in results:
                if r.kind != 'ok':
                    nxt.append(r)
                    continue
                for r2 in self.eval(e, r.st):
                    if r2.kind != 'ok':
                        nxt.append(r2)
                    else:
                        nxt.append(ok(r.val + [r2.val], r2.st))
            results = nxt
        return results

    def bind(self, results, fn):
        out = []
        for r in results:
            if r.kind != 'ok':
                out.append(r)
            else:
                out.extend(fn(r.val, r.st))
        return out

    def lookup_name(self, name, st, node=None):
        if name in st.env:
            return st.env[name]
        cdef = st.env.get('$classdef')
        if cdef is not None and name in cdef.assigns and st.env.get('$evaluating') != name:
            return self.class_attr(cdef, name, st)[0].val
        mod = st.env.get('$mod') or st.ghost.get('module')
        if mod is not None:
            try:
                return self.thaw(self.module_global(mod, name, st), st)
            except KeyError:
                pass
        if name in BUILTIN_EXC:
            return ExtClassRef(name)
        if name in PY_BUILTINS:
            return Builtin(name)
        raise EngineError(f'unresolved name {name} at line {getattr(node, "lineno", "?")}')

    # -------------------------------------------------------------- main dispatcher
    def eval(self, e, st, mod=None):
        if mod is not None and '$mod' not in st.env:
            st.env['$mod'] = mod
        m = getattr(self, 'ev_' + type(e).__name__, None)
        if m is None:
            raise EngineError(f'expression {type(e).__name__} at line {getattr(e, "lineno", "?")}')
        return m(e, st)

    def ev_Constant(self, e, st):
        v = e.value
        if isinstance(v, float):
            if v != v or v in (float('inf'), float('-inf')):
                raise EngineError('non-finite float constant')
        return [ok(v, st)]

    def ev_Name(self, e, st):
        return [ok(self.lookup_name(e.id, st, e), st)]

    def ev_Tuple(self, e, st):
        if any(isinstance(x, ast.Starred) for x in e.elts):
            raise EngineError('starred in tuple')
        return self.bind(self.eval_list(e.elts, st), lambda vs, s: [ok(tuple(vs), s)])

    def ev_List(self, e, st):
        if any(isinstance(x, ast.Starred) for x in e.elts):
            raise EngineError('starred in list')
        return self.bind(self.eval_list(e.elts, st),
                         lambda vs, s: [ok(s.alloc(HObj('list', items=list(vs))), s)])

    def ev_Set(self, e, st):
        return self.bind(self.eval_list(e.elts, st),
                         lambda vs, s: [ok(s.alloc(HObj('set', items=set(vs))), s)])

    def ev_Dict(self, e, st):
        keys, vals, splats = [], [], []
        for k, v in zip(e.keys, e.values):
            if k is None:
                splats.append(v)
            else:
                keys.append(k)
                vals.append(v)
        if splats:
            raise EngineError('dict splat in literal')

        def fin(vs, s):
            n = len(keys)
            ks, xs = vs[:n], vs[n:]
            d = {}
            for k, x in zip(ks, xs):
                d[self.hashable_key(k)] = x
            return [ok(s.alloc(HObj('dict', items=d)), s)]
        return self.bind(self.eval_list(keys + vals, st), fin)

    def hashable_key(self, k):
        if isinstance(k, (str, int, bool, bytes, type(None), tuple, Ref, ExtClassRef)):
            return k
        if isinstance(k, Opaque) and k.kind == 'tag':
            return ('$opaque', k.label)
        if isinstance(k, FStr) and all(isinstance(p, str) for p in k.parts):
            return ''.join(k.parts)
        if isinstance(k, FStr):
            # computed (not statically known) member name: distinct from every literal key
            return ('$computed_key', self.fstr_as_u(k).sexpr())
        raise EngineError(f'symbolic dict key {k!r} in concrete dict')

    def ev_JoinedStr(self, e, st):
        exprs = []
        for v in e.values:
            if isinstance(v, ast.FormattedValue):
                if v.format_spec is not None:
                    raise EngineError('format spec in f-string')
                exprs.append(v.value)
        def fin(vs, s):
            it = iter(vs)
            parts = []
            for v in e.values:
                if isinstance(v, ast.Constant):
                    parts.append(v.value)
                else:
                    parts.append(self.fmt_value(next(it), s, e.lineno))
            return [ok(self.mk_fstr(parts), s)]
        return self.bind(self.eval_list(exprs, st), fin)

    def mk_fstr(self, parts):
        f = FStr(parts)
        if all(isinstance(p, str) for p in f.parts):
            return ''.join(f.parts)
        return f

    def fmt_value(self, v, st, line):
        """str(v) as an FStr component."""
        if isinstance(v, (str, FStr)):
            return v
        if isinstance(v, bool):
            return str(v)
        if isinstance(v, int):
            return str(v)
        if is_sym(v) and z3.is_int(v):
            return v   # A-FMT needs non-negative ints: obligation generated where the string is compared
        if v is None:
            return 'None'
        if isinstance(v, Opaque) and v.kind == 'str':
            return v
        if isinstance(v, Opaque) and v.kind == 'exception':
            f = z3.Function('str_of', U, U)
            return Opaque(f(v.term), kind='str', label=f'str({v.label})')
        # anything else: formatting of an object into a message -- content irrelevant
        return Opaque(fresh_name('fmt'), kind='str')

    def ev_BoolOp(self, e, st):
        is_and = isinstance(e.op, ast.And)

        def step(i, st):
            out = []
            for r in self.eval(e.values[i], st):
                if r.kind != 'ok':
                    out.append(r)
                    continue
                if i == len(e.values) - 1:
                    out.append(r)
                    continue
                t = self.truthy(r.val, r.st)
                if isinstance(t, bool):
                    if t == is_and:
                        out.extend(step(i + 1, r.st))
                    else:
                        out.append(r)
                    continue
                # symbolic: try to stay in one path when the rest is pure & boolean
                for taken, s2 in self.branch(r.st, t):
                    if taken == is_and:
                        out.extend(step(i + 1, s2))
                    else:
                        out.append(ok(r.val if not is_bool_like(r.val) else (not is_and), s2))
            return out
        return step(0, st)

    def ev_UnaryOp(self, e, st):
        def fin(v, s):
            if isinstance(e.op, ast.Not):
                t = self.truthy(v, s)
                return [ok((not t) if isinstance(t, bool) else z3.Not(t), s)]
            if isinstance(e.op, ast.USub):
                v = self.unwrap_opt(v, s, 'neg', e.lineno)
                return [ok(-v, s)]
            if isinstance(e.op, ast.UAdd):
                return [ok(v, s)]
            raise EngineError('unary op')
        return self.bind(self.eval(e.operand, st), fin)

    def ev_IfExp(self, e, st):
        out = []
        for r in self.eval(e.test, st):
            if r.kind != 'ok':
                out.append(r)
                continue
            for taken, s2 in self.branch(r.st, self.truthy(r.val, r.st)):
                out.extend(self.eval(e.body if taken else e.orelse, s2))
        return out

    def ev_BinOp(self, e, st):
        def fin(vs, s):
            return self.binop(e.op, vs[0], vs[1], s, e.lineno)
        return self.bind(self.eval_list([e.left, e.right], st), fin)

    def binop(self, op, a, b, st, line):
        # (is_inf: module-level helper below)
        a = self.unwrap_opt(a, st, 'lhs', line)
        b = self.unwrap_opt(b, st, 'rhs', line)
        # non-finite floats: float('inf') and whatever is computed from it stays the marker "non-finite" (sign and NaN are not
        # tracked: the marker is only compared against finite numbers, as +inf, and tested for by contracts)
        if (is_inf(a) or is_inf(b)) and isinstance(op, (ast.Add, ast.Sub, ast.Mult, ast.Div)) and \
                all(is_inf(x) or is_int_like(x) or is_real_like(x) for x in (a, b)):
            return [ok(('$inf', 'inf'), st)]
        # opaque strings: concatenation is an uninterpreted (injective-agnostic) function
        if isinstance(op, ast.Add) and ((isinstance(a, Opaque) and a.kind in ('str', 'fileobj_or_name')) or (isinstance(b, Opaque) and b.kind == 'str')) \
                and isinstance(a, (Opaque, str, FStr)) and isinstance(b, (Opaque, str, FStr)):
            f = z3.Function('str_concat', U, U, U)
            return [ok(Opaque(f(self.as_u_term(a, st), self.as_u_term(b, st)), kind='str', label='concat'), st)]
        # symbolic strings: concatenation
        if isinstance(op, ast.Add) and ((is_sym(a) and z3.is_string(a)) or (is_sym(b) and z3.is_string(b))) and \
                all(isinstance(x, str) or (is_sym(x) and z3.is_string(x)) for x in (a, b)):
            return [ok(z3.Concat(z3.StringVal(a) if isinstance(a, str) else a, z3.StringVal(b) if isinstance(b, str) else b), st)]
        # list + list: a new list (kept as segments when an operand has symbolic length)
        if isinstance(op, ast.Add) and isinstance(a, Ref) and isinstance(b, Ref) and \
                st.obj(a).kind in ('list', 'slist', 'seglist') and st.obj(b).kind in ('list', 'slist', 'seglist'):
            def segs(r):
                h = st.obj(r)
                if h.kind == 'list':
                    return [('items', list(h.items))]
                if h.kind == 'slist':
                    return [('slist', r)]
                return list(h.meta['segments'])
            ss = segs(a) + segs(b)
            if all(k == 'items' for k, _ in ss):
                return [ok(st.alloc(HObj('list', items=[x for _, xs in ss for x in xs])), st)]
            return [ok(st.alloc(HObj('seglist', meta={'segments': ss})), st)]
        # strings
        if isinstance(a, (str, FStr)) or isinstance(b, (str, FStr)):
            if isinstance(op, ast.Add) and isinstance(a, (str, FStr)) and isinstance(b, (str, FStr)):
                return [ok(self.mk_fstr([a, b]), st)]
            if isinstance(op, ast.Mod) or isinstance(op, ast.Add):
                return [ok(Opaque(fresh_name('strfmt'), kind='str'), st)]
            raise EngineError('string operator')
        # byte views
        if isinstance(a, BytesV) or isinstance(b, BytesV) or isinstance(a, bytes) or isinstance(b, bytes):
            return self.bytes_binop(op, a, b, st, line)
        # lists
        if isinstance(a, Ref) and isinstance(b, Ref) and isinstance(op, ast.Add):
            ha, hb = st.obj(a), st.obj(b)
            if ha.kind == 'list' and hb.kind == 'list':
                return [ok(st.alloc(HObj('list', items=list(ha.items) + list(hb.items))), st)]
        if isinstance(a, tuple) and isinstance(b, tuple) and isinstance(op, ast.Add):
            return [ok(a + b, st)]
        if not ((is_int_like(a) or is_real_like(a) or isinstance(a, bool)) and (is_int_like(b) or is_real_like(b) or isinstance(b, bool))):
            raise EngineError(f'binary operator on {type(a).__name__}, {type(b).__name__} at line {line}')
        conc = not is_sym(a) and not is_sym(b)
        real = is_real_like(a) or is_real_like(b)
        if isinstance(op, (ast.Add, ast.Sub, ast.Mult)):
            if conc:
                return [ok({ast.Add: a + b, ast.Sub: a - b, ast.Mult: a * b}[type(op)], st)]
            if real:
                a, b = to_real(a), to_real(b)
            else:
                a, b = to_int_term(a), to_int_term(b)
            return [ok({ast.Add: a + b, ast.Sub: a - b, ast.Mult: a * b}[type(op)], st)]
        if isinstance(op, ast.Div):
            out = []
            zero = (b == 0)
            for is_zero, s2 in self.branch(st, zero):
                if is_zero:
                    out.append(rs(ExcV('ZeroDivisionError'), s2))
                elif conc:
                    out.append(ok(a / b, s2))
                else:
                    for x in (a, b):
                        if is_sym(x) and z3.is_int(x) and self.ieee_checks:
                            self.oblige(s2, f'ieee.operand_exact@{line}', z3.And(x > -2**53, x < 2**53), kind='safety', line=line)
                    out.append(ok(to_real(a) / to_real(b), s2))
            return out
        if isinstance(op, (ast.FloorDiv, ast.Mod)):
            if real:
                raise EngineError('float floor-division')
            out = []
            for is_zero, s2 in self.branch(st, b == 0):
                if is_zero:
                    out.append(rs(ExcV('ZeroDivisionError'), s2))
                elif conc:
                    out.append(ok(a // b if isinstance(op, ast.FloorDiv) else a % b, s2))
                else:
                    ta, tb = to_int_term(a), to_int_term(b)
                    # z3 div/mod are Euclidean; Python floors: adjust for negative divisors
                    q = z3.If(tb > 0, ta / tb, (-ta) / (-tb))
                    if isinstance(op, ast.FloorDiv):
                        out.append(ok(q, s2))
                    else:
                        out.append(ok(ta - tb * q, s2))
            return out
        if isinstance(op, ast.Pow):
            if conc:
                return [ok(a ** b, st)]
            raise EngineError('symbolic power')
        raise EngineError(f'operator {type(op).__name__}')

    def bytes_binop(self, op, a, b, st, line):
        if isinstance(op, ast.Add):
            if a == b'':
                return [ok(b, st)]
            if b == b'':
                return [ok(a, st)]
            if isinstance(a, BytesV) and isinstance(b, BytesV) and a.base == b.base:
                # concatenation of adjacent views stays a view; emptiness of either side is fine
                adj = z3.Or(a.hi == b.lo, a.hi == a.lo, b.hi == b.lo) if (is_sym(a.hi) or is_sym(b.lo) or is_sym(a.lo) or is_sym(b.hi)) else (a.hi == b.lo or a.hi == a.lo or b.hi == b.lo)
                self.oblige(st, f'safety.adjacent_views@{line}', adj, kind='safety', line=line,
                            note='byte concatenation is modelled only for adjacent views of one base')
                st.assume(adj)
                lo = z3.If(a.hi == a.lo, to_int_term(b.lo), to_int_term(a.lo))
                hi = z3.If(b.hi == b.lo, to_int_term(a.hi) if True else None, to_int_term(b.hi))
                # if a is empty result is b; if b is empty result is a
                hi = z3.If(a.hi == a.lo, to_int_term(b.hi), hi)
                return [ok(BytesV(a.base, z3.simplify(lo), z3.simplify(hi)), st)]
        raise EngineError(f'bytes operator at line {line}')

    def ev_Compare(self, e, st):
        def fin(vs, s):
            res = True
            for i, op in enumerate(e.ops):
                c = self.compare(op, vs[i], vs[i + 1], s, e.lineno)
                if isinstance(c, bool):
                    if not c:
                        return [ok(False, s)]
                    continue
                res = c if res is True else z3.And(res, c)
            return [ok(res, s)]
        return self.bind(self.eval_list([e.left] + list(e.comparators), st), fin)

    def value_eq(self, a, b, st):
        """Python == on modelled values -> bool or z3 Bool."""
        if isinstance(a, Opt) or isinstance(b, Opt):
            if a is None:
                return b.is_none
            if b is None:
                return a.is_none
            if isinstance(a, Opt) and isinstance(b, Opt):
                return z3.Or(z3.And(a.is_none, b.is_none),
                             z3.And(z3.Not(a.is_none), z3.Not(b.is_none), to_z3_bool(self.value_eq(a.val, b.val, st))))
            o, x = (a, b) if isinstance(a, Opt) else (b, a)
            return z3.And(z3.Not(o.is_none), to_z3_bool(self.value_eq(o.val, x, st)))
        if a is None or b is None:
            if a is None and b is None:
                return True
            other = b if a is None else a
            if is_sym(other) or isinstance(other, (int, str, float, Ref, Opaque, FStr, ExcV, BytesV, bytes, tuple)):
                return False
            raise EngineError('== None on ' + type(other).__name__)
        if isinstance(a, FStr) or isinstance(b, FStr):
            # A-FMT side condition: the ints formatted BY THE CODE are non-negative (then component-wise equality is
            # string equality, whatever the expected value on the contract side contains); asked on the path of the
            # comparison, once per formatted term and path condition
            for x in (a, b):
                if isinstance(x, FStr) and not getattr(x, 'spec', False):
                    for part in x.parts:
                        key = (part.sexpr(), len(st.pc)) if is_sym(part) and z3.is_int(part) else None
                        if key is not None and key not in self._fmt_checked:
                            self._fmt_checked.add(key)
                            self.oblige(st, 'safety.fmt_nonneg', part >= 0, kind='safety')
            return self.fstr_eq(a, b)
        if is_sym(a) and z3.is_string(a) and isinstance(b, str):
            return a == z3.StringVal(b)
        if is_sym(b) and z3.is_string(b) and isinstance(a, str):
            return b == z3.StringVal(a)
        if (is_int_like(a) or is_real_like(a) or isinstance(a, bool)) and (is_int_like(b) or is_real_like(b) or isinstance(b, bool)):
            if not is_sym(a) and not is_sym(b):
                return a == b
            if is_real_like(a) or is_real_like(b):
                return to_real(a) == to_real(b)
            if is_bool_like(a) and is_bool_like(b):
                return to_z3_bool(a) == to_z3_bool(b)
            return to_int_term(a) == to_int_term(b)
        if is_sym(a) and is_sym(b):
            if a.sort() == b.sort():
                return a == b
            return False
        if isinstance(a, Opaque) and isinstance(b, Opaque):
            return a.term == b.term
        if isinstance(a, Ref) and isinstance(b, Ref):
            if a.oid == b.oid:
                return True
            ha, hb = st.obj(a), st.obj(b)
            if ha.kind == hb.kind and ha.kind in ('list', 'tuple'):
                if len(ha.items) != len(hb.items):
                    return False
                cs = [self.value_eq(x, y, st) for x, y in zip(ha.items, hb.items)]
                if all(isinstance(c, bool) for c in cs):
                    return all(cs)
                return z3.And([to_z3_bool(c) for c in cs])
            if ha.kind == 'set' and hb.kind == 'set':
                return ha.items == hb.items
            if ha.kind == 'obj' and hb.kind == 'obj':
                return False
            raise EngineError(f'== on heap objects {ha.kind}/{hb.kind}')
        if isinstance(a, (str, bytes, int, float, bool, tuple)) and isinstance(b, (str, bytes, int, float, bool, tuple)):
            if isinstance(a, tuple) and isinstance(b, tuple):
                if len(a) != len(b):
                    return False
                cs = [self.value_eq(x, y, st) for x, y in zip(a, b)]
                if all(isinstance(c, bool) for c in cs):
                    return all(cs)
                return z3.And([to_z3_bool(c) for c in cs])
            return a == b
        if isinstance(a, ExtClassRef) and isinstance(b, ExtClassRef):
            return a.name == b.name
        if isinstance(a, BytesV) or isinstance(b, BytesV):
            if a == b'' or b == b'':
                v = a if isinstance(a, BytesV) else b
                return (v.hi - v.lo) == 0
        if type(a) != type(b):
            if isinstance(a, (Ref, Opaque, ExcV, ClassRef, FuncRef)) or isinstance(b, (Ref, Opaque, ExcV, ClassRef, FuncRef)):
                if isinstance(a, Opaque) or isinstance(b, Opaque):
                    o = a if isinstance(a, Opaque) else b
                    x = b if isinstance(a, Opaque) else a
                    if (o.kind == 'str' or o.kind in getattr(self.registry, 'maybe_str_kinds', ())) and isinstance(x, (str, FStr)):
                        # an opaque string against a known one: equality of their images under the (injective) embedding
                        # of strings into opaque values -- undetermined unless something else is known about `o`
                        return o.term == self.as_u_term(x, st)
                return False
        raise EngineError(f'== on {type(a).__name__}, {type(b).__name__}')

    def fstr_eq(self, a, b):
        pa = a.parts if isinstance(a, FStr) else ([a] if a != '' else [])
        pb = b.parts if isinstance(b, FStr) else ([b] if b != '' else [])
        if not all(isinstance(p, str) or is_sym(p) for p in pa + pb):
            raise EngineError('FStr with opaque component compared')
        # A-FMT: same skeleton -> componentwise; digit-free literal joints required
        if len(pa) != len(pb):
            # try to normalise concrete ints in literals: "12" vs <x>
            return self._fstr_eq_general(pa, pb)
        conj = []
        for x, y in zip(pa, pb):
            if isinstance(x, str) and isinstance(y, str):
                if x != y:
                    return self._fstr_eq_general(pa, pb)
            elif isinstance(x, str) or isinstance(y, str):
                return self._fstr_eq_general(pa, pb)
            else:
                conj.append(x == y)
        for parts in (pa, pb):
            for i, p in enumerate(parts):
                if isinstance(p, str):
                    if i > 0 and p[0].isdigit() or i < len(parts) - 1 and p[-1].isdigit():
                        raise EngineError('A-FMT: literal with digit next to a formatted int')
                elif i > 0 and not isinstance(parts[i - 1], str):
                    raise EngineError('A-FMT: two adjacent formatted ints')
        return z3.And(conj) if conj else True

    def _fstr_eq_general(self, pa, pb):
        # different skeletons: decide by tokenising literals into digit / non-digit runs
        import re

        def tok(parts):
            out = []
            for p in parts:
                if isinstance(p, str):
                    for m in re.finditer(r'\d+|\D+', p):
                        s = m.group(0)
                        out.append(int(s) if s.isdigit() and (s == '0' or s[0] != '0') else s)
                else:
                    out.append(p)
            return out
        ta, tb = tok(pa), tok(pb)
        if len(ta) != len(tb):
            return False
        conj = []
        for x, y in zip(ta, tb):
            xs, ys = isinstance(x, str), isinstance(y, str)
            if xs and ys:
                if x != y:
                    return False
            elif xs or ys:
                return False
            else:
                c = (to_int_term(x) == to_int_term(y))
                conj.append(c)
        return z3.simplify(z3.And(conj)) if conj else True

    def compare(self, op, a, b, st, line):
        if isinstance(op, (ast.Is, ast.IsNot)):
            r = self.identity(a, b, st)
            if isinstance(op, ast.IsNot):
                r = (not r) if isinstance(r, bool) else z3.Not(r)
            return r
        if isinstance(op, (ast.Eq, ast.NotEq)):
            r = self.value_eq(a, b, st)
            if isinstance(op, ast.NotEq):
                r = (not r) if isinstance(r, bool) else z3.Not(r)
            return r
        if isinstance(op, (ast.In, ast.NotIn)):
            r = self.contains(b, a, st, line)
            if isinstance(op, ast.NotIn):
                r = (not r) if isinstance(r, bool) else z3.Not(r)
            return r
        a = self.unwrap_opt(a, st, 'cmp', line)
        b = self.unwrap_opt(b, st, 'cmp', line)
        # +infinity (float('inf') and anything computed from it, see binop) against a finite number
        inf_a, inf_b = is_inf(a), is_inf(b)
        if (inf_a or inf_b) and not (inf_a and inf_b) and (is_int_like(b) or is_real_like(b) or is_int_like(a) or is_real_like(a)):
            big_left = inf_a
            return {ast.Lt: not big_left, ast.LtE: not big_left, ast.Gt: big_left, ast.GtE: big_left}[type(op)]
        if not ((is_int_like(a) or is_real_like(a)) and (is_int_like(b) or is_real_like(b))):
            raise EngineError(f'ordering comparison on {type(a).__name__}, {type(b).__name__} at line {line}')
        if not is_sym(a) and not is_sym(b):
            return {ast.Lt: a < b, ast.LtE: a <= b, ast.Gt: a > b, ast.GtE: a >= b}[type(op)]
        if is_real_like(a) or is_real_like(b):
            a, b = to_real(a), to_real(b)
        else:
            a, b = to_int_term(a), to_int_term(b)
        return {ast.Lt: a < b, ast.LtE: a <= b, ast.Gt: a > b, ast.GtE: a >= b}[type(op)]

    def identity(self, a, b, st):
        if isinstance(a, Opt) or isinstance(b, Opt):
            if a is None:
                return b.is_none
            if b is None:
                return a.is_none
            raise EngineError('is between optionals')
        if a is None or b is None:
            return a is None and b is None
        if isinstance(a, Ref) and isinstance(b, Ref):
            return a.oid == b.oid
        if isinstance(a, Opaque) and isinstance(b, Opaque):
            return a.term == b.term
        if isinstance(a, bool) and isinstance(b, bool):
            return a == b
        if isinstance(a, ExtClassRef) and isinstance(b, ExtClassRef):
            return a.name == b.name
        if isinstance(a, ClassRef) and isinstance(b, ClassRef):
            return a.cinfo.qualname == b.cinfo.qualname
        if type(a) != type(b):
            return False
        raise EngineError(f'is on {type(a).__name__}')

    def contains(self, container, item, st, line):
        item_u = item
        if isinstance(container, Opt):
            container = self.unwrap_opt(container, st, 'in', line)
        if isinstance(container, tuple) and len(container) == 2 and (isinstance(container[0], str) and container[0] == 'frozenlist'):
            container = container[1]
        if isinstance(container, tuple):
            items = list(container)
        elif isinstance(container, Ref):
            h = st.obj(container)
            if h.kind in ('list', 'set', 'tuple'):
                items = list(h.items)
            elif h.kind == 'dict':
                items = list(h.items.keys())
            elif h.kind == 'smap':
                return self.smap_contains(h, item, st)
            elif h.kind == 'sset':
                return z3.Select(h.meta['present'], self.key_term(item, h))
            elif h.kind == 'symdict':
                return self.symdict_contains(h, item, st)
            else:
                raise EngineError(f'in on {h.kind}')
        elif isinstance(container, Opaque) and container.kind == 'respdict':
            # membership in a response mapping: a fact about the response (same answer when asked again), recorded
            from .state import Event
            b = RESP_HAS(container.term, self.as_u_term(item, st))
            st.trace.append(Event('read', 'respdict.__contains__', container, (item,), {}, b, line, st.held))
            return b
        elif isinstance(container, str) or (is_sym(container) and z3.is_string(container)):
            # substring test on strings
            if isinstance(container, str) and isinstance(item_u, str):
                return item_u in container
            if isinstance(item_u, str) or (is_sym(item_u) and z3.is_string(item_u)):
                return z3.Contains(z3.StringVal(container) if isinstance(container, str) else container,
                                   z3.StringVal(item_u) if isinstance(item_u, str) else item_u)
            raise EngineError(f'in on str with a {type(item_u).__name__} item at line {line}')
        else:
            raise EngineError(f'in on {type(container).__name__} at line {line}')
        if is_sym(item_u) and z3.is_string(item_u):
            items = [x for x in items if isinstance(x, str) or (is_sym(x) and z3.is_string(x))]
        cs = [self.value_eq(item_u, x, st) for x in items]
        if all(isinstance(c, bool) for c in cs):
            return any(cs)
        return z3.Or([to_z3_bool(c) for c in cs])

    def ev_Attribute(self, e, st):
        return self.bind(self.eval(e.value, st), lambda v, s: self.getattr_value(v, e.attr, s, e.lineno))

    def ev_Subscript(self, e, st):
        if isinstance(e.slice, ast.Slice):
            parts = [e.value] + [x for x in (e.slice.lower, e.slice.upper) if x is not None]
            if e.slice.step is not None:
                raise EngineError('slice step')

            def fin(vs, s):
                it = iter(vs[1:])
                lo = next(it) if e.slice.lower is not None else None
                hi = next(it) if e.slice.upper is not None else None
                return self.slice_value(vs[0], lo, hi, s, e.lineno)
            return self.bind(self.eval_list(parts, st), fin)
        return self.bind(self.eval_list([e.value, e.slice], st),
                         lambda vs, s: self.getitem(vs[0], vs[1], s, e.lineno))

    def ev_Call(self, e, st):
        return self.eval_call(e, st)

    def ev_NamedExpr(self, e, st):
        """(name := value): binds the local and evaluates to the value"""
        if not isinstance(e.target, ast.Name):
            raise EngineError('walrus target')

        def fin(v, s):
            s.env[e.target.id] = v
            return [ok(v, s)]
        return self.bind(self.eval(e.value, st), fin)

    def ev_Lambda(self, e, st):
        return [ok(Closure(e, dict(st.env), None), st)]

    def ev_ListComp(self, e, st):
        return self.eval_comprehension(e, st, 'list')

    def ev_GeneratorExp(self, e, st):
        return self.eval_comprehension(e, st, 'list')

    def ev_Starred(self, e, st):
        raise EngineError('starred expression')


def is_inf(v):
    return isinstance(v, tuple) and len(v) == 2 and isinstance(v[0], str) and v[0] == '$inf'
