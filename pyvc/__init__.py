"""pyvc -- contract-based VC generation for the real source of boto/s3transfer."""
from . import engine as _engine
from .calls import CallMixin
from .exprs import ExprMixin
from .models import ModelMixin
from .stmts import StmtMixin
from .verify import VerifyMixin
from .engine import EngineError


class Engine(VerifyMixin, ModelMixin, CallMixin, StmtMixin, ExprMixin, _engine.Engine):
    def __init__(self, *a, **kw):
        super().__init__(*a, **kw)
        self.racy_reads = set()


__all__ = ['Engine', 'EngineError']
