"""Statement execution: returns list of (outcome, state); outcome = (kind, value) with kind in
normal / return / raise / break / continue."""
import ast

import z3

from .engine import EngineError, ok, rs
from .state import Event, LoopSummary
from .values import (
    BytesV, ExcV, ExtClassRef, HObj, Opaque, Opt, Ref, ClassRef, U, fresh_name, is_sym, to_z3_bool,
)

NORMAL = ('normal', None)


def raise_out(e):
    return ('raise', e)


class StmtMixin:
    def exec_block(self, stmts, st):
        results = [(NORMAL, st)]
        for s in stmts:
            nxt = []
            for out, s1 in results:
                if out[0] != 'normal':
                    nxt.append((out, s1))
                else:
                    nxt.extend(self.exec_stmt(s, s1))
            results = nxt
            self.paths_guard(len(results))
            if not results:
                break
        return results

    def paths_guard(self, n):
        if n > self.max_paths:
            raise EngineError(f'path explosion (> {self.max_paths} live paths)')

    def exec_stmt(self, s, st):
        self.executed_nodes.add(id(s)); self.executed_all.add(id(s))     # reached on a feasible path (branches are pruned eagerly): dead-code-under-contract report
        m = getattr(self, 'ex_' + type(s).__name__, None)
        if m is None:
            raise EngineError(f'statement {type(s).__name__} at line {s.lineno}')
        return m(s, st)

    def lift(self, results, fn):
        """Expression results -> statement outcomes."""
        out = []
        for r in results:
            if r.kind == 'raise':
                out.append((raise_out(r.val), r.st))
            else:
                out.extend(fn(r.val, r.st))
        return out

    # ------------------------------------------------------------------ simple statements
    def is_dropped(self, s):
        """Drop list: docstrings and logger.* calls with effect-free arguments."""
        if isinstance(s, ast.Expr):
            v = s.value
            if isinstance(v, ast.Constant) and isinstance(v.value, str):
                return True
            if (isinstance(v, ast.Call) and isinstance(v.func, ast.Attribute)
                    and isinstance(v.func.value, ast.Name) and v.func.value.id == 'logger'):
                for a in list(v.args) + [k.value for k in v.keywords]:
                    if not self.effect_free(a):
                        raise EngineError(f'logger call with effectful argument at line {s.lineno}')
                return True
        return False

    def effect_free(self, e):
        for n in ast.walk(e):
            if isinstance(n, (ast.Call, ast.Await, ast.Yield, ast.YieldFrom, ast.NamedExpr)):
                return False
        return True

    def ex_Expr(self, s, st):
        if self.is_dropped(s):
            self.dropped[self.cur_root] = self.dropped.get(self.cur_root, 0) + 1
            return [(NORMAL, st)]
        if isinstance(s.value, (ast.Yield, ast.YieldFrom)):
            return self.exec_yield(s.value, st)
        return self.lift(self.eval(s.value, st), lambda v, s1: [(NORMAL, s1)])

    def ex_Pass(self, s, st):
        return [(NORMAL, st)]

    def ex_Break(self, s, st):
        return [(('break', None), st)]

    def ex_Continue(self, s, st):
        return [(('continue', None), st)]

    def ex_Return(self, s, st):
        if s.value is None:
            return [(('return', None), st)]
        return self.lift(self.eval(s.value, st), lambda v, s1: [(('return', v), s1)])

    def ex_Global(self, s, st):
        raise EngineError('global statement')

    def ex_Assert(self, s, st):
        def fin(v, s1):
            out = []
            for taken, s2 in self.branch(s1, self.truthy(v, s1)):
                if taken:
                    out.append((NORMAL, s2))
                else:
                    out.append((raise_out(ExcV('AssertionError')), s2))
            return out
        return self.lift(self.eval(s.test, st), fin)

    def ex_Assign(self, s, st):
        def fin(v, s1):
            outs = [(NORMAL, s1)]
            for t in s.targets:
                nxt = []
                for o, s2 in outs:
                    if o[0] != 'normal':
                        nxt.append((o, s2))
                    else:
                        nxt.extend(self.assign(t, v, s2))
                outs = nxt
            return outs
        return self.lift(self.eval(s.value, st), fin)

    def ex_AnnAssign(self, s, st):
        if s.value is None:
            return [(NORMAL, st)]
        return self.lift(self.eval(s.value, st), lambda v, s1: self.assign(s.target, v, s1))

    def ex_AugAssign(self, s, st):
        # evaluate target as expression, apply op, store back
        load = ast.copy_location(self._as_load(s.target), s.target)

        def fin(vs, s1):
            cur, rhs = vs
            if isinstance(s.op, ast.Add) and isinstance(cur, Ref) and s1.obj(cur).kind in ('list', 'seglist'):
                h = s1.obj(cur)
                if isinstance(rhs, Ref) and s1.obj(rhs).kind == 'list' and h.kind == 'list':
                    h.items.extend(s1.obj(rhs).items)
                    return [(NORMAL, s1)]
                if isinstance(rhs, Ref) and s1.obj(rhs).kind in ('list', 'slist'):
                    # concatenation with a symbolic-length list: keep the segments
                    if h.kind == 'list':
                        h.kind = 'seglist'
                        h.meta = {'segments': [('items', list(h.items))]}
                        h.items = None
                    rh = s1.obj(rhs)
                    h.meta['segments'] = list(h.meta['segments']) + [('items', list(rh.items)) if rh.kind == 'list' else ('slist', rhs)]
                    return [(NORMAL, s1)]
                raise EngineError('list += non-list')
            out = []
            for r in self.binop(s.op, cur, rhs, s1, s.lineno):
                if r.kind == 'raise':
                    out.append((raise_out(r.val), r.st))
                else:
                    out.extend(self.assign(s.target, r.val, r.st))
            return out
        return self.lift(self.eval_list([load, s.value], st), fin)

    def _as_load(self, t):
        if isinstance(t, ast.Name):
            return ast.Name(id=t.id, ctx=ast.Load(), lineno=t.lineno, col_offset=t.col_offset)
        if isinstance(t, ast.Attribute):
            return ast.Attribute(value=t.value, attr=t.attr, ctx=ast.Load(), lineno=t.lineno, col_offset=t.col_offset)
        if isinstance(t, ast.Subscript):
            return ast.Subscript(value=t.value, slice=t.slice, ctx=ast.Load(), lineno=t.lineno, col_offset=t.col_offset)
        raise EngineError('augmented assignment target')

    def assign(self, target, v, st):
        if isinstance(target, ast.Name):
            st.env[target.id] = v
            return [(NORMAL, st)]
        if isinstance(target, (ast.Tuple, ast.List)):
            vals = self.unpack(v, len(target.elts), st)
            outs = [(NORMAL, st)]
            for t, x in zip(target.elts, vals):
                nxt = []
                for o, s2 in outs:
                    nxt.extend(self.assign(t, x, s2) if o[0] == 'normal' else [(o, s2)])
                outs = nxt
            return outs
        if isinstance(target, ast.Attribute):
            return self.lift(self.eval(target.value, st),
                             lambda o, s1: self.setattr_value(o, target.attr, v, s1, target.lineno))
        if isinstance(target, ast.Subscript):
            if isinstance(target.slice, ast.Slice):
                raise EngineError('slice assignment')
            return self.lift(self.eval_list([target.value, target.slice], st),
                             lambda vs, s1: self.setitem(vs[0], vs[1], v, s1, target.lineno))
        raise EngineError(f'assignment target {type(target).__name__}')

    def unpack(self, v, n, st):
        if isinstance(v, tuple):
            items = list(v)
        elif isinstance(v, Ref) and st.obj(v).kind in ('list', 'tuple'):
            items = list(st.obj(v).items)
        elif isinstance(v, Opaque) and v.kind in getattr(self.registry, 'unpack_kinds', {}):
            # an opaque record whose components are functions of it (e.g. a queue item that is an (offset, data) pair)
            from .contracts import Int as _Int, BytesT as _BytesT
            items = []
            for i, t in enumerate(self.registry.unpack_kinds[v.kind]):
                if t is _Int:
                    items.append(z3.Function(f'{v.kind}_item{i}', U, z3.IntSort())(v.term))
                elif isinstance(t, _BytesT):
                    lo = z3.Function(f'{v.kind}_item{i}_lo', U, z3.IntSort())(v.term)
                    hi = z3.Function(f'{v.kind}_item{i}_hi', U, z3.IntSort())(v.term)
                    st.assume(hi >= lo)
                    items.append(BytesV(t.base, lo, hi))
                else:
                    raise EngineError('unpack_kinds component type')
        else:
            raise EngineError(f'unpack of {type(v).__name__}')
        if len(items) != n:
            raise EngineError('unpack arity')
        return items

    def ex_Delete(self, s, st):
        if len(s.targets) != 1 or not isinstance(s.targets[0], ast.Subscript):
            raise EngineError('del statement other than del d[k]')
        t = s.targets[0]

        def fin(vs, s1):
            c, k = vs
            if isinstance(c, Ref):
                h = s1.obj(c)
                if h.kind == 'dict':
                    kk = self.hashable_key(k)
                    if kk in h.items:
                        del h.items[kk]
                        return [(NORMAL, s1)]
                    return [(raise_out(ExcV('KeyError', (k,))), s1)]
                if h.kind == 'smap':
                    kt = self.key_term(k, h)
                    out = []
                    for isin, s2 in self.branch(s1, z3.Select(h.meta['present'], kt)):
                        if isin:
                            h2 = s2.obj(c)
                            h2.meta['present'] = z3.Store(h2.meta['present'], kt, False)
                            out.append((NORMAL, s2))
                        else:
                            out.append((raise_out(ExcV('KeyError', (k,))), s2))
                    return out
            raise EngineError('del on ' + type(c).__name__)
        return self.lift(self.eval_list([t.value, t.slice], st), fin)

    # ------------------------------------------------------------------ control flow
    def ex_If(self, s, st):
        def fin(v, s1):
            out = []
            for taken, s2 in self.branch(s1, self.truthy(v, s1)):
                out.extend(self.exec_block(s.body if taken else s.orelse, s2))
            return out
        return self.lift(self.eval(s.test, st), fin)

    def ex_Raise(self, s, st):
        if s.exc is None:
            cur = st.env.get('$handling')
            if cur is None:
                raise EngineError('bare raise outside handler')
            return [(raise_out(cur), st)]
        # `raise X from Y`: the cause only sets __cause__ on X (no effect on control flow or on which exception propagates);
        # Y is evaluated for its (side-effect free) value and otherwise ignored

        def fin(v, s1):
            v = self.unwrap_opt(v, s1, 'raise', s.lineno)
            if isinstance(v, (ExtClassRef, ClassRef)):
                v = self.make_exc(v, (), s1)
            if isinstance(v, Opaque) and v.kind == 'exception':
                # an exception object of unknown class (e.g. coordinator.exception)
                v = ExcV('$stored', (), tag=v.label, attrs={'term': v.term})
            if not isinstance(v, ExcV):
                raise EngineError(f'raise of {type(v).__name__} at line {s.lineno}')
            s1.trace.append(Event('raise', v.cls, args=(v,), line=s.lineno, held=s1.held))
            return [(raise_out(v), s1)]
        return self.lift(self.eval(s.exc, st), fin)

    def ex_Try(self, s, st):
        body_res = self.exec_block(s.body, st)
        after = []
        for out, s1 in body_res:
            if out[0] == 'normal':
                if s.orelse:
                    after.extend(self.exec_block(s.orelse, s1))
                else:
                    after.append((out, s1))
            elif out[0] == 'raise':
                after.extend(self.dispatch_handlers(s, out[1], s1))
            else:
                after.append((out, s1))
        if not s.finalbody:
            return after
        final = []
        for out, s1 in after:
            saved = s1.env.get('$handling')
            if out[0] == 'raise':
                s1.env['$handling'] = out[1]
            for fout, s2 in self.exec_block(s.finalbody, s1):
                if saved is None:
                    s2.env.pop('$handling', None)
                else:
                    s2.env['$handling'] = saved
                if fout[0] == 'normal':
                    final.append((out, s2))
                else:
                    final.append((fout, s2))  # finally overrides
        return final

    def dispatch_handlers(self, s, exc, st):
        results = []
        for h in s.handlers:
            may = False
            if h.type is None:
                matches = True
            else:
                tres = self.eval(h.type, st)
                if len(tres) != 1 or tres[0].kind != 'ok':
                    raise EngineError('except type expression')
                matches = self.handler_matches(exc, tres[0].val, tres[0].st)
                st = tres[0].st
                if matches == 'may':
                    # an exception of unknown class (recorded by another thread): this handler may catch it (one more
                    # path, same exception object) or not (the search goes on)
                    matches, may = False, True
            if matches or may:
                s_h = st.fork() if may else st
                if h.name:
                    s_h.env[h.name] = exc
                saved = s_h.env.get('$handling')
                s_h.env['$handling'] = exc
                res = self.exec_block(h.body, s_h)
                for o, s2 in res:
                    if saved is None:
                        s2.env.pop('$handling', None)
                    else:
                        s2.env['$handling'] = saved
                    if h.name:
                        s2.env.pop(h.name, None)
                results.extend(res)
                if matches:
                    return results
        return results + [(raise_out(exc), st)]

    def handler_matches(self, exc, tval, st):
        if exc.cls == '$stored':
            # exception of unknown class stored by another thread.  A-STORED-EXC: what set_exception / cancel record is
            # an instance of Exception (caught by `except Exception`, or built from CancelledError / FatalError), so it
            # matches BaseException / Exception handlers, never a KeyboardInterrupt / SystemExit / GeneratorExit handler,
            # and MAY match a handler for any other class
            return self.stored_matches(tval, st)
        return self.exc_matches(exc, tval, st)

    def stored_matches(self, tval, st):
        if isinstance(tval, tuple):
            if len(tval) == 2 and isinstance(tval[0], str) and tval[0] == 'frozenlist':
                tval = tval[1]
            rs_ = [self.stored_matches(t, st) for t in tval]
            return True if True in rs_ else ('may' if 'may' in rs_ else False)
        if isinstance(tval, Ref):
            rs_ = [self.stored_matches(t, st) for t in st.obj(tval).items]
            return True if True in rs_ else ('may' if 'may' in rs_ else False)
        name = self.exc_class_name(tval)
        if name in ('BaseException', 'Exception'):
            return True
        if name in ('KeyboardInterrupt', 'SystemExit', 'GeneratorExit'):
            return False
        return 'may'

    def ex_With(self, s, st):
        if len(s.items) != 1:
            raise EngineError('with: multiple items')
        item = s.items[0]

        def fin(cm, s1):
            outs = []
            for r in self.cm_enter(cm, s1, s.lineno):
                if r.kind == 'raise':
                    outs.append((raise_out(r.val), r.st))
                    continue
                s2 = r.st
                if item.optional_vars is not None:
                    ares = self.assign(item.optional_vars, r.val, s2)
                else:
                    ares = [(NORMAL, s2)]
                for o, s3 in ares:
                    if o[0] != 'normal':
                        outs.append((o, s3))
                        continue
                    for bo, s4 in self.exec_block(s.body, s3):
                        for xr in self.cm_exit(cm, s4, s.lineno, bo):
                            if xr.kind == 'raise':
                                outs.append((raise_out(xr.val), xr.st))
                            else:
                                outs.append((bo, xr.st))
            return outs
        return self.lift(self.eval(item.context_expr, st), fin)

    # ------------------------------------------------------------------ loops
    def loop_spec(self, node):
        finfo = self.cur_func_of_node(node)
        if finfo is None or self.registry is None:
            return None
        root = self.registry.contracts.get(self.cur_root_target_inline) if self.cur_root_target_inline else None
        return self.registry.loop_spec(finfo, node, root)

    def cur_func_of_node(self, node):
        return getattr(node, '_pyvc_func', None)

    def ex_While(self, s, st):
        if self.effect_free(s.test):
            probe = self.eval(s.test, st.fork())
            if len(probe) == 1 and probe[0].kind == 'ok' and self.truthy(probe[0].val, probe[0].st) is False:
                return self.exec_block(s.orelse, st) if s.orelse else [(NORMAL, st)]
        spec = self.loop_spec(s)
        if spec is None:
            return self.unroll_unknown_while(s, st)
        return self.exec_loop_with_invariant(s, st, spec, kind='while')

    UNKNOWN_LOOP_BOUND = 2

    def unroll_unknown_for(self, s, itv, st, item_fn):
        """`for` over an iterable of symbolic length without a loop contract: the first UNKNOWN_LOOP_BOUND iterations are explored
        (bounded, like unroll_unknown_while): real paths, nothing proved."""
        from .contracts import LoopCtx, LoopSpec
        if s.orelse:
            raise EngineError(f'for/else without invariant at line {s.lineno}')
        ctx = LoopCtx(self, st, s, itv)
        ctx.setup_iteration(LoopSpec(invariant=lambda l: {}))        # EngineError for iterables that cannot be indexed
        self.bounded_unknown_loops.add(s.lineno)
        results, live = [], [st]
        for i in range(self.UNKNOWN_LOOP_BOUND + 1):
            nxt = []
            for s0 in live:
                c = ctx.at(s0)
                c.index = i
                for r in c.for_guard(s0):
                    if r.kind == 'raise':
                        results.append((raise_out(r.val), r.st))
                        continue
                    for taken, s1 in self.branch(r.st, self.truthy(r.val, r.st)):
                        if not taken:
                            results.append((NORMAL, s1))
                        elif i == self.UNKNOWN_LOOP_BOUND:
                            pass
                        else:
                            item = c.current_item(s1)
                            for o0, s2 in self.assign_loop_item(s, item, s1, item_fn):
                                if o0[0] != 'normal':
                                    results.append((o0, s2))
                                    continue
                                for bo, s3 in self.exec_block(s.body, s2):
                                    if bo[0] in ('normal', 'continue'):
                                        nxt.append(s3)
                                    elif bo[0] == 'break':
                                        results.append((NORMAL, s3))
                                    else:
                                        results.append((bo, s3))
            live = nxt
            self.paths_guard(len(results) + len(live))
        return results

    def unroll_unknown_while(self, s, st):
        """A `while` loop that has no loop contract (typically: a loop the code did not have when the contracts were written).
        It is explored for at most UNKNOWN_LOOP_BOUND iterations; paths that would need more are cut.  Every path explored this way
        is a real path of the code, so an obligation that FAILS on one is a real failure; but nothing is proved about the root
        (it is recorded in `bounded_unknown_loops` and reported as out of reach / undecided when nothing fails)."""
        if s.orelse:
            raise EngineError(f'while/else without invariant at line {s.lineno}')
        self.bounded_unknown_loops.add(s.lineno)
        results, live = [], [st]
        for i in range(self.UNKNOWN_LOOP_BOUND + 1):
            nxt = []
            for s0 in live:
                for r in self.eval(s.test, s0):
                    if r.kind == 'raise':
                        results.append((raise_out(r.val), r.st))
                        continue
                    for taken, s1 in self.branch(r.st, self.truthy(r.val, r.st)):
                        if not taken:
                            results.append((NORMAL, s1))
                        elif i == self.UNKNOWN_LOOP_BOUND:
                            pass        # would need one more iteration: path cut (bounded)
                        else:
                            for bo, s2 in self.exec_block(s.body, s1):
                                if bo[0] in ('normal', 'continue'):
                                    nxt.append(s2)
                                elif bo[0] == 'break':
                                    results.append((NORMAL, s2))
                                else:
                                    results.append((bo, s2))
            live = nxt
            self.paths_guard(len(results) + len(live))
        return results

    def ex_For(self, s, st):
        def fin(itv, s1):
            if isinstance(itv, Opt):
                itv = self.unwrap_opt(itv, s1, 'iter', s.lineno)
            if isinstance(itv, tuple) and len(itv) == 3 and isinstance(itv[0], str) and itv[0] == 'generator':
                return self.exec_fused_generator(s, itv, s1)
            item_fn = None
            if isinstance(itv, tuple) and len(itv) == 3 and isinstance(itv[0], str) and itv[0] == 'mapiter':
                # Executor.map(fn, iterable): results are delivered in the order of the inputs, an exception of a call
                # is raised when its position is reached -> `for x in inputs: item = fn(x); body`
                item_fn, itv = itv[1], itv[2]
            if isinstance(itv, Ref) and s1.obj(itv).kind == 'seglist':
                return self.exec_for_segments(s, s1.obj(itv).meta['segments'], s1)
            if isinstance(itv, Ref) and s1.obj(itv).kind == 'smap':
                itv = s1.alloc(HObj('smapitems', meta={'map': itv, 'what': 'keys'}))
            seq = self.concrete_iterable(itv, s1)
            spec = self.loop_spec(s)
            self._item_fn = item_fn
            try:
                if seq is not None and (spec is None or not spec.iterate_concrete_list_symbolically):
                    return self.unroll_for(s, seq, s1)
                if spec is None:
                    return self.unroll_unknown_for(s, itv, s1, item_fn)
                return self.exec_loop_with_invariant(s, s1, spec, kind='for', iterable=itv)
            finally:
                self._item_fn = None
        return self.lift(self.eval(s.iter, st), fin)

    def exec_for_segments(self, s, segments, st):
        """for-loop over a concatenation of concrete and symbolic-length lists: the segments are traversed in
        order, concrete ones unrolled, symbolic ones by the loop rule."""
        if s.orelse:
            raise EngineError('for/else over a concatenated list')
        live = [st]
        done = []
        for kind, seg in segments:
            nxt = []
            for s1 in live:
                if kind == 'items':
                    res = self.unroll_for(s, seg, s1)
                else:
                    spec = self.loop_spec(s)
                    if spec is None:
                        raise EngineError(f'for loop over symbolic list segment without invariant at line {s.lineno}')
                    res = self.exec_loop_with_invariant(s, s1, spec, kind='for', iterable=seg)
                for o, s2 in res:
                    if o[0] == 'normal':
                        nxt.append(s2)
                    else:
                        done.append((o, s2))   # break is not supported here: would need to stop later segments
                        if o[0] == 'break':
                            raise EngineError('break inside a loop over a concatenated list')
            live = nxt
        return done + [(NORMAL, s1) for s1 in live]

    def exec_fused_generator(self, s, gen, st):
        _, finfo, genv = gen
        if s.orelse:
            raise EngineError('for/else over a generator')
        genv = dict(genv)
        genv['$yield_to'] = s
        st.stack.append(st.env)
        st.env = genv
        out = []
        for o, s1 in self.exec_block(finfo.node.body, st):
            s1.env = s1.stack.pop()
            if o[0] in ('normal', 'return'):
                out.append((NORMAL, s1))
            elif o[0] == 'raise':
                out.append((o, s1))
            elif o[0] == 'raise_consumer':
                out.append((('raise', o[1]), s1))
            elif o[0] == 'return_consumer':
                out.append((('return', o[1]), s1))
            elif o[0] == 'break_consumer':
                out.append((NORMAL, s1))
            else:
                raise EngineError('break/continue escaped generator')
        return out

    def concrete_iterable(self, v, st):
        """A finite, concretely known sequence of values, or None."""
        if isinstance(v, tuple):
            if len(v) == 2 and (isinstance(v[0], str) and v[0] == 'frozenlist'):
                return list(v[1])
            if len(v) == 2 and (isinstance(v[0], str) and v[0] == 'range'):
                return None
            if v and isinstance(v[0], str) and v[0] in ('range', 'mapiter', 'generator', '$inf', '$default', 'record', '$U'):
                return None      # engine-internal tagged values are not Python tuples
            return list(v)
        if isinstance(v, Ref):
            h = st.obj(v)
            if h.kind in ('list', 'tuple'):
                return list(h.items)
            if h.kind == 'set':
                return list(h.items)
            if h.kind == 'dict':
                return list(h.items.keys())
            if h.kind == 'range':
                lo, hi = h.meta['lo'], h.meta['hi']
                if not is_sym(lo) and not is_sym(hi) and hi - lo <= 64:
                    return list(range(lo, hi))
                return None
            if h.kind == 'dictitems':
                d = st.obj(h.meta['dict'])
                if d.kind == 'dict':
                    return [(k, x) for k, x in d.items.items()]
                return None
        return None

    def unroll_for(self, s, seq, st):
        item_fn, self._item_fn = self._item_fn, None
        results = []
        live = [st]
        for item in seq:
            nxt = []
            for s1 in live:
                for o, s2 in self.assign_loop_item(s, item, s1, item_fn):
                    if o[0] != 'normal':
                        results.append((o, s2))
                        continue
                    for bo, s3 in self.exec_block(s.body, s2):
                        if bo[0] in ('normal', 'continue'):
                            nxt.append(s3)
                        elif bo[0] == 'break':
                            results.append((NORMAL, s3))
                        else:
                            results.append((bo, s3))
            live = nxt
            self.paths_guard(len(live) + len(results))
        for s1 in live:
            if s.orelse:
                results.extend(self.exec_block(s.orelse, s1))
            else:
                results.append((NORMAL, s1))
        return results

    _item_fn = None

    def assign_loop_item(self, s, item, st, item_fn):
        """binds the loop target; for Executor.map loops the item is first passed through the mapped function"""
        if item_fn is None:
            return self.assign(s.target, item, st)
        out = []
        for r in self.call_value(item_fn, [item], {}, st, s.lineno):
            if r.kind == 'ok':
                out.extend(self.assign(s.target, r.val, r.st))
            else:
                out.append((raise_out(r.val), r.st))
        return out

    def assigned_names(self, nodes):
        names = set()
        for n in nodes:
            for x in ast.walk(n):
                if isinstance(x, ast.Name) and isinstance(x.ctx, ast.Store):
                    names.add(x.id)
        return names

    def heap_snapshot(self, st):
        """Identity snapshot of everything a loop body could modify on the heap / in ghost state."""
        snap = {}
        for oid, h in st.heap.items():
            for f, v in h.fields.items():
                snap[('f', oid, f)] = v
            if h.meta:
                for k in ('present', 'vals', 'len', 'arr', 'arrs', 'count', 'data', 'pos'):
                    if k in h.meta:
                        snap[('m', oid, k)] = h.meta[k]
            if h.kind in ('list', 'dict', 'set') and h.items is not None:
                snap[('i', oid)] = (len(h.items), tuple(h.items) if not isinstance(h.items, dict) else tuple(h.items.items()))
        for k, v in st.ghost.items():
            if (isinstance(k, tuple) and k and k[0] in ('stream', 'body', 'streamed')) or k == 'reported':
                if isinstance(v, dict):
                    for kk, vv in v.items():
                        snap[('g', k, kk)] = vv
                else:
                    snap[('g', k)] = v
        return snap

    def same_value_identity(self, a, b):
        if a is b:
            return True
        if is_sym(a) and is_sym(b):
            return a.eq(b)
        if isinstance(a, dict) and isinstance(b, dict):
            return a.keys() == b.keys() and all(self.same_value_identity(a[k], b[k]) for k in a)
        if isinstance(a, tuple) and isinstance(b, tuple):
            return len(a) == len(b) and all(self.same_value_identity(x, y) for x, y in zip(a, b))
        try:
            return bool(a == b) if not is_sym(a) and not is_sym(b) else False
        except Exception:
            return False

    def frame_obligations(self, lid, pre_snap, head_snap, s3, line):
        """Soundness of the loop rule's havoc: anything the body changed must have been havocked at the
        loop head (i.e. differ from its pre-loop value there); otherwise the summary would silently assume
        the body leaves it alone."""
        post = self.heap_snapshot(s3)
        for key, hv in head_snap.items():
            if key not in post:
                continue
            if self.same_value_identity(post[key], hv):
                continue
            if key in pre_snap and self.same_value_identity(pre_snap[key], hv):
                # modified by the body but not havocked at the head
                pv = post[key]
                if is_sym(pv) and is_sym(hv) and pv.sort() == hv.sort() and not self.feasible(s3, pv != hv):
                    continue   # provably unchanged (e.g. a store of the value already there)
                self._frame_missing[key] = hv

    def exec_loop_with_invariant(self, s, st, spec, kind, iterable=None):
        """Loop rule with automatic completion of the havoc set: if the body turns out to modify heap / ghost
        state that the loop contract did not havoc at the loop head, the loop is processed again with that state
        havocked as well (fresh values of the same sort).  So an edit that makes the body touch more state can
        only make obligations harder, never unsound, and never fails by itself."""
        extra = {}
        item_fn, self._item_fn = self._item_fn, None
        for attempt in range(4):
            mark = len(self.obligations)
            base = st.fork()
            self._frame_missing = {}
            try:
                res = self._exec_loop_with_invariant(s, base, spec, kind, iterable, extra, item_fn)
            except EngineError:
                # obligations of an aborted attempt (possibly with an incomplete havoc set) are not kept
                del self.obligations[mark:]
                raise
            missing = {k: v for k, v in self._frame_missing.items() if k not in extra}
            if not missing:
                return res
            del self.obligations[mark:]
            try:
                self.apply_extra_havoc(base.fork(), missing)      # can everything the body touches be havocked at all?
            except EngineError:
                raise
            extra.update(missing)
        raise EngineError(f'loop at line {s.lineno}: havoc set does not stabilise')

    def fresh_like(self, v, name):
        if isinstance(v, bool) or (is_sym(v) and z3.is_bool(v)):
            return z3.Bool(fresh_name(name))
        if isinstance(v, int) or (is_sym(v) and z3.is_int(v)):
            return z3.Int(fresh_name(name))
        if isinstance(v, float) or (is_sym(v) and z3.is_real(v)):
            return z3.Real(fresh_name(name))
        if is_sym(v):
            return z3.Const(fresh_name(name), v.sort())
        raise EngineError(f'loop body modifies {name} (a {type(v).__name__}); give the loop contract a havoc for it')

    def apply_extra_havoc(self, st, extra):
        for key, sample in extra.items():
            nm = 'hv_' + '_'.join(''.join(ch if ch.isalnum() else '_' for ch in str(x)) for x in key[1:] if not isinstance(x, tuple))
            if key[0] == 'f':
                st.heap[key[1]].fields[key[2]] = self.fresh_like(sample, nm)
            elif key[0] == 'm':
                st.heap[key[1]].meta[key[2]] = self.fresh_like(sample, nm)
            elif key[0] == 'g' and len(key) == 3:
                g = dict(st.ghost[key[1]])
                g[key[2]] = self.fresh_like(sample, str(key[2]))
                st.ghost[key[1]] = g
            elif key[0] == 'g':
                st.ghost[key[1]] = self.fresh_like(sample, str(key[1]))
            else:
                raise EngineError('loop body modifies a concrete container that the loop contract does not havoc')

    def _exec_loop_with_invariant(self, s, st, spec, kind, iterable=None, extra_havoc=None, item_fn=None):
        """Standard loop rule.  spec: LoopSpec(inv(ctx)->dict name->Bool, havoc(ctx) -> None,
        modifies_locals, item(ctx, index)...).  Generates: init, preservation (per body path),
        and continues after the loop with the invariant and the negated guard."""
        from .contracts import LoopCtx
        line = s.lineno
        lid = f'loop@{line}'
        ctx = LoopCtx(self, st, s, iterable)
        # --- ghost index for `for` loops
        if kind == 'for':
            ctx.setup_iteration(spec)
        # --- initiation
        pre = st.fork()
        ctx.pre = pre
        pre_snap = self.heap_snapshot(st)
        for name, f in spec.invariant(ctx).items():
            self.oblige(st, f'{lid}.inv_init.{name}', f, kind='loop-init', line=line)
        # --- havoc
        mods = set(spec.modifies_locals) if spec.modifies_locals is not None else self.assigned_names(s.body)
        if kind == 'for':
            mods |= self.assigned_names([s.target])
        finfo_ = getattr(s, '_pyvc_func', None)
        if finfo_ is not None and spec.local_types:
            known = self.assigned_names([finfo_.node]) | {a.arg for a in ast.walk(finfo_.node) if isinstance(a, ast.arg)}
            missing = sorted(n for n in spec.local_types if n not in known and n not in st.env)
            if missing:
                # the loop contract names a local variable the function does not have (e.g. it was renamed): the contract
                # does not attach to this version of the code -> undecided, never a violation
                raise EngineError(f'loop contract at line {s.lineno} refers to local variable(s) {missing} that the function does not have')
        mods |= set(spec.local_types)
        for name in sorted(mods):
            if name in st.env or spec.local_types.get(name) is not None:
                st.env[name] = ctx.havoc_local(name, st.env.get(name), spec)
        for name, t in spec.outer_local_types.items():
            st.stack[-1][name] = self.make_symbolic(t, name, st)
        spec.havoc_heap(ctx)
        self.apply_extra_havoc(st, extra_havoc or {})
        if kind == 'for':
            ctx.havoc_index()
        ctx.st = st
        for name, f in spec.invariant(ctx).items():
            st.assume(f)
        trace_mark = len(st.trace)
        head_snap = self.heap_snapshot(st)
        results = []
        alts = []
        alt_items = []
        alt_states = []
        # --- one arbitrary iteration
        if kind == 'while':
            conds = self.eval(s.test, st.fork())
        else:
            conds = ctx.for_guard(st.fork())
        exit_states = []
        for r in conds:
            if r.kind == 'raise':
                results.append((raise_out(r.val), r.st))
                continue
            for taken, s1 in self.branch(r.st, self.truthy(r.val, r.st)):
                if not taken:
                    exit_states.append(s1)
                    continue
                v0 = spec.variant(ctx.at(s1)) if spec.variant is not None else None
                before = ctx.at(st) if spec.iteration_checks is not None else None   # state at the loop head (guard runs on forks)
                body_in = [(NORMAL, s1)]
                cur_item = None
                if kind == 'for':
                    cur_item = ctx.current_item(s1)
                    body_in = self.assign_loop_item(s, cur_item, s1, item_fn)
                for o0, s2 in body_in:
                    if o0[0] != 'normal':
                        results.append((o0, s2))
                        continue
                    for bo, s3 in self.exec_block(s.body, s2):
                        if bo[0] in ('normal', 'continue'):
                            c2 = ctx.after_iteration(s3)
                            self.frame_obligations(lid, pre_snap, head_snap, s3, line)
                            for name, f in spec.invariant(c2).items():
                                self.oblige(s3, f'{lid}.inv_preserved.{name}', f, kind='loop-preserve', line=line)
                            if spec.variant is not None:
                                v1 = spec.variant(c2)
                                self.oblige(s3, f'{lid}.variant_decreases', z3.And(v1 < v0, v0 > 0),
                                            kind='loop-variant', line=line)
                            if spec.iteration_checks is not None:
                                for name, f in spec.iteration_checks(before, c2, list(s3.trace[trace_mark:])).items():
                                    self.oblige(s3, f'{lid}.iteration.{name}', f, kind='loop-iteration', line=line)
                            alts.append(list(s3.trace[trace_mark:]))
                            alt_states.append(s3)
                            alt_items.append(ctx.current_item(s1) if kind == 'for' and False else cur_item)
                        elif bo[0] == 'break':
                            s3.trace[trace_mark:trace_mark] = [LoopSummary(lid, alts, line, s3.held, alt_items, iterable, alt_states, ctx)]
                            results.append((NORMAL, s3))
                        else:
                            s3.trace[trace_mark:trace_mark] = [LoopSummary(lid, alts, line, s3.held, alt_items, iterable, alt_states, ctx)]
                            results.append((bo, s3))
        for s1 in exit_states:
            s1.trace[trace_mark:trace_mark] = [LoopSummary(lid, alts, line, s1.held, alt_items, iterable, alt_states, ctx)]
            if kind == 'for':
                ctx.at_exit(s1)
            if s.orelse:
                results.extend(self.exec_block(s.orelse, s1))
            else:
                results.append((NORMAL, s1))
        return results
