"""Plumbing for bounded stand-ins (B3): native, exhaustive small-domain checks of the REAL code under
CPython against the same contract.  Always labelled 'bounded', never counted as proved; a failing case
is a real counterexample and becomes the replay of a VIOLATION."""
import json
import os
import subprocess

from .repo import REPO_ROOT

VERIF = os.path.dirname(os.path.dirname(os.path.abspath(__file__)))


def run_tool(prop, name, tool, args, bound, fail_key, timeout=3600):
    """tool prints one JSON line; fail_key: key holding the failing case (None when all passed)."""
    path = os.path.join(VERIF, 'tools', tool)
    p = subprocess.run(['/venv/bin/python', path, REPO_ROOT] + [str(a) for a in args],
                       capture_output=True, text=True, timeout=timeout)
    try:
        rep = json.loads(p.stdout.strip().splitlines()[-1])
    except Exception:
        return {'report': {name: {'error': (p.stdout + p.stderr)[-800:], 'label': 'bounded'}}, 'errors': [name]}
    out = {'report': {name: dict(rep, bound=bound, label='bounded')}}
    if rep.get(fail_key):
        d = os.path.join(os.environ.get('PYVC_OUT') or VERIF, 'replays', prop)
        os.makedirs(d, exist_ok=True)
        rp = os.path.join(d, f'{name}_failing_case.py')
        case = json.dumps(rep[fail_key])
        open(rp, 'w').write(
            f'"""Replay: a concrete case on which the real code violates {prop} (found by the bounded stand-in {name}).\n'
            f'case: {rep[fail_key]}\nwhy: {rep.get("why")}"""\n'
            'import subprocess, sys\n'
            f'sys.exit(subprocess.run(["/venv/bin/python", {path!r}, sys.argv[1] if len(sys.argv) > 1 else {REPO_ROOT!r}]'
            f' + {[str(a) for a in args]!r} + ["--replay", {case!r}]).returncode)\n')
        out['violations'] = [{'replay': rp, 'what': f'{name}: case {rep[fail_key]}: {rep.get("why")}'}]
    return out


def merge(*outs):
    res = {'report': {}, 'violations': [], 'errors': []}
    for o in outs:
        res['report'].update(o.get('report', {}))
        res['violations'].extend(o.get('violations', []))
        res['errors'].extend(o.get('errors', []))
    return res
