"""pyvc: symbolic executor / VC generator over the real AST of /repo/s3transfer.

Every construct the executor does not understand raises EngineError: the function under
verification is then reported 'out of reach' (exit 2) -- nothing is skipped silently except the
drop list (docstrings, logger.* calls whose arguments are effect free, __repr__).
"""
import ast

import z3

from .repo import ClassInfo, FuncInfo, Repo
from .state import Event, LoopSummary, Obligation, State
from .values import (
    BoundMethod, Builtin, BytesV, ClassRef, Closure, ExcV, ExtClassRef, ExtMethod, FStr, FuncRef,
    HObj, ModuleRef, Opaque, Opt, PartialV, Ref, U, fresh_name, is_bool_like, is_int_like,
    is_real_like, is_sym, to_int_term, to_real, to_z3_bool,
)


class EngineError(Exception):
    """Construct outside the supported subset: function out of reach (never a pass)."""


# ----------------------------------------------------------------------------------------------
# exception class lattice (external classes); in-package classes are resolved through the AST
EXC_PARENT = {
    'BaseException': None,
    'Exception': 'BaseException',
    'KeyboardInterrupt': 'BaseException',
    'SystemExit': 'BaseException',
    'GeneratorExit': 'BaseException',
    'StopIteration': 'Exception',
    'ValueError': 'Exception',
    'TypeError': 'Exception',
    'KeyError': 'LookupError',
    'IndexError': 'LookupError',
    'LookupError': 'Exception',
    'RuntimeError': 'Exception',
    'NotImplementedError': 'RuntimeError',
    'AttributeError': 'Exception',
    'ZeroDivisionError': 'ArithmeticError',
    'ArithmeticError': 'Exception',
    'OSError': 'Exception',
    'IOError': 'OSError',
    'ConnectionError': 'OSError',
    'FileNotFoundError': 'OSError',
    'socket.timeout': 'OSError',
    'TimeoutError': 'OSError',
    'ImportError': 'Exception',
    'queue.Empty': 'Exception',
    'botocore.exceptions.ReadTimeoutError': 'Exception',
    'botocore.exceptions.IncompleteReadError': 'Exception',
    'botocore.exceptions.ResponseStreamingError': 'Exception',
    'botocore.exceptions.ClientError': 'Exception',
    'concurrent.futures.CancelledError': 'Exception',
    'awscrt.exceptions.AwsCrtError': 'Exception',
}
EXT_ALIASES = {
    'socket.timeout': 'socket.timeout',
    'socket.error': 'OSError',      # Python 3: socket.error is OSError
    'IOError': 'OSError',
    'EnvironmentError': 'OSError',
    'ConnectionError': 'ConnectionError',
    'concurrent.futures.CancelledError': 'concurrent.futures.CancelledError',
    'concurrent.futures._base.CancelledError': 'concurrent.futures.CancelledError',
}
STD_CONSTS = {'concurrent.futures.FIRST_EXCEPTION': 'FIRST_EXCEPTION', 'concurrent.futures.FIRST_COMPLETED': 'FIRST_COMPLETED',
              'concurrent.futures.ALL_COMPLETED': 'ALL_COMPLETED'}
BUILTIN_EXC = {k for k in EXC_PARENT if '.' not in k}


class Res:
    """Result of evaluating an expression: kind 'ok' (value) or 'raise' (ExcV)."""
    __slots__ = ('kind', 'val', 'st')

    def __init__(self, kind, val, st):
        self.kind, self.val, self.st = kind, val, st


def ok(v, st):
    return Res('ok', v, st)


def rs(e, st):
    return Res('raise', e, st)


class Engine:
    def __init__(self, repo=None, registry=None, feas_timeout_ms=2000):
        self.repo = repo or Repo()
        self.registry = registry  # contracts.Registry
        self.obligations = []
        self.dropped = {}  # function -> count of dropped statements
        self.inlined = set()
        self.used_contracts = set()
        self.used_externals = set()
        self.used_builtins = set()
        self.cur_root = None
        self.cur_props = ()
        self.feas_timeout_ms = feas_timeout_ms
        self._globals_cache = {}
        self.monitor_mode = False
        self.paths = 0
        self.pruned = 0
        self.feas_checks = 0
        self.max_paths = 20000
        self._quant_cache = {}
        self._fmt_checked = set()

    # ------------------------------------------------------------------ obligations
    def oblige(self, st, name, goal, kind='post', line=None, expect='unsat', note='', props=None):
        if isinstance(goal, tuple):
            goal, props = goal[0], goal[1]
        oid = f'{self.cur_root}/{name}'
        # make ids unique but stable (path-ordinal suffix)
        n = sum(1 for o in self.obligations if o.id == oid or o.id.startswith(oid + '#'))
        if n:
            oid = f'{oid}#{n}'
        if isinstance(goal, bool):
            goal = z3.BoolVal(goal)
        o = Obligation(oid, self.cur_root, kind, line, st.pc, goal, expect, tuple(props) if props else self.cur_props, note)
        self.obligations.append(o)
        return o

    def feasible(self, st, extra=None):
        """Quick satisfiability check of the path condition; 'unknown' counts as feasible."""
        self.feas_checks += 1
        s = z3.Solver()
        s.set('timeout', self.feas_timeout_ms)
        for p in st.pc:
            # quantified assumptions are left out of the *pruning* check (over-approximates
            # feasibility: sound, a dead path is then carried along and its obligations are trivial)
            if not self._has_quantifier(p):
                s.add(p)
        if extra is not None:
            s.add(extra)
        r = s.check()
        if r == z3.unsat:
            self.pruned += 1
            return False
        return True

    def _has_quantifier(self, f):
        k = f.get_id()
        c = self._quant_cache.get(k)
        if c is None or not c[0].eq(f):
            sx = f.sexpr()
            c = (f, '(forall' in sx or '(exists' in sx)   # keeps f alive: ids are not reused
            self._quant_cache[k] = c
        return c[1]

    # ------------------------------------------------------------------ truthiness / basic ops
    def truthy(self, v, st):
        """-> z3 Bool or python bool."""
        if isinstance(v, bool):
            return v
        if v is None:
            return False
        if isinstance(v, tuple) and v and isinstance(v[0], str) and v[0] == 'mapslot':
            return self.list_as_array(v, st)[1] > 0
        if isinstance(v, (int, float, str, bytes, tuple)):
            return bool(v)
        if is_sym(v):
            if z3.is_bool(v):
                return v
            if z3.is_int(v) or z3.is_real(v):
                return v != 0
            if z3.is_string(v) or z3.is_seq(v):
                return z3.Length(v) > 0
            raise EngineError(f'truthiness of {v.sort()}')
        if isinstance(v, Opt):
            t = self.truthy(v.val, st)
            return z3.And(z3.Not(v.is_none), to_z3_bool(t))
        if isinstance(v, Opaque) and v.kind == 'str':
            return self.opaque_pred(v, 'str_nonempty')
        if isinstance(v, Opaque) and (v.kind in self.symbolic_truth_kinds or v.kind in getattr(self.registry, 'symbolic_truth_kinds', ())):
            return self.opaque_pred(v, 'truthy')
        if isinstance(v, (ExcV, Opaque, FuncRef, ClassRef, BoundMethod, ExtMethod, PartialV, Closure, Builtin, ExtClassRef)):
            return True  # A-EXC-TRUTHY / plain objects
        if isinstance(v, FStr):
            return True if any(not isinstance(p, str) or p for p in v.parts) else False
        if isinstance(v, BytesV):
            return (v.hi - v.lo) > 0
        if isinstance(v, Ref):
            h = st.obj(v)
            if h.kind in ('list', 'dict', 'set', 'tuple'):
                return len(h.items) > 0
            if h.kind == 'slist':
                return h.meta['len'] > 0
            if h.kind == 'sheap':
                return self.sheap_nonempty(h, st)
            if h.kind == 'sset':
                b = h.meta.get('nonempty')
                if b is None:
                    b = z3.Bool(fresh_name('set_nonempty'))
                    kk = z3.Const('k__', h.meta['present'].domain())
                    st.assume(z3.Implies(z3.Not(b), z3.ForAll([kk], z3.Not(z3.Select(h.meta['present'], kk)))))
                    h.meta['nonempty'] = b
                return b
            if h.kind == 'smap':
                # non-empty <=> some key is present; like for sets only "empty => no key present" is assumed of the
                # fresh flag (the other direction would need a witness); keyed on the presence array it was made for
                cache = h.meta.get('nonempty')
                if cache is not None and cache[0].eq(h.meta['present']):
                    return cache[1]
                b = z3.Bool(fresh_name('map_nonempty'))
                kk = z3.Const('k__', h.meta['present'].domain())
                st.assume(z3.Implies(z3.Not(b), z3.ForAll([kk], z3.Not(z3.Select(h.meta['present'], kk)))))
                h.meta['nonempty'] = (h.meta['present'], b)
                return b
            if h.kind == 'obj':
                fi = self.find_method_of(h, '__len__')
                if fi is not None:
                    raise EngineError('truthiness through __len__')
                return True
            return True
        raise EngineError(f'truthiness of {type(v).__name__}')

    symbolic_truth_kinds = ()

    def find_method_of(self, hobj, name):
        if isinstance(hobj.cls, ClassInfo):
            return self.repo.find_method(hobj.cls, name)
        return None

    def branch(self, st, cond):
        """Fork on a condition. -> list of (bool_taken, state)."""
        if isinstance(cond, bool):
            return [(cond, st)]
        cond = z3.simplify(cond)
        if z3.is_true(cond):
            return [(True, st)]
        if z3.is_false(cond):
            return [(False, st)]
        out = []
        t_ok = self.feasible(st, cond)
        f_ok = self.feasible(st, z3.Not(cond))
        if t_ok and f_ok:
            s2 = st.fork()
            st.pc.append(cond)
            s2.pc.append(z3.Not(cond))
            return [(True, st), (False, s2)]
        if t_ok:
            st.pc.append(cond)
            return [(True, st)]
        if f_ok:
            st.pc.append(z3.Not(cond))
            return [(False, st)]
        return []

    def unwrap_opt(self, v, st, what, line):
        """Use of an Optional as a plain value: obligation 'is not None' (no TypeError)."""
        if isinstance(v, Opt):
            self.oblige(st, f'safety.not_none.{what}@{line}', z3.Not(v.is_none), kind='safety', line=line)
            st.assume(z3.Not(v.is_none))
            return v.val
        return v

    # ------------------------------------------------------------------ module globals
    def module_global(self, mod, name, st):
        key = (mod.name, name)
        if key in self._globals_cache:
            return self._globals_cache[key]
        v = self._module_global(mod, name, st)
        self._globals_cache[key] = v
        return v

    def _module_global(self, mod, name, st):
        ov = getattr(self.registry, 'global_overrides', {}) if self.registry else {}
        if (mod.name, name) in ov:
            return ov[(mod.name, name)]
        if name in mod.funcs:
            return FuncRef(mod.funcs[name])
        if name in mod.classes:
            return ClassRef(mod.classes[name])
        if name in mod.assigns:
            expr = mod.assigns[name]
            if name == 'logger':
                return Opaque('logger', kind='logger')
            tmp = State()
            tmp.ghost['module'] = mod
            res = self.eval(expr, tmp, mod)
            if len(res) != 1 or res[0].kind != 'ok':
                raise EngineError(f'module constant {mod.name}.{name} is not a simple constant')
            v = res[0].val
            return self._freeze(v, res[0].st)
        if name in mod.imports:
            imp = mod.imports[name]
            if imp[0] == 'module':
                return ModuleRef(imp[1])
            _, src, nm = imp
            if src and (src == 's3transfer' or src.startswith('s3transfer.')):
                target = self.repo.modules.get(src)
                if target is None:
                    raise EngineError(f'unknown module {src}')
                if nm in target.funcs or nm in target.classes or nm in target.assigns or nm in target.imports:
                    return self.module_global(target, nm, st)
                sub = self.repo.modules.get(f'{src}.{nm}')
                if sub:
                    return ModuleRef(f'{src}.{nm}')
                raise EngineError(f'cannot resolve {src}.{nm}')
            return self.external_name(f'{src}.{nm}')
        raise KeyError(name)

    def _freeze(self, v, st):
        """Module constants are immutable python values (lists -> tuples of constants)."""
        if isinstance(v, Ref):
            h = st.obj(v)
            if h.kind in ('list', 'tuple'):
                return ('frozenlist', tuple(self._freeze(x, st) for x in h.items)) if h.kind == 'list' else tuple(self._freeze(x, st) for x in h.items)
            if h.kind == 'dict':
                return ('frozendict', tuple((k, self._freeze(x, st)) for k, x in h.items.items()))
            raise EngineError('module constant of unsupported kind ' + h.kind)
        return v

    def thaw(self, v, st):
        """Module-level list/dict constants become fresh heap objects when read (they are never
        mutated in the package: checked by the absence of stores to module globals)."""
        if isinstance(v, tuple) and len(v) == 2 and (isinstance(v[0], str) and v[0] == 'frozenlist'):
            return st.alloc(HObj('list', items=[self.thaw(x, st) for x in v[1]]))
        if isinstance(v, tuple) and len(v) == 2 and (isinstance(v[0], str) and v[0] == 'frozendict'):
            return st.alloc(HObj('dict', items={k: self.thaw(x, st) for k, x in v[1]}))
        return v

    def external_name(self, dotted):
        dotted = EXT_ALIASES.get(dotted, dotted)
        if dotted in EXC_PARENT:
            return ExtClassRef(dotted)
        last = dotted.split('.')[-1]
        if last in EXC_PARENT and last[0].isupper():
            return ExtClassRef(last)
        for k in EXC_PARENT:
            if k.endswith('.' + last) and last[0].isupper():
                return ExtClassRef(k)
        if self.registry and dotted in self.registry.ext_values:
            return self.registry.ext_values[dotted]
        if dotted in STD_CONSTS:
            return STD_CONSTS[dotted]
        return Builtin(dotted)

    def same_const_list(self, v, cls_qual, name, st):
        """v is (a thawed copy of) the class constant cls_qual.name (a list of strings)"""
        from .state import State
        ci = self.repo.cls(cls_qual)
        owner, _ = self.repo.find_class_attr(ci, name)
        if owner is None:
            return False
        tmp = State()
        want = list(tmp.obj(self.class_attr(owner, name, tmp)[0].val).items)
        if isinstance(v, Ref) and st.obj(v).kind == 'list':
            return list(st.obj(v).items) == want
        if isinstance(v, tuple) and len(v) == 2 and isinstance(v[0], str) and v[0] == 'frozenlist':
            return list(v[1]) == want
        return False

    # ------------------------------------------------------------------ exception classes
    def exc_class_name(self, v):
        if isinstance(v, ExtClassRef):
            return v.name
        if isinstance(v, ClassRef):
            return v.cinfo.qualname
        raise EngineError(f'not an exception class: {v!r}')

    def exc_is_subclass(self, cls, base):
        """cls, base: concrete names ('ValueError', 's3transfer.exceptions:FatalError')."""
        seen = set()
        cur = cls
        while cur is not None and cur not in seen:
            if cur == base:
                return True
            seen.add(cur)
            if ':' in cur:
                ci = self.repo.cls(cur)
                nxt = None
                for b in ci.base_exprs:
                    r = self.repo.resolve_base(ci, b)
                    if isinstance(r, ClassInfo):
                        nxt = r.qualname
                    else:
                        nxt = self.external_name(r).name if isinstance(self.external_name(r), ExtClassRef) else None
                    break
                cur = nxt
            else:
                cur = EXC_PARENT.get(cur)
        return False

    def exc_matches(self, exc, handler_type_val, st):
        """Does ExcV match the value of an `except T` expression (class or tuple of classes)?"""
        if isinstance(handler_type_val, tuple):
            if len(handler_type_val) == 2 and (isinstance(handler_type_val[0], str) and handler_type_val[0] == 'frozenlist'):
                handler_type_val = handler_type_val[1]
            return any(self.exc_matches(exc, t, st) for t in handler_type_val)
        if isinstance(handler_type_val, Ref):
            h = st.obj(handler_type_val)
            return any(self.exc_matches(exc, t, st) for t in h.items)
        return self.exc_is_subclass(exc.cls, self.exc_class_name(handler_type_val))

    def make_exc(self, cls_val, args, st, kwargs=None):
        name = self.exc_class_name(cls_val)
        e = ExcV(name, args)
        if isinstance(cls_val, ClassRef):
            init = self.repo.find_method(cls_val.cinfo, '__init__')
            if init is not None:
                # in-package exception with its own __init__ (RetriesExceededError,
                # RequestExceededException): record constructor arguments as attributes by name
                params = [a.arg for a in init.node.args.args][1:]
                for p, a in zip(params, args):
                    e.attrs[p] = a
                for k, v in (kwargs or {}).items():
                    e.attrs[k] = v
        return e
