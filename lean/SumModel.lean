/-
Consistency of the SUM background axiom of contracts/c13.py.

The SMT axiom  ∀ p t k b v. SUM(p[k:=b], t[k:=v]) = SUM(p,t) - (if p[k] then t[k] else 0) + (if b then v else 0)
quantifies over ALL arrays, also those that are not dict states (infinite support).  For the argument
"obligation unsat under the axiom ⇒ it holds for every real state" one needs an interpretation of SUM on all arrays
that satisfies the axiom AND is the finite sum on dict states (finite key set).  This file constructs one.
-/
import Mathlib.Algebra.BigOperators.Finprod
import Mathlib.Data.Real.Basic
import Mathlib.Tactic.Ring
import Mathlib.Tactic.Linarith

open Function

namespace S3TransferVerif

variable {U : Type*}

/-- two value functions are related when they differ at finitely many keys -/
def finDiff (U : Type*) : Setoid (U → ℝ) where
  r c c' := (support (c - c')).Finite
  iseqv := by
    refine ⟨?_, ?_, ?_⟩
    · intro c; simp
    · intro c c' h
      have : c' - c = -(c - c') := by ring
      rw [this, support_neg]; exact h
    · intro a b c hab hbc
      have : a - c = (a - b) + (b - c) := by ring
      rw [this]
      exact (hab.union hbc).subset (support_add _ _)

open Classical in
/-- representative of the class of `c` -/
noncomputable def rep (c : U → ℝ) : U → ℝ := @Quotient.out _ (finDiff U) (@Quotient.mk _ (finDiff U) c)

theorem rep_rel (c : U → ℝ) : (support (c - rep c)).Finite := by
  have h : (finDiff U).r (rep c) c := @Quotient.exact _ (finDiff U) _ _ (@Quotient.out_eq _ (finDiff U) _)
  exact (finDiff U).iseqv.symm h

theorem rep_update [DecidableEq U] (c : U → ℝ) (k : U) (w : ℝ) : rep (update c k w) = rep c := by
  unfold rep
  congr 1
  apply @Quotient.sound _ (finDiff U)
  show (support (update c k w - c)).Finite
  apply (Set.finite_singleton k).subset
  intro x hx
  by_contra hne
  have hne' : x ≠ k := hne
  apply hx
  simp [update_of_ne hne']

open Classical in
/-- sum of a value function: relative to the class representative, normalised on the finite-support class -/
noncomputable def F (c : U → ℝ) : ℝ :=
  (∑ᶠ x, (c x - rep c x)) + (if (support c).Finite then ∑ᶠ x, rep c x else 0)

theorem support_update_finite_iff [DecidableEq U] (c : U → ℝ) (k : U) (w : ℝ) :
    (support (update c k w)).Finite ↔ (support c).Finite := by
  constructor
  · intro h
    apply (h.union (Set.finite_singleton k)).subset
    intro x hx
    by_cases hxk : x = k
    · right; exact hxk
    · left; simpa [update_of_ne hxk] using hx
  · intro h
    apply (h.union (Set.finite_singleton k)).subset
    intro x hx
    by_cases hxk : x = k
    · right; exact hxk
    · left; simpa [update_of_ne hxk] using hx

theorem F_update [DecidableEq U] (c : U → ℝ) (k : U) (w : ℝ) : F (update c k w) = F c - c k + w := by
  unfold F
  rw [rep_update]
  have hfin : (support (update c k w)).Finite ↔ (support c).Finite := support_update_finite_iff c k w
  have hsplit : (fun x => update c k w x - rep c x) = (fun x => (c x - rep c x) + (if x = k then w - c k else 0)) := by
    funext x
    by_cases hxk : x = k
    · subst hxk; simp
    · simp [hxk]
  have h1 : (support (fun x => c x - rep c x)).Finite := rep_rel c
  have h2 : (support (fun x => if x = k then w - c k else (0 : ℝ))).Finite := by
    apply (Set.finite_singleton k).subset
    intro x hx
    by_contra hne
    have hne' : x ≠ k := hne
    apply hx
    simp [hne']
  have hk : (∑ᶠ x, (if x = k then w - c k else (0 : ℝ))) = w - c k := by
    rw [finsum_eq_single _ k]
    · simp
    · intro x hx; simp [hx]
  rw [hsplit, finsum_add_distrib h1 h2, hk]
  by_cases hf : (support c).Finite
  · simp only [hfin.2 hf, hf, if_true]; ring
  · have : ¬ (support (update c k w)).Finite := fun h => hf (hfin.1 h)
    simp only [this, hf, if_false]; ring

theorem F_finite (c : U → ℝ) (hc : (support c).Finite) : F c = ∑ᶠ x, c x := by
  unfold F
  simp only [hc, if_true]
  have h1 : (support (fun x => c x - rep c x)).Finite := rep_rel c
  have h2 : (support (fun x => rep c x)).Finite := by
    have : (fun x => rep c x) = (fun x => c x - (c x - rep c x)) := by funext x; ring
    rw [this]
    exact (hc.union h1).subset (support_sub _ _)
  rw [← finsum_add_distrib h1 h2]
  congr 1
  funext x; ring

/-- contribution of a key to the sum of the dict (present, vals) -/
def contrib (p : U → Bool) (t : U → ℝ) : U → ℝ := fun x => if p x = true then t x else 0

/-- **The model**: an interpretation of SUM on all arrays that satisfies the update axiom of c13.background
    and is the finite sum on every dict state (finite key set `s`). -/
theorem exists_SUM_model [DecidableEq U] :
    ∃ S : (U → Bool) → (U → ℝ) → ℝ,
      (∀ p t k b v, S (update p k b) (update t k v)
          = S p t - (if p k = true then t k else 0) + (if b = true then v else 0)) ∧
      (∀ (s : Finset U) t, S (fun x => decide (x ∈ s)) t = ∑ x ∈ s, t x) := by
  refine ⟨fun p t => F (contrib p t), ?_, ?_⟩
  · intro p t k b v
    have hc : contrib (update p k b) (update t k v) = update (contrib p t) k (if b = true then v else 0) := by
      funext x
      unfold contrib
      by_cases hxk : x = k
      · subst hxk; simp
      · simp [update_of_ne hxk]
    show F (contrib (update p k b) (update t k v)) = _
    rw [hc, F_update]
    unfold contrib
    ring
  · intro s t
    show F (contrib (fun x => decide (x ∈ s)) t) = _
    have hsupp : support (contrib (fun x => decide (x ∈ s)) t) ⊆ ↑s := by
      intro x hx
      by_contra hns
      apply hx
      have : x ∉ s := hns
      simp [contrib, this]
    rw [F_finite _ (s.finite_toSet.subset hsupp), finsum_eq_sum_of_support_subset _ hsupp]
    apply Finset.sum_congr rfl
    intro x hx
    simp [contrib, hx]

end S3TransferVerif

#print axioms S3TransferVerif.exists_SUM_model
