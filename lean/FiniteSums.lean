/-
Finite-sum lemmas used as background axioms / assumed instances by the C12 and C13 contracts
(contracts/c12.py: SUMW frame lemma; contracts/c13.py: SUM-update, SUM-member-bound).

A Python dict is a map with a FINITE key set.  In the SMT encoding it is a pair of arrays (present : U → Bool,
vals : U → value); here it is (s : Finset U, t : U → value) with present x ↔ x ∈ s, and

  SUM(present, vals)       = ∑ x ∈ s, t x                      (c13: total wait = sum of the scheduled shares, over ℝ)
  SUMW(present, seq, low)  = ∑ x ∈ s, (seq x - low x)           (c12: sum of the window sizes, over ℤ)

Store(present, k, b) is `if b then insert k s else s.erase k`, Store(vals, k, v) is `Function.update t k v`.
-/
import Mathlib.Algebra.BigOperators.Group.Finset.Basic
import Mathlib.Algebra.Order.BigOperators.Group.Finset
import Mathlib.Data.Real.Basic
import Mathlib.Tactic.Ring
import Mathlib.Tactic.Linarith

open Finset

namespace S3TransferVerif

variable {U : Type*} [DecidableEq U]

/-- updating the value at a key outside the key set does not change the sum -/
theorem sum_update_off {M : Type*} [AddCommMonoid M] (s : Finset U) (t : U → M) (k : U) (v : M) (hk : k ∉ s) :
    ∑ x ∈ s, Function.update t k v x = ∑ x ∈ s, t x := by
  apply Finset.sum_congr rfl
  intro x hx
  have hne : x ≠ k := fun h => hk (h ▸ hx)
  rw [Function.update_of_ne hne]

/-- the key set after `present[k] := b` -/
def store (s : Finset U) (k : U) (b : Bool) : Finset U := if b then insert k s else s.erase k

theorem mem_store (s : Finset U) (k : U) (b : Bool) (x : U) :
    x ∈ store s k b ↔ (if x = k then b = true else x ∈ s) := by
  unfold store
  by_cases hx : x = k
  · subst hx; cases b <;> simp
  · cases b <;> simp [hx]

/-- **SUM-update** (c13.background, first axiom): changing one key changes the sum by the change of that
    key's contribution. -/
theorem SUM_update (s : Finset U) (t : U → ℝ) (k : U) (b : Bool) (v : ℝ) :
    ∑ x ∈ store s k b, Function.update t k v x
      = (∑ x ∈ s, t x) - (if k ∈ s then t k else 0) + (if b = true then v else 0) := by
  unfold store
  by_cases hk : k ∈ s
  · have hs : ∑ x ∈ s, t x = t k + ∑ x ∈ s.erase k, t x := (Finset.add_sum_erase s t hk).symm
    cases b
    · simp only [Bool.false_eq_true, if_false, hk, if_true]
      rw [sum_update_off (s.erase k) t k v (Finset.notMem_erase k s), hs]; ring
    · simp only [if_true, hk]
      rw [Finset.insert_eq_of_mem hk, ← Finset.add_sum_erase s (Function.update t k v) hk,
        Function.update_self, sum_update_off (s.erase k) t k v (Finset.notMem_erase k s), hs]; ring
  · cases b
    · simp only [Bool.false_eq_true, if_false, hk]
      rw [Finset.erase_eq_of_notMem hk, sum_update_off s t k v hk]; ring
    · simp only [if_true, hk, if_false]
      rw [Finset.sum_insert hk, Function.update_self, sum_update_off s t k v hk]; ring

/-- **SUM-update, values untouched** (c13.background, second axiom) -/
theorem SUM_update_present (s : Finset U) (t : U → ℝ) (k : U) (b : Bool) :
    ∑ x ∈ store s k b, t x
      = (∑ x ∈ s, t x) - (if k ∈ s then t k else 0) + (if b = true then t k else 0) := by
  have h := SUM_update s t k b (t k)
  rwa [Function.update_eq_self] at h

/-- **SUM-member-bound** (c13.member_bound): all scheduled shares ≥ 0 ⇒ the sum is ≥ 0 and ≥ any member's share -/
theorem SUM_nonneg (s : Finset U) (t : U → ℝ) (h : ∀ x ∈ s, 0 ≤ t x) : 0 ≤ ∑ x ∈ s, t x :=
  Finset.sum_nonneg h

theorem SUM_member_bound (s : Finset U) (t : U → ℝ) (h : ∀ x ∈ s, 0 ≤ t x) (k : U) (hk : k ∈ s) :
    t k ≤ ∑ x ∈ s, t x :=
  Finset.single_le_sum h hk

/-- **SUMW frame lemma** (c12.frame_lemma): two dict states that agree off the key `k` (same presence, and the
    same values where present) have sums that differ by the change of `k`'s term. -/
theorem SUMW_frame (s0 s1 : Finset U) (f0 f1 : U → ℤ) (k : U)
    (hp : ∀ x, x ≠ k → (x ∈ s0 ↔ x ∈ s1))
    (hv : ∀ x, x ≠ k → x ∈ s0 → f0 x = f1 x) :
    ∑ x ∈ s1, f1 x = (∑ x ∈ s0, f0 x) - (if k ∈ s0 then f0 k else 0) + (if k ∈ s1 then f1 k else 0) := by
  have he : s0.erase k = s1.erase k := by
    ext x
    simp only [Finset.mem_erase]
    constructor
    · rintro ⟨hx, hm⟩; exact ⟨hx, (hp x hx).1 hm⟩
    · rintro ⟨hx, hm⟩; exact ⟨hx, (hp x hx).2 hm⟩
  have hsum : ∑ x ∈ s0.erase k, f0 x = ∑ x ∈ s1.erase k, f1 x := by
    rw [← he]
    apply Finset.sum_congr rfl
    intro x hx
    rw [Finset.mem_erase] at hx
    exact hv x hx.1 hx.2
  have d0 : ∑ x ∈ s0, f0 x = (if k ∈ s0 then f0 k else 0) + ∑ x ∈ s0.erase k, f0 x := by
    by_cases h : k ∈ s0
    · simp only [h, if_true]; exact (Finset.add_sum_erase s0 f0 h).symm
    · simp only [h, if_false, zero_add]; rw [Finset.erase_eq_of_notMem h]
  have d1 : ∑ x ∈ s1, f1 x = (if k ∈ s1 then f1 k else 0) + ∑ x ∈ s1.erase k, f1 x := by
    by_cases h : k ∈ s1
    · simp only [h, if_true]; exact (Finset.add_sum_erase s1 f1 h).symm
    · simp only [h, if_false, zero_add]; rw [Finset.erase_eq_of_notMem h]
  rw [d1, d0, hsum]; ring

end S3TransferVerif

#print axioms S3TransferVerif.SUM_update
#print axioms S3TransferVerif.SUM_update_present
#print axioms S3TransferVerif.SUM_member_bound
#print axioms S3TransferVerif.SUMW_frame
