"""Concrete (plain Python, no z3) oracles: the same postconditions as the sidecar contracts, used
by replay scripts and by the bounded CPython cross-check (B3).  Each oracle takes the argument
dict, the result (or None) and the raised exception (or None) and returns (ok: bool, why: str)."""

MiB = 1024 * 1024
GiB = 1024 * MiB
TiB = 1024 * GiB


def ceil_div(s, p):
    return -((-s) // p)


def pre_calculate_num_parts(a):
    return 0 <= a['size'] < 2 ** 53 and 0 < a['part_size'] < 2 ** 53


def oracle_calculate_num_parts(a, result, exc):
    if exc is not None:
        return False, f'raised {exc!r}'
    exp = ceil_div(a['size'], a['part_size'])
    return result == exp, f'expected {exp}, got {result}'


def pre_calculate_range_parameter(a):
    return a['part_size'] > 0 and 0 <= a['part_index'] < a['num_parts'] and (
        a['total_size'] is None or a['total_size'] >= 1)


def oracle_calculate_range_parameter(a, result, exc):
    if exc is not None:
        return False, f'raised {exc!r}'
    lo = a['part_index'] * a['part_size']
    if a['part_index'] == a['num_parts'] - 1:
        exp = f'bytes={lo}-' if a['total_size'] is None else f'bytes={lo}-{a["total_size"] - 1}'
    else:
        exp = f'bytes={lo}-{lo + a["part_size"] - 1}'
    return result == exp, f'expected {exp!r}, got {result!r}'


def pre_adjust_chunksize(a):
    return a['current_chunksize'] >= 1 and (a['file_size'] is None or 0 <= a['file_size'] <= 5 * TiB)


def oracle_adjust_chunksize(a, result, exc):
    if exc is not None:
        return False, f'raised {exc!r}'
    c, size = a['current_chunksize'], a['file_size']
    if not (5 * MiB <= result <= 5 * GiB):
        return False, f'result {result} outside [5 MiB, 5 GiB]'
    if size is not None:
        if ceil_div(size, result) > 10000:
            return False, f'{ceil_div(size, result)} parts for size {size}, chunksize {result}'
        if 5 * MiB <= c <= 5 * GiB and ceil_div(size, c) <= 10000 and result != c:
            return False, f'chunksize {c} changed to {result} although no limit requires it'
    elif 5 * MiB <= c <= 5 * GiB and result != c:
        return False, f'chunksize {c} changed to {result} although no limit requires it'
    return True, ''


def pre_get_temp_filename(a):
    import os
    name = os.path.basename(a['filename'])
    return len(name) >= 1


def oracle_get_temp_filename(a, result, exc):
    import os
    import re
    if exc is not None:
        return False, f'raised {exc!r}'
    name = os.path.basename(result)
    if result == a['filename']:
        return False, 'the temporary name IS the destination name'
    if os.path.dirname(result) != os.path.dirname(a['filename']):
        return False, 'temporary file not in the destination directory'
    if len(name) > 255:
        return False, f'temporary name has {len(name)} characters'
    if not re.search(r'\.[0-9A-Fa-f]{8}$', name):
        return False, f'random suffix truncated: {name[-12:]!r}'
    return True, 'ok'
