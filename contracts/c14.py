"""C14 -- part planning tiles the object and respects S3 limits (pure planners)."""
import z3

from pyvc.contracts import Bool, Const, Int, LoopSpec, ObjT, OptT, Real
from pyvc.values import Opt, to_int_term

from .spec import GiB, MiB, TWO53, TiB, b2z, implies, is_ceil_div, range_header

U = 's3transfer.utils'


def _const(name):
    return Const(lambda eng, st: eng.module_global(eng.repo.modules[U], name, st))


def _ieee_terms():
    a, b, k, c = z3.Ints('a b k c')
    d = z3.Real('d')
    q = z3.ToReal(a) / z3.ToReal(b)
    hyp = z3.And(
        a >= 0, a < TWO53, b > 0, b < TWO53,
        k * b <= a, a < (k + 1) * b,             # k = floor(a / b)
        d - q <= q / TWO53, q - d <= q / TWO53,  # d = RN(a/b): relative error <= 2**-53
        d >= z3.ToReal(k), d <= z3.ToReal(k + 1),  # RN is monotone and k, k+1 are representable
        z3.Implies(a == k * b, d == z3.ToReal(k)),  # exact when the quotient is an integer
    )
    mid = z3.Or(z3.And(a == k * b, d == z3.ToReal(k)),
                z3.And(a > k * b, d > z3.ToReal(k), d <= z3.ToReal(k + 1)))
    return a, b, k, c, d, hyp, mid


def lemma_ieee_step1():
    """A-IEEE (the double d returned by a / float(b) for ints 0 <= a < 2**53, 0 < b < 2**53 is the
    correctly rounded quotient) => d lies in the same unit interval (k, k+1] as the exact
    quotient, or equals it when it is an integer."""
    a, b, k, c, d, hyp, mid = _ieee_terms()
    return z3.Implies(hyp, mid)


def lemma_ieee_step2():
    """... hence math.ceil(d) is k when the quotient is the integer k, else k + 1."""
    a, b, k, c, d, hyp, mid = _ieee_terms()
    ceil_d = z3.And(z3.ToReal(c) - 1 < d, d <= z3.ToReal(c))
    return z3.Implies(z3.And(mid, ceil_d), z3.Or(z3.And(a == k * b, c == k), z3.And(a > k * b, c == k + 1)))


def lemma_ieee_step3():
    """... which is ceil_div(a, b): the real-arithmetic model of int(math.ceil(a / float(b))) used
    by the engine is exact for 0 <= a < 2**53, 0 < b < 2**53."""
    a, b, k, c = z3.Ints('a b k c')
    return z3.Implies(z3.And(b > 0, k * b <= a, a < (k + 1) * b,
                             z3.Or(z3.And(a == k * b, c == k), z3.And(a > k * b, c == k + 1))),
                      is_ceil_div(c, a, b))


def register(R):
    R.lemmas.append(('C14', 'lemma.ieee_ceil_div.step1_same_unit_interval', lemma_ieee_step1))
    R.lemmas.append(('C14', 'lemma.ieee_ceil_div.step2_ceil_is_k_or_k_plus_1', lemma_ieee_step2))
    R.lemmas.append(('C14', 'lemma.ieee_ceil_div.step3_equals_ceil_div', lemma_ieee_step3))

    # ------------------------------------------------------------------ calculate_num_parts
    R.contract(
        f'{U}:calculate_num_parts', props=['C14'], top=True,
        params=dict(size=Int, part_size=Int),
        requires=lambda c: [c.a_size >= 0, c.a_size < TWO53, c.a_part_size > 0, c.a_part_size < TWO53],
        ensures=lambda c: {'is_ceil_div': is_ceil_div(c.result, c.a_size, c.a_part_size)},
        returns=Int,
        twins=lambda c: {'floor_div_instead': z3.And(c.result * c.a_part_size <= c.a_size,
                                                     (c.result + 1) * c.a_part_size > c.a_size)},
        replay=dict(module=U, func='calculate_num_parts', oracle='calculate_num_parts'),
    )

    # ------------------------------------------------------------------ calculate_range_parameter
    def range_post(c):
        from pyvc.values import Opaque
        if isinstance(c.result, Opaque):
            return {}   # call site: the result is defined by construction (see _range_result)
        eng, st = c.engine, c.new.st
        i, n, p, t = c.a_part_index, c.a_num_parts, c.a_part_size, c.a_total_size
        last = (i == n - 1)
        eq = lambda exp: b2z(eng.value_eq(c.result, exp, st))
        return {
            'inner_part_closed_range': implies(z3.Not(last), eq(range_header(i * p, (i + 1) * p - 1))),
            'last_part_open_when_size_unknown': implies(z3.And(last, t.is_none), eq(range_header(i * p))),
            'last_part_ends_at_size': implies(z3.And(last, z3.Not(t.is_none)), eq(range_header(i * p, t.val - 1))),
        }

    R.contract(
        f'{U}:calculate_range_parameter', props=['C14', 'C02', 'C01'], top=True,
        params=dict(part_size=Int, part_index=Int, num_parts=Int, total_size=OptT(Int)),
        requires=lambda c: [c.a_part_size > 0, c.a_part_index >= 0, c.a_part_index < c.a_num_parts,
                            z3.Or(c.a_total_size.is_none, c.a_total_size.val >= 1)],
        ensures=range_post,
        returns=lambda c, st: _range_result(c),
        twins=lambda c: {'last_part_ends_at_size_not_size_minus_1': implies(
            z3.And(c.a_part_index == c.a_num_parts - 1, z3.Not(c.a_total_size.is_none)),
            b2z(c.engine.value_eq(c.result, range_header(c.a_part_index * c.a_part_size, c.a_total_size.val), c.new.st)))},
        replay=dict(module=U, func='calculate_range_parameter', oracle='calculate_range_parameter'),
    )

    # ------------------------------------------------------------------ ChunksizeAdjuster
    adj_fields = dict(max_size=_const('MAX_SINGLE_UPLOAD_SIZE'), min_size=_const('MIN_UPLOAD_CHUNKSIZE'),
                      max_parts=_const('MAX_PARTS'))
    R.add_fields(f'{U}:ChunksizeAdjuster', **adj_fields)


    R.contract(
        f'{U}:ChunksizeAdjuster.__init__', props=['C14'],
        self_type=ObjT(f'{U}:ChunksizeAdjuster', max_size=Const(None), min_size=Const(None), max_parts=Const(None)),
        params={},
        ensures=lambda c: {
            'max_size_is_5GiB': b2z(c.newf('max_size') == 5 * GiB),
            'min_size_is_5MiB': b2z(c.newf('min_size') == 5 * MiB),
            'max_parts_is_10000': b2z(c.newf('max_parts') == 10000),
        },
        effects=lambda c, st: _init_adjuster(c, st),
    )

    R.contract(
        f'{U}:ChunksizeAdjuster._adjust_for_chunksize_limits', props=['C14'],
        params=dict(current_chunksize=Int),
        ensures=lambda c: {
            'clamped': c.result == z3.If(c.a_current_chunksize > c.oldf('max_size'), c.oldf('max_size'),
                                         z3.If(c.a_current_chunksize < c.oldf('min_size'), c.oldf('min_size'),
                                               c.a_current_chunksize)),
        },
        returns=Int,
    )

    def mp_inv(l):
        cs, cur, fs, n = l.local('chunksize'), l.local('current_chunksize'), l.local('file_size'), l.local('num_parts')
        mp = l.f(l.local('self'), 'max_parts')
        return {
            'chunksize_positive': z3.And(cs >= cur, cs >= 1),
            'num_parts_is_ceil_div': is_ceil_div(n, fs, cs),
            'doubled_only_when_needed': z3.Or(cs == cur, z3.And(cs % 2 == 0, cs / 2 >= cur, mp * (cs / 2) < fs)),
            'ieee_domain': cs < TWO53,
        }

    R.contract(
        f'{U}:ChunksizeAdjuster._adjust_for_max_parts', props=['C14'],
        params=dict(current_chunksize=Int, file_size=Int),
        requires=lambda c: [c.a_current_chunksize >= 1, c.a_current_chunksize < TWO53,
                            c.a_file_size >= 0, c.a_file_size < TWO53],
        ensures=lambda c: {
            'at_most_max_parts': c.a_file_size <= c.oldf('max_parts') * c.result,
            'unchanged_if_fits': implies(c.a_file_size <= c.oldf('max_parts') * c.a_current_chunksize,
                                         c.result == c.a_current_chunksize),
            'least_doubling': z3.Or(c.result == c.a_current_chunksize,
                                    z3.And(c.result % 2 == 0, c.oldf('max_parts') * (c.result / 2) < c.a_file_size)),
            'not_smaller': c.result >= c.a_current_chunksize,
        },
        returns=Int,
        loops={0: LoopSpec(invariant=mp_inv,
                           variant=lambda l: l.local('file_size') - l.f(l.local('self'), 'max_parts') * l.local('chunksize'))},
    )

    def adjust_post(c):
        r, cur, fs = c.result, c.a_current_chunksize, c.a_file_size
        known = z3.Not(fs.is_none)
        fits = z3.And(cur >= 5 * MiB, cur <= 5 * GiB)
        return {
            'within_s3_part_limits': z3.And(r >= 5 * MiB, r <= 5 * GiB),
            'at_most_10000_parts': implies(known, fs.val <= 10000 * r),
            'unchanged_unless_a_limit_requires': implies(
                z3.And(fits, z3.Or(fs.is_none, fs.val <= 10000 * cur)), r == cur),
        }

    R.contract(
        f'{U}:ChunksizeAdjuster.adjust_chunksize', props=['C14', 'C11'], top=True,
        params=dict(current_chunksize=Int, file_size=OptT(Int)),
        requires=lambda c: [c.a_current_chunksize >= 1, c.a_current_chunksize < TWO53,
                            z3.Or(c.a_file_size.is_none, z3.And(c.a_file_size.val >= 0, c.a_file_size.val <= 5 * TiB))],
        ensures=adjust_post,
        returns=Int,
        twins=lambda c: {'never_changes': c.result == c.a_current_chunksize,
                         'at_most_9999_parts': implies(z3.Not(c.a_file_size.is_none), c.a_file_size.val <= 9999 * c.result)},
        replay=dict(module=U, cls='ChunksizeAdjuster', func='adjust_chunksize', oracle='adjust_chunksize'),
    )


def range_term(eng, lo, hi=None):
    """The header string as an opaque term (the engine's injection of structured strings)."""
    return eng.fstr_as_u(range_header(lo, hi))


def _range_result(c):
    """Result at call sites: the header the postcondition describes, as one opaque string term."""
    from pyvc.values import Opaque
    eng = c.engine
    i, n, p, t = to_int_term(c.a_part_index), to_int_term(c.a_num_parts), to_int_term(c.a_part_size), c.a_total_size
    last = (i == n - 1)
    closed_inner = range_term(eng, i * p, (i + 1) * p - 1)
    open_last = range_term(eng, i * p)
    closed_last = range_term(eng, i * p, t.val - 1)
    return Opaque(z3.If(last, z3.If(t.is_none, open_last, closed_last), closed_inner), kind='str', label='range')


def _init_adjuster(c, st):
    h = st.obj(c.self)
    h.fields['max_size'] = 5 * GiB
    h.fields['min_size'] = 5 * MiB
    h.fields['max_parts'] = 10000
    return None


ROOTS = [
    's3transfer.upload:UploadSubmissionTask._submit', 's3transfer.upload:UploadSubmissionTask._submit_multipart_request',
    's3transfer.copies:CopySubmissionTask._submit', 's3transfer.copies:CopySubmissionTask._submit_multipart_request',
    's3transfer.download:DownloadSubmissionTask._submit', 's3transfer.download:DownloadSubmissionTask._submit_ranged_download_request',
    f'{U}:calculate_num_parts',
    f'{U}:calculate_range_parameter',
    f'{U}:ChunksizeAdjuster.__init__',
    f'{U}:ChunksizeAdjuster._adjust_for_chunksize_limits',
    f'{U}:ChunksizeAdjuster._adjust_for_max_parts',
    f'{U}:ChunksizeAdjuster.adjust_chunksize',
]

MANIFEST = dict(
    category='proof',
    text=('Every obligation generated from the real source of the planners (calculate_num_parts, '
          'calculate_range_parameter, ChunksizeAdjuster.*) against contracts taken from the property statement is '
          'discharged by z3 for all integers (no scaling down, no bound on loop iterations; the doubling loop has an '
          'inductive invariant and a variant); an IEEE-754 lemma proves the float ceil-division exact below 2**53.'
          " Also: the legacy parts thread plans ceil(size / chunksize) ranges and maps _download_range over all of them with the caller's arguments."),
    note=('Python ints are mathematical; size/float(part) is modelled over the reals, justified by the proved lemma '
          'from A-IEEE (correct rounding, monotonicity, exactness on integers) for operands < 2**53 (checked at each '
          'division site); f-strings of non-negative ints are compared component-wise (A-FMT).'),
    technique='contract-based deductive verification: own AST->z3 VC generator, sidecar pre/post + loop invariants',
)
LEVEL = 'proof'
TRUSTED = ['A-IEEE', 'A-FMT', 'A-REAL (only through the proved lemma)']
ASSUMPTIONS = TRUSTED
EXPLANATION = 'pure integer planners verified against spec functions (ceil_div, range_header) for all inputs'


from .b_legacy import LEGACY_C14  # noqa: E402
ROOTS = ROOTS + LEGACY_C14
