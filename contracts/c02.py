"""C02 -- downloads deliver exactly the object bytes, also across stream retries."""
from .a_submit import DL, UT

GOT = f'{DL}:GetObjectTask'
DNS = f'{DL}:DownloadNonSeekableOutputManager'

DST = f'{DL}:DownloadSubmissionTask'
ROOTS = [f'{GOT}._main', f'{DL}:DownloadChunkIterator.__next__', f'{DNS}.get_io_write_tasks', f'{DL}:DeferQueue.request_writes',
         f'{UT}:calculate_range_parameter', f'{UT}:calculate_num_parts', f'{DST}._submit', f'{DST}._submit_download_request',
         f'{DST}._submit_ranged_download_request', f'{DL}:IOWriteTask._main', f'{DL}:IOStreamingWriteTask._main',
         f'{DL}:DownloadOutputManager.queue_file_io_task']


def bounded_checks(tier, seed):
    from pyvc.bounded import run_tool
    n, k = (6, 3) if tier == 'quick' else (7, 4)
    from pyvc.bounded import merge
    n2, k2 = (5, 3) if tier == 'quick' else (6, 4)
    return merge(
        run_tool('C02', 'b3_deferqueue', 'b3_deferqueue.py', [n, k],
                 f'object of {n} bytes, all histories of <= {k} deliveries (any offset/length)', 'failing_history'),
        run_tool('C02', 'b3_streamsink', 'b3_streamsink.py', [n2, k2],
                 f'real stream output manager (immediate and queued writes), object of {n2} bytes, all histories of <= {k2} deliveries', 'failing_history'))


MANIFEST = dict(
    category='proof',
    text=('GetObjectTask._main (both task classes x four destination kinds): nested loop invariants -- within an attempt the '
          'write position equals start_index + bytes delivered of that attempt, every chunk (of ANY size the network read '
          'returned) goes to IO as the object bytes at exactly that offset, an attempt that ends in a retryable stream error '
          'restarts from start_index, normal return means the last attempt delivered its whole body (or the transfer was '
          'already done), at most num_download_attempts requests, the empty object delivers one empty chunk. Offset-addressed '
          'destinations receive data-at-its-offset only (idempotent overwrite); streaming destinations receive each byte once '
          'in order through the DeferQueue contract (C16), also for immediate writes. Ranged submission: Range header i is '
          'the window [i*c, (i+1)*c-1] (last open-ended), start_index = i*c, n = ceil_div(size, c), user extra args forwarded.'
          ' Every accepted chunk is handed to IO exactly once. Legacy S3Transfer single GET (_get_object / _do_get_object: every byte of the body is written, file opened from scratch per attempt) and ranged GET (_download_range, MultipartDownloader.download_file returns only if the parts thread and the IO thread both succeeded).'),
    note=('Each attempt body is the requested range of the same immutable object (A-RANGE-BODY); the single IO thread runs '
          'submitted writes in submission order (A-EXECUTOR); legacy and process-pool download loops are covered under '
          'their own properties where built.'),
    technique='contract-based deductive verification: nested loop invariants + per-iteration obligations over byte views, z3',
)
LEVEL = 'proof'
TRUSTED = ['A-RANGE-BODY', 'A-EXECUTOR', 'A-FILE']
ASSUMPTIONS = TRUSTED
EXPLANATION = 'download byte exactness by loop invariants over views of the object'

from .b_legacy import LEGACY_C02
ROOTS = ROOTS + LEGACY_C02


def register(R):
    pass
