"""C19 -- process-pool downloads finish only after all jobs, with cleanup (per-function protocol contracts).

The cross-process machinery (multiprocessing queues, manager proxies) is assumed FIFO and reliable; what is
proved is the protocol each function follows on every path: expected-jobs notification before the first job,
exactly n jobs, one job-complete notification per job, finalisation exactly when the count reaches zero,
notify_done last, temp file renamed or removed."""
import z3

from pyvc.contracts import Any, Bool, BytesT, Const, ExtSpec, ExtT, Int, ListOfT, LockT, LoopSpec, MapT, ObjT, OptT, Str
from pyvc.engine import ok, rs
from pyvc.state import Event
from pyvc.values import Builtin, ExcV, HObj, Opaque, Opt, Ref, U, fresh_name, to_int_term

from .a_common import is_none
from .a_submit import CFG, EXTRA, UT
from .a_tasks import calls, exts, flat, index_of, trivial_loop, only_propagates
from .spec import TWO53, b2z, implies, is_ceil_div

B = z3.BoolVal
PP = 's3transfer.processpool'
SUB, WRK, TS = f'{PP}:GetObjectSubmitter', f'{PP}:GetObjectWorker', f'{PP}:TransferState'
kk_ = z3.String('kk_')


def mon(tr, name):
    return [e for e in flat(tr) if e.kind == 'ext' and e.name == f'monitor.{name}']


def puts(tr):
    return [e for e in flat(tr) if e.kind == 'ext' and e.name == 'mpqueue.put']


def register(R):
    # namedtuples as records
    def mk_record(eng, st, args, kwargs, line):
        return [ok(('record', dict(kwargs)), st)]
    for nm in ('GetObjectJob', 'DownloadFileRequest'):
        R.global_overrides[(PP, nm)] = Builtin(f'processpool.{nm}')
        R.builtin_models[f'processpool.{nm}'] = mk_record

    R.external('monitor',
               notify_expected_jobs_to_complete=ExtSpec(raises=('Exception',)),
               notify_exception=ExtSpec(raises=()), notify_done=ExtSpec(raises=()),
               get_exception=ExtSpec(returns=OptT(ExtT('exception')), raises=()),
               notify_job_complete=ExtSpec(returns=Int, raises=()),
               notify_cancel_all_in_progress=ExtSpec(raises=()), notify_new_transfer=ExtSpec(returns=ExtT('id'), raises=()),
               is_done=ExtSpec(returns=Bool, raises=()),
               poll_for_result=ExtSpec(returns=Any, raises=('Exception', 'KeyboardInterrupt'), blocking=True),
               _connect=ExtSpec(raises=()))
    # what a queue hands out is a job / request tuple OR the shutdown sentinel (a string): `item == SHUTDOWN_SIGNAL` is undetermined
    R.maybe_str_kinds = set(getattr(R, 'maybe_str_kinds', ())) | {'queue_item'}
    R.external('mpqueue', put=ExtSpec(raises=('Exception',), blocking=True), get=ExtSpec(returns=ExtT('queue_item'), raises=(), blocking=True))
    R.external('process', join=ExtSpec(raises=(), blocking=True), start=ExtSpec(raises=()))
    R.external('mpmanager', shutdown=ExtSpec(raises=()))

    # ------------------------------------------------------------------ TransferState (K2)
    R.add_fields(TS, _exception=OptT(ExtT('exception')), _done_event=LockT(kind='event'), _job_lock=LockT(), _jobs_to_complete=Int)
    R.monitor(TS, lock='_job_lock', fields=dict(_jobs_to_complete=Int), invariant=lambda v, ref: {}, props=['C19'])
    R.contract(f'{TS}.decrement_jobs_to_complete', props=['C19'], self_type=ObjT(TS, shared=True), old_at='acquire', params={},
               ensures=lambda c: {'atomically_one_less': c.newf('_jobs_to_complete') == c.oldf('_jobs_to_complete') - 1,
                                  'returns_the_new_value': c.result == c.newf('_jobs_to_complete')},
               returns=Int)

    # ------------------------------------------------------------------ submitter
    R.add_fields(SUB, _client=ExtT('client'), _transfer_config=ObjT(CFG), _transfer_monitor=ExtT('monitor'),
                 _osutil=ObjT(f'{UT}:OSUtils'), _download_request_queue=ExtT('mpqueue'), _worker_queue=ExtT('mpqueue'),
                 _client_factory=ExtT('client_factory'))
    REQ = Const(lambda eng, st: ('record', {
        'transfer_id': Opaque('transfer_id', kind='id'), 'bucket': Opaque('bucket', kind='str'), 'key': Opaque('key', kind='str'),
        'filename': Opaque('filename', kind='fileobj_or_name'), 'extra_args': eng.make_symbolic(EXTRA, 'extra_args', st),
        'expected_size': eng.make_symbolic(OptT(Int), 'expected_size', st)}))
    R.mark_inline(f'{SUB}._submit_get_object_job', f'{SUB}._notify_jobs_to_complete', f'{SUB}._get_size', f'{SUB}._allocate_temp_file')
    # OSUtils.allocate: creates the temp file at full size; a failure removes what was created (no temp file is left)
    R.contract(f'{UT}:OSUtils.open', params=dict(filename=ExtT('str'), mode=Str), returns=ExtT('allocfile'), raise_when={'OSError': lambda c: None})
    R.external('allocfile', __enter__=ExtSpec(returns=lambda eng, st, recv, a, k: recv, pure=True), __exit__=ExtSpec(raises=('OSError',)))
    R.contract('s3transfer.compat:fallocate', params=dict(fileobj=ExtT('allocfile'), size=Int), raise_when={'OSError': lambda c: None})

    def alloc_common(c):
        op, fa, rm = calls(c.trace, 'OSUtils.open'), calls(c.trace, 'fallocate'), calls(c.trace, 'OSUtils.remove_file')
        return op, fa, rm

    R.contract(f'{UT}:OSUtils.allocate', props=['C19', 'C06'], params=dict(filename=ExtT('str'), size=Int),
               checks=lambda c: {
                   'creates_that_file_at_the_requested_size': B(
                       len(alloc_common(c)[0]) == 1 and alloc_common(c)[0][0].extra['env']['filename'] is c.a_filename
                       and len(alloc_common(c)[1]) == 1 and alloc_common(c)[1][0].extra['env']['size'] is c.a_size),
                   'nothing_removed_on_success': B(not alloc_common(c)[2])},
               raises={'OSError': lambda c: {'a_failed_allocation_removes_the_file': B(
                   len(alloc_common(c)[2]) == 1 and alloc_common(c)[2][0].extra['env']['filename'] is c.a_filename
                   and index_of(c.trace, alloc_common(c)[2][0]) == len(c.trace) - 1)}},
               raise_when={'OSError': lambda c: None})

    def job_of(ev):
        j = ev.args[0]
        return j[1] if isinstance(j, tuple) and j and j[0] == 'record' else None

    def single_checks(c):
        tr = c.trace
        ne, pu = mon(tr, 'notify_expected_jobs_to_complete'), puts(tr)
        req = c.a_download_file_request[1]
        okk = len(ne) == 1 and len(pu) == 1 and index_of(flat(tr), ne[0]) < index_of(flat(tr), pu[0]) and ne[0].args == (req['transfer_id'], 1)
        j = job_of(pu[0]) if pu else None
        return {
            'expected_jobs_announced_as_one_before_the_job_is_queued': B(bool(okk)),
            'the_job_downloads_the_whole_object_to_the_temp_file': B(
                j is not None and j['offset'] == 0 and j['temp_filename'] is c.a_temp_filename and j['filename'] is req['filename']
                and j['bucket'] is req['bucket'] and j['key'] is req['key'] and j['transfer_id'] is req['transfer_id']),
            'user_extra_args_forwarded': (B(j is not None and j['extra_args'] is req['extra_args']), ['C15', 'C19']),
        }

    R.contract(f'{SUB}._submit_single_get_object_job', props=['C19', 'C15'],
               params=dict(download_file_request=REQ, temp_filename=ExtT('str')),
               checks=single_checks, raises={'Exception': only_propagates}, raise_when={'Exception': lambda c: None})

    def ranged_iteration(l0, l1, evs):
        pu = [e for e in evs if e.kind == 'ext' and e.name == 'mpqueue.put']
        out = {'one_job_per_part': B(len(pu) == 1)}
        if len(pu) == 1:
            j = job_of(pu[0])
            env = l1.st.env
            i = to_int_term(l0.index)
            ps, n = env['part_size'], env['num_parts']
            req = env['download_file_request'][1]
            from .c14 import range_term
            from .a_submit import register as _r
            m = l1.st.obj(j['extra_args']).meta
            up = l1.st.obj(req['extra_args']).meta
            R_ = z3.StringVal('Range')
            want = z3.If(i == to_int_term(n) - 1, range_term(l1.engine, i * ps), range_term(l1.engine, i * ps, (i + 1) * ps - 1))
            out['job_writes_at_part_index_times_part_size'] = to_int_term(j['offset']) == i * ps
            out['range_header_is_the_parts_window'] = z3.And(z3.Select(m['present'], R_), z3.Select(m['vals'], R_) == want)
            out['users_extra_args_forwarded_next_to_the_range'] = (z3.ForAll([kk_], z3.Implies(kk_ != R_, z3.And(
                z3.Select(m['present'], kk_) == z3.Select(up['present'], kk_),
                z3.Implies(z3.Select(up['present'], kk_), z3.Select(m['vals'], kk_) == z3.Select(up['vals'], kk_))))), ['C15', 'C19'])
            out['same_temp_file_and_destination'] = B(j['temp_filename'] is env['temp_filename'] and j['filename'] is req['filename'])
        return out

    def ranged_checks(c):
        tr = c.trace
        ne = mon(tr, 'notify_expected_jobs_to_complete')
        loops = [e for e in tr if e.kind == 'loop']
        env = c.new.st.env
        req = c.a_download_file_request[1]
        return {
            'expected_jobs_announced_before_the_first_job': B(
                len(ne) == 1 and len(loops) == 1 and index_of(tr, ne[0]) < index_of(tr, loops[0])
                and ne[0].args[0] is req['transfer_id'] and ne[0].args[1] is env.get('num_parts')),
            'announced_number_is_ceil_size_over_part_size_and_at_least_one': z3.And(
                is_ceil_div(env['num_parts'], c.a_size, env['part_size']), to_int_term(env['num_parts']) >= 1),
            'exactly_the_announced_number_of_jobs_is_queued': B(len(loops) == 1 and loops[0].ctx.length is not None),
        }

    def ranged_setup(eng, st, args, self_val):
        cfg = st.obj(st.obj(self_val).fields['_transfer_config'])
        st.assume(z3.And(args['size'] >= cfg.fields['multipart_threshold'], args['size'] < TWO53, cfg.fields['multipart_chunksize'] < TWO53))
        m = st.obj(args['download_file_request'][1]['extra_args']).meta
        st.assume(z3.Not(z3.Select(m['present'], z3.StringVal('Range'))))

    R.contract(f'{SUB}._submit_ranged_get_object_jobs', props=['C19', 'C15', 'C14'],
               params=dict(download_file_request=REQ, temp_filename=ExtT('str'), size=Int),
               setup=ranged_setup, checks=ranged_checks,
               raises={'Exception': only_propagates}, raise_when={'Exception': lambda c: None},
               loops={0: LoopSpec(invariant=lambda l: {}, iteration_checks=ranged_iteration)})

    def sgoj_checks(c):
        tr = c.trace
        single, ranged = calls(tr, '_submit_single_get_object_job'), calls(tr, '_submit_ranged_get_object_jobs')
        alloc = calls(tr, 'OSUtils.allocate')
        head = exts(tr, 'client.head_object')
        req = c.a_download_file_request[1]
        thr = c.old.f(c.oldf('_transfer_config'), 'multipart_threshold')
        ev = single + ranged
        size = ranged[0].extra['env']['size'] if ranged else None
        out = {
            'temp_file_allocated_before_any_job': B(len(alloc) == 1 and len(ev) == 1 and index_of(tr, alloc[0]) < index_of(tr, ev[0])),
            'head_object_iff_no_expected_size': z3.If(is_none(req['expected_size']), B(len(head) == 1), B(len(head) == 0)),
        }
        if alloc:
            sz = alloc[0].extra['env']['size']
            out['ranged_iff_size_at_least_threshold'] = ((to_int_term(sz) >= thr) if ranged else (to_int_term(sz) < thr), ['C14', 'C19'])
        if head:
            sp = head[0].extra.get('splat')
            m = c.old.st.obj(req['extra_args']).meta
            out['head_object_gets_the_users_extra_args'] = (B(sp is not None and sp['present'].eq(m['present']) and sp['vals'].eq(m['vals'])), ['C15'])
        return out

    R.contract(f'{SUB}._submit_get_object_jobs', props=['C19', 'C15', 'C14'], params=dict(download_file_request=REQ),
               checks=sgoj_checks, raises={'Exception': only_propagates}, raise_when={'Exception': lambda c: None})

    # submitter loop: any failure is reported as exception then done, for that transfer
    R.external('queue_item', **{'.transfer_id': ExtSpec(returns=lambda eng, st, recv, a, k: Opaque(z3.Function('item_transfer_id', U, U)(recv.term), kind='id'), pure=True)})

    def sub_run_iteration(l0, l1, evs):
        call = [e for e in evs if e.kind == 'call' and e.name.endswith('_submit_get_object_jobs')]
        ne, nd = [e for e in evs if e.kind == 'ext' and e.name == 'monitor.notify_exception'], [e for e in evs if e.kind == 'ext' and e.name == 'monitor.notify_done']
        failed = [e for e in call if e.extra.get('raised') is not None]
        return {
            'one_request_handled_per_iteration': B(len(call) == 1),
            'failure_reported_as_exception_then_done': B(
                (not failed and not ne and not nd) or (len(failed) == 1 and len(ne) == 1 and len(nd) == 1
                                                      and ne[0].args[1] is failed[0].extra['raised']
                                                      and index_of(evs, ne[0]) < index_of(evs, nd[0]))),
        }

    def sub_exit_checks(c):
        gets = [e for e in c.trace if e.kind == 'ext' and e.name == 'mpqueue.get']
        from pyvc.values import to_z3_bool
        return {'returns_only_on_the_shutdown_signal': (z3.And(B(len(gets) == 1), to_z3_bool(c.engine.value_eq(gets[-1].result, 'SHUTDOWN', c.new.st)))
                                                        if gets else B(False))}

    R.contract(f'{SUB}._do_run', props=['C19'], params={},
               checks=sub_exit_checks, raises={},
               loops={0: LoopSpec(invariant=lambda l: {}, iteration_checks=sub_run_iteration)})
    R.contract(f'{PP}:GetObjectSubmitter._submit_get_object_jobs#') if False else None

    # ------------------------------------------------------------------ worker
    R.add_fields(WRK, _client=ExtT('client'), _queue=ExtT('mpqueue'), _client_factory=ExtT('client_factory'),
                 _transfer_monitor=ExtT('monitor'), _osutil=ObjT(f'{UT}:OSUtils'))
    R.external('queue_item', **{
        '.temp_filename': ExtSpec(returns=lambda eng, st, recv, a, k: Opaque(z3.Function('item_temp', U, U)(recv.term), kind='str'), pure=True),
        '.filename': ExtSpec(returns=lambda eng, st, recv, a, k: Opaque(z3.Function('item_filename', U, U)(recv.term), kind='fileobj_or_name'), pure=True)})
    R.contract(f'{WRK}._run_get_object_job', params=dict(job=ExtT('queue_item')))   # never raises (verified below)
    R.contract(f'{WRK}._finalize_download', params=dict(transfer_id=ExtT('id'), temp_filename=ExtT('str'), filename=ExtT('fileobj_or_name')))
    R.contract(f'{WRK}._do_get_object', params=dict(bucket=Any, key=Any, extra_args=Any, temp_filename=Any, offset=Any),
               raise_when={'Exception': lambda c: None})

    def run_job_checks(c):
        dg = calls(c.trace, '_do_get_object')
        ne = mon(c.trace, 'notify_exception')
        failed = [e for e in dg if e.extra.get('raised') is not None]
        return {'failure_is_recorded_for_the_transfer': B(len(dg) == 1 and len(ne) == len(failed) and all(
            n.args[1] is f.extra['raised'] for n, f in zip(ne, failed)))}


    cw = R.contracts[f'{WRK}._run_get_object_job']
    cw.checks, cw.raises, cw.props = run_job_checks, {}, ('C19',)

    def finalize_checks(c):
        tr = c.trace
        ge, rm, rn, nd = mon(tr, 'get_exception'), calls(tr, 'OSUtils.remove_file'), calls(tr, 'OSUtils.rename_file'), mon(tr, 'notify_done')
        ne = mon(tr, 'notify_exception')
        had_exc = z3.Not(is_none(ge[0].result)) if ge else B(False)
        rn_failed = bool(rn) and rn[0].extra.get('raised') is not None
        return {
            'failed_download_removes_the_temp_file': implies(had_exc, B(len(rm) == 1 and not rn and rm[0].extra['env']['filename'] is c.a_temp_filename)),
            'successful_download_is_published_by_rename': implies(z3.Not(had_exc), B(
                len(rn) == 1 and rn[0].extra['env']['current_filename'] is c.a_temp_filename and rn[0].extra['env']['new_filename'] is c.a_filename)),
            'failing_rename_is_recorded_and_the_temp_file_removed': B((not rn_failed) or (
                len(ne) == 1 and ne[0].args[1] is rn[0].extra['raised'] and len(rm) == 1 and rm[0].extra['env']['filename'] is c.a_temp_filename)),
            'done_notified_exactly_once_and_last': B(len(nd) == 1 and index_of(flat(tr), nd[0]) == len(flat(tr)) - 1 and nd[0].args == (c.a_transfer_id,)),
        }

    cf = R.contracts[f'{WRK}._finalize_download']
    cf.checks, cf.raises, cf.props = finalize_checks, {}, ('C19', 'C06')
    cf.inline_callees = (f'{WRK}._do_file_rename',)

    def wrk_iteration(l0, l1, evs):
        ge = [e for e in evs if e.kind == 'ext' and e.name == 'monitor.get_exception']
        rj = [e for e in evs if e.kind == 'call' and e.name.endswith('_run_get_object_job')]
        jc = [e for e in evs if e.kind == 'ext' and e.name == 'monitor.notify_job_complete']
        fin = [e for e in evs if e.kind == 'call' and e.name.endswith('_finalize_download')]
        skip = z3.Not(is_none(ge[0].result)) if ge else B(False)
        rem = jc[0].result if jc else None
        return {
            'exactly_one_job_complete_notification_per_job': B(len(jc) == 1),
            'job_skipped_iff_an_exception_is_recorded': z3.If(skip, B(len(rj) == 0), B(len(rj) == 1)),
            'finalize_exactly_when_no_jobs_remain': (z3.If(rem == 0, B(len(fin) == 1), B(len(fin) == 0)) if rem is not None else B(False)),
            'accounting_happens_after_the_job_ran': B(all(index_of(evs, r) < index_of(evs, jc[0]) for r in rj) if jc else False),
            'finalize_after_accounting': B(all(index_of(evs, f) > index_of(evs, jc[0]) for f in fin) if jc else False),
        }

    def wrk_exit_checks(c):
        gets = [e for e in c.trace if e.kind == 'ext' and e.name == 'mpqueue.get']       # (iterations live in the loop summary)
        from pyvc.values import to_z3_bool
        return {'returns_only_on_the_shutdown_signal': (z3.And(B(len(gets) == 1), to_z3_bool(c.engine.value_eq(gets[-1].result, 'SHUTDOWN', c.new.st)))
                                                        if gets else B(False))}

    R.contract(f'{WRK}._do_run', props=['C19'], params={}, checks=wrk_exit_checks,
               raises={}, loops={0: LoopSpec(invariant=lambda l: {}, iteration_checks=wrk_iteration)})

    # worker download loop: at most _MAX_ATTEMPTS requests, each writing from the job's offset
    R.contract(f'{WRK}._write_to_file', params=dict(filename=Any, offset=Any, body=Any), raise_when={'Exception': lambda c: None, 'socket.timeout': lambda c: None, 'OSError': lambda c: None})   # OSError: file-system fault of the temp file

    def dgo_iteration(l0, l1, evs):
        go = [e for e in evs if e.kind == 'ext' and e.name == 'client.get_object']
        # C03: only stream-level errors are retried (never a file-system OSError of the temp file)
        return {'one_get_object_per_attempt': B(len(go) == 1), **R.retry_clauses(l1.engine, evs, ['C03', 'C19'])}

    cdg = R.contracts[f'{WRK}._do_get_object']
    cdg.props = ('C19', 'C03', 'C02')
    cdg.params = dict(bucket=ExtT('str'), key=ExtT('str'), extra_args=EXTRA, temp_filename=ExtT('str'), offset=Int)
    cdg.loops = {0: LoopSpec(invariant=lambda l: {}, iteration_checks=dgo_iteration, local_types={'last_exception': OptT(ExtT('exception'))})}
    def dgo_common(c):
        go = exts(c.trace, 'client.get_object')
        wf = calls(c.trace, '_write_to_file')
        args_ok = all(w.extra['env']['offset'] is c.a_offset and w.extra['env']['filename'] is c.a_temp_filename for w in wf)
        return go, wf, args_ok

    cdg.raises = {'s3transfer.exceptions:RetriesExceededError': lambda c: {
        'only_after_exactly_the_attempt_budget': B(len(dgo_common(c)[0]) == 5),
        'every_attempt_ended_in_a_retryable_stream_error': B(all(
            (g.extra.get('raised') is not None) or any(w.extra.get('raised') is not None for w in dgo_common(c)[1]) for g in dgo_common(c)[0]))},
        'Exception': lambda c: {'at_most_the_attempt_budget': B(len(dgo_common(c)[0]) <= 5)}}
    cdg.checks = lambda c: {
        'at_most_the_attempt_budget': B(1 <= len(dgo_common(c)[0]) <= 5),
        'every_attempt_rewrites_from_the_jobs_offset_into_the_temp_file': B(dgo_common(c)[2] and len(dgo_common(c)[1]) >= 1),
        'returns_after_an_attempt_that_wrote_its_whole_body': B(bool(dgo_common(c)[1]) and dgo_common(c)[1][-1].extra.get('raised') is None),
    }

    # ------------------------------------------------------------------ TransferMonitor (runs in the manager process, one thread per client)
    # Verified for a monitor that tracks two transfers under the representative ids 7 and 8 (the code uses an id only as a
    # dictionary key, so the choice of key is immaterial -- that symmetry argument is NOT machine-checked); each TransferState is
    # an arbitrary shared object.
    TMON = f'{PP}:TransferMonitor'
    R.add_fields(TMON, _transfer_states=Any, _id_count=Int, _init_lock=LockT())
    R.mark_inline(f'{TS}.__init__', f'{TS}.set_done', f'{TS}.wait_till_done')

    def two_states(eng, st):
        a = eng.make_symbolic(ObjT(TS, shared=True), 'state7', st)
        b = eng.make_symbolic(ObjT(TS, shared=True), 'state8', st)
        st.ghost['tmon_states'] = (a, b)
        return st.alloc(HObj('dict', items={7: a, 8: b}))

    TM2 = ObjT(TMON, _transfer_states=Const(two_states))
    ev_of = lambda tr, name, ref: [e for e in tr if e.kind == 'ext' and e.name == name and e.recv is not None and e.recv.oid == ref.oid]

    def state7(c):
        return c.old.st.ghost['tmon_states'][0]

    def poll_checks(c):
        s7 = state7(c)
        w = [e for e in c.trace if e.kind == 'ext' and e.name == 'event.wait']
        return {'waits_for_that_transfers_done_event_first': B(len(w) == 1 and w[0].recv.oid == c.old.obj(s7).fields['_done_event'].oid),
                'returns_none_only_if_no_exception_is_recorded': z3.And(B(c.result is None), is_none(c.new.f(s7, '_exception')))}

    R.contract(f'{TMON}.poll_for_result', props=['C19', 'C03'], params=dict(transfer_id=Const(7)), self_type=TM2, checks=poll_checks, top_level=True,
               raises={'$stored': lambda c: {'raises_the_recorded_exception_after_waiting': z3.And(
                   B(len([e for e in c.trace if e.kind == 'ext' and e.name == 'event.wait']) == 1), z3.Not(is_none(c.new.f(state7(c), '_exception'))))},
                   'KeyboardInterrupt': lambda c: {}})

    def cancel_all_checks(c):
        a, b = c.old.st.ghost['tmon_states']
        out = {}
        for nm, sref in (('7', a), ('8', b)):
            q = [e for e in c.trace if e.kind == 'ext' and e.name == 'event.is_set' and e.recv.oid == c.old.obj(sref).fields['_done_event'].oid]
            exc1, exc0 = c.new.f(sref, '_exception'), c.old.f(sref, '_exception')
            is_cancel = isinstance(exc1, ExcV) and exc1.cls == 'concurrent.futures.CancelledError'
            unchanged = exc1 is exc0
            from pyvc.values import to_z3_bool
            out[f'transfer_{nm}_is_cancelled_iff_it_was_not_done'] = (z3.If(to_z3_bool(q[0].result), B(bool(unchanged)), B(bool(is_cancel)))
                                                                     if len(q) == 1 else B(False))
        return out

    R.contract(f'{TMON}.notify_cancel_all_in_progress', props=['C19', 'C07'], params={}, self_type=TM2, checks=cancel_all_checks, raises={}, top_level=True)

    def two_private_states(eng, st):
        a = eng.make_symbolic(ObjT(TS), 'state7', st)
        b = eng.make_symbolic(ObjT(TS), 'state8', st)
        st.ghost['tmon_states'] = (a, b)
        return st.alloc(HObj('dict', items={7: a, 8: b}))

    def simple(name, params, chk, **kw):
        R.contract(f'{TMON}.{name}', props=['C19'], params=params, self_type=kw.pop('self_type', TM2), checks=chk, raises={}, top_level=True, **kw)

    simple('notify_exception', dict(transfer_id=Const(7), exception=ExtT('exception')),
           lambda c: {'recorded_for_that_transfer_only': B(c.new.f(state7(c), '_exception') is c.a_exception
                                                           and c.new.f(c.old.st.ghost['tmon_states'][1], '_exception') is c.old.f(c.old.st.ghost['tmon_states'][1], '_exception'))})
    simple('get_exception', dict(transfer_id=Const(7)), lambda c: {'that_transfers_exception': B(c.result is c.old.f(state7(c), '_exception'))})
    # (the expected count is written WITHOUT `_job_lock`: by protocol the submitter announces it before it queues the first job of
    #  the transfer -- `expected_jobs_announced...before_the_job_is_queued` -- so no decrement can run concurrently; verified on
    #  states that are not shared at that moment)
    simple('notify_expected_jobs_to_complete', dict(transfer_id=Const(7), num_jobs=Int), self_type=ObjT(TMON, _transfer_states=Const(two_private_states)), chk=
           lambda c: {'counter_set_for_that_transfer_only': z3.And(
               c.new.f(state7(c), '_jobs_to_complete') == c.a_num_jobs,
               c.new.f(c.old.st.ghost['tmon_states'][1], '_jobs_to_complete') == c.old.f(c.old.st.ghost['tmon_states'][1], '_jobs_to_complete'))})
    simple('notify_job_complete', dict(transfer_id=Const(7)),
           lambda c: {'delegates_to_the_atomic_decrement_of_that_transfer': B(
               len(calls(c.trace, 'TransferState.decrement_jobs_to_complete')) == 1
               and calls(c.trace, 'TransferState.decrement_jobs_to_complete')[0].recv.oid == state7(c).oid
               and c.result is calls(c.trace, 'TransferState.decrement_jobs_to_complete')[0].result)})
    simple('notify_done', dict(transfer_id=Const(7)),
           lambda c: {'sets_that_transfers_done_event': B(
               [e.recv.oid for e in c.trace if e.kind == 'ext' and e.name == 'event.set'] == [c.old.obj(state7(c)).fields['_done_event'].oid])})

    # new ids are handed out under `_init_lock`: distinct, and registered before the id is returned
    R.monitor(TMON, lock='_init_lock', fields=dict(_id_count=Int), invariant=lambda v, ref: {}, props=['C19'])

    def new_transfer_post(c):
        from pyvc.values import to_int_term
        m0, m1 = c.old.obj(c.oldf('_transfer_states')).meta, c.new.obj(c.newf('_transfer_states')).meta
        rid = to_int_term(c.result)
        k = z3.Int('k__')
        return {'returns_the_counter_read_under_the_lock_and_advances_it': z3.And(
                    rid == to_int_term(c.oldf('_id_count')), to_int_term(c.newf('_id_count')) == to_int_term(c.oldf('_id_count')) + 1),
                'a_state_is_registered_under_the_returned_id_and_no_other_entry_changes': z3.And(
                    z3.Select(m1['present'], rid),
                    z3.ForAll([k], z3.Implies(k != rid, z3.Select(m1['present'], k) == z3.Select(m0['present'], k))))}

    R.contract(f'{TMON}.notify_new_transfer', props=['C19'], params={}, self_type=ObjT(TMON, shared=True, _transfer_states=MapT('Int', Any)),
               old_at='acquire', ensures=new_transfer_post, raises={}, returns=Int, top_level=True)

    # ------------------------------------------------------------------ downloader shutdown / Ctrl-C
    PPD = f'{PP}:ProcessPoolDownloader'
    R.add_fields(PPD, _transfer_monitor=OptT(ExtT('monitor')), _manager=ExtT('mpmanager'), _download_request_queue=ExtT('mpqueue'),
                 _worker_queue=ExtT('mpqueue'), _submitter=ExtT('process'), _workers=ListOfT(ExtT('process')), _started=Bool,
                 _start_lock=LockT())
    R.mark_inline(f'{PPD}._shutdown_submitter', f'{PPD}._shutdown_transfer_monitor_manager')
    R.contract(f'{PPD}._shutdown_get_object_workers', params={}, loops={0: trivial_loop(), 1: trivial_loop()}, inline=True)

    def ppd_shutdown_checks(c):
        tr = flat(c.trace)
        pu = [e for e in tr if e.kind == 'ext' and e.name == 'mpqueue.put']
        jn = [e for e in tr if e.kind == 'ext' and e.name == 'process.join']
        ms = [e for e in tr if e.kind == 'ext' and e.name == 'mpmanager.shutdown']
        sub_put = [e for e in pu if e.recv is c.oldf('_download_request_queue')]
        sub_join = [e for e in jn if e.recv is c.oldf('_submitter')]
        wrk_put = [e for e in pu if e.recv is c.oldf('_worker_queue')]
        return {
            'submitter_signalled_and_joined_before_workers_are_signalled': B(
                len(sub_put) == 1 and len(sub_join) == 1 and sub_put[0].args == ('SHUTDOWN',)
                and index_of(tr, sub_put[0]) < index_of(tr, sub_join[0])
                and all(index_of(tr, w) > index_of(tr, sub_join[0]) for w in wrk_put)),
            'workers_get_the_shutdown_signal_and_are_joined': B(len(wrk_put) >= 1 and all(w.args == ('SHUTDOWN',) for w in wrk_put)
                                                                and len([e for e in jn if e.recv is not c.oldf('_submitter')]) >= 1),
            'monitor_manager_shut_down_last': B(len(ms) == 1 and index_of(tr, ms[0]) == max(index_of(tr, e) for e in tr if e.kind == 'ext')),
            'marked_not_started': b2z(c.newf('_started')) == B(False),
            # the downloader can be started again (`_started` is reset): the workers of this cycle must not stay registered, or the
            # next shutdown queues one signal per dead worker too and the left-over signals stop the workers of the cycle after
            # that before they run a job ("shutdown waits for all downloads")
            'no_worker_of_the_finished_cycle_stays_registered': to_int_term(c.new.obj(c.newf('_workers')).meta['len']) == 0
            if isinstance(c.newf('_workers'), Ref) and c.new.obj(c.newf('_workers')).kind == 'slist' else
            B(isinstance(c.newf('_workers'), Ref) and c.new.obj(c.newf('_workers')).kind == 'list' and len(c.new.obj(c.newf('_workers')).items) == 0),
        }

    R.contract(f'{PPD}._shutdown', props=['C19'], params={}, checks=ppd_shutdown_checks, self_type=ObjT(PPD, shared=True), requires_held=('_start_lock',),
               raises={'Exception': only_propagates}, raise_when={'Exception': lambda c: None})

    # ---- start / shutdown happen at most once each: `_started` is owned by `_start_lock` (K2): it is read and written only
    # while holding the lock, and the decision to start (or to shut down) is taken on the value read under the lock -- two
    # threads issuing their first download_file() together must not both start a monitor manager, a submitter and workers
    # (`_transfer_monitor` is written only by `_start_transfer_monitor_manager`, under the lock, and never cleared; download_file reads
    #  it after `_start_if_needed` without the lock: it is not treated as a guarded field, the invariant relates it to `_started`)
    R.monitor(PPD, lock='_start_lock', fields=dict(_started=Bool),
              invariant=lambda v, ref: {'a_started_downloader_has_its_transfer_monitor': z3.Implies(
                  b2z(v.f(ref, '_started')), z3.Not(is_none(v.f(ref, '_transfer_monitor'))))}, props=['C19', 'C04'])
    PPD_SH = ObjT(PPD, shared=True)
    for q in ('_start_transfer_monitor_manager', '_start_submitter', '_start_get_object_workers'):
        R.contract(f'{PPD}.{q}', params={}, raise_when={'Exception': lambda c: None}, requires_held=('_start_lock',),
                   # (assumed, thin wrappers around multiprocessing: the first one stores the manager's TransferMonitor proxy)
                   ensures=(lambda c: {'monitor_proxy_stored': z3.Not(is_none(c.newf('_transfer_monitor')))}) if q == '_start_transfer_monitor_manager' else None,
                   modifies=(lambda c: [('f', c.self, f) for f in ('_manager', '_transfer_monitor')]) if q == '_start_transfer_monitor_manager'
                   else (lambda c: [('f', c.self, f) for f in ('_manager', '_submitter', '_workers')]))

    def ppd_start_checks(c):
        tr = c.trace
        order = [e.name.split('.')[-1] for e in tr if e.kind == 'call' and '._start_' in e.name]
        return {'starts_the_monitor_manager_then_the_submitter_then_the_workers': B(
                    order == ['_start_transfer_monitor_manager', '_start_submitter', '_start_get_object_workers']),
                'marked_started_only_after_everything_was_started': b2z(c.newf('_started')) == B(True)}

    R.contract(f'{PPD}._start', props=['C19'], params={}, self_type=PPD_SH, checks=ppd_start_checks, requires_held=('_start_lock',),
               ensures=lambda c: {'started': b2z(c.newf('_started')) == B(True),
                                  'monitor_available': z3.Not(is_none(c.newf('_transfer_monitor')))},
               effects=lambda c, st: st.obj(c.self).fields.__setitem__('_started', True),
               raises={'Exception': lambda c: {'not_marked_started_when_a_start_step_failed': b2z(c.newf('_started')) == b2z(c.oldf('_started'))}},
               raise_when={'Exception': lambda c: None},
               # (what callers may rely on when _start raises: `_started` is what it was -- the clause above, verified at the root)
               raise_effects={'Exception': lambda c, st, exc: st.obj(c.self).fields.__setitem__('_started', c.old.f(c.self, '_started'))},
               modifies=lambda c: [('f', c.self, f) for f in ('_manager', '_transfer_monitor', '_submitter', '_workers', '_started')])

    def ppd_sin_checks(c):
        st_calls = calls(c.trace, 'ProcessPoolDownloader._start')
        was = b2z(c.oldf('_started'))          # value at lock acquisition (old_at='acquire')
        return {'starts_exactly_when_it_was_not_started_at_lock_acquisition': (
            z3.If(was, B(len(st_calls) == 0), B(len(st_calls) == 1)), ['C19', 'C04'])}

    R.contract(f'{PPD}._start_if_needed', props=['C19', 'C04'], params={}, self_type=PPD_SH, old_at='acquire',
               checks=ppd_sin_checks, ensures=lambda c: {'started_afterwards': b2z(c.newf('_started')) == B(True),
                                                         'monitor_available_afterwards': z3.Not(is_none(c.newf('_transfer_monitor')))},
               raises={'Exception': only_propagates}, raise_when={'Exception': lambda c: None},
               # at call sites (the two ensures above, verified at the root): started, monitor proxy available
               effects=lambda c, st: (st.obj(c.self).fields.__setitem__('_started', True),
                                      st.assume(z3.Not(is_none(st.obj(c.self).fields['_transfer_monitor']))), None)[2],
               modifies=lambda c: [('f', c.self, f) for f in ('_manager', '_transfer_monitor', '_submitter', '_workers', '_started')])

    # ---- download_file: the front end.  The downloader is started first; the transfer is registered with the monitor before its
    # request is queued (the submitter announces job counts for that id); the request and the returned future carry the SAME id
    R.mark_inline(f'{PPD}._get_transfer_future', f'{PP}:ProcessPoolTransferFuture.__init__', f'{PP}:ProcessPoolTransferMeta.__init__')
    # the process-pool front end's own allow-list check (C15): it returns only if EVERY provided key is one of ALLOWED_DOWNLOAD_ARGS
    # (the names themselves, not e.g. substrings of their concatenation)
    from .a_submit import EXTRA as _EXTRA
    from .c15 import map_view as _map_view
    _kk = z3.String('k__')

    def ppd_allowed(c):
        eng = c.engine
        lst = eng.module_global(eng.repo.modules['s3transfer.processpool'], 'ALLOWED_DOWNLOAD_ARGS', c.new.st)
        names = list(c.new.st.obj(lst).items) if isinstance(lst, Ref) else list(lst[1] if isinstance(lst, tuple) and lst[0] == 'frozenlist' else lst)
        return z3.Or([_kk == z3.StringVal(n) for n in names] + [B(False)])

    def ppd_validate_post(c):
        ap, av = _map_view(c.old.st, c.a_provided)
        return {'returns_only_if_every_provided_key_is_on_the_allow_list': (z3.ForAll([_kk], z3.Implies(z3.Select(ap, _kk), ppd_allowed(c))), ['C15'])}

    def ppd_validate_inv(l):
        j = z3.Int('j__')
        lst = l.engine.module_global(l.engine.repo.modules['s3transfer.processpool'], 'ALLOWED_DOWNLOAD_ARGS', l.st)
        names = list(l.st.obj(lst).items) if isinstance(lst, Ref) else list(lst[1] if isinstance(lst, tuple) and lst[0] == 'frozenlist' else lst)
        return {'visited_keys_are_allowed': z3.ForAll([j], z3.Implies(z3.And(j >= 0, j < l.index), z3.Or(
            [z3.Select(l.ghost['enum'], j) == z3.StringVal(n) for n in names] + [B(False)])))}

    def ppd_validate_iteration(l0, l1, evs):
        # (ground form of the invariant step: the key of an iteration that goes on is one of the allowed names)
        lst = l1.engine.module_global(l1.engine.repo.modules['s3transfer.processpool'], 'ALLOWED_DOWNLOAD_ARGS', l1.st)
        names = list(l1.st.obj(lst).items) if isinstance(lst, Ref) else list(lst[1] if isinstance(lst, tuple) and lst[0] == 'frozenlist' else lst)
        key = z3.Select(l0.ghost['enum'], l0.index if z3.is_expr(l0.index) else z3.IntVal(l0.index))
        return {'a_key_that_passes_is_one_of_the_allowed_names': (z3.Or([key == z3.StringVal(n) for n in names] + [B(False)]), ['C15'])}

    R.contract(f'{PPD}._validate_all_known_args', props=['C15'], params=dict(provided=_EXTRA),
               ensures=ppd_validate_post, raises={'ValueError': lambda c: {'nothing_else_happened': B(not [e for e in c.trace if e.kind in ('ext', 'call')])}},
               raise_when={'ValueError': lambda c: None}, modifies=lambda c: [],
               loops={0: LoopSpec(invariant=ppd_validate_inv, iteration_checks=ppd_validate_iteration)})

    def ppd_dl_checks(c):
        tr = c.trace
        sin = calls(tr, 'ProcessPoolDownloader._start_if_needed')
        val = calls(tr, 'ProcessPoolDownloader._validate_all_known_args')
        nn = mon(tr, 'notify_new_transfer')
        pu = [e for e in tr if e.kind == 'ext' and e.name == 'mpqueue.put']
        # (started before anything else; registered with the monitor before the request is queued; nothing is queued before the
        #  argument validation has passed -- where exactly the validation sits otherwise is not a listed property)
        okorder = len(sin) == 1 and len(val) == 1 and len(nn) == 1 and len(pu) == 1 and \
            index_of(tr, sin[0]) < min(index_of(tr, val[0]), index_of(tr, nn[0])) and index_of(tr, nn[0]) < index_of(tr, pu[0]) \
            and index_of(tr, val[0]) < index_of(tr, pu[0])
        out = {'starts_validates_registers_then_queues_exactly_one_request': B(bool(okorder))}
        if okorder:
            req = pu[0].args[0]
            rec = req[1] if isinstance(req, tuple) and req[0] == 'record' else {}
            ea = rec.get('extra_args')
            user_ea = c.a_extra_args
            out['request_goes_to_the_download_request_queue_with_the_users_arguments_and_the_new_id'] = B(bool(
                pu[0].recv is c.oldf('_download_request_queue') and rec.get('transfer_id') is nn[0].result and rec.get('bucket') is c.a_bucket
                and rec.get('key') is c.a_key and rec.get('filename') is c.a_filename and rec.get('expected_size') is c.a_expected_size))
            fut = c.result
            okf = isinstance(fut, Ref) and c.new.obj(fut).cls.name == 'ProcessPoolTransferFuture'
            if okf:
                meta = c.new.obj(c.new.obj(fut).fields['_meta'])
                okf = meta.fields.get('_transfer_id') is nn[0].result and c.new.obj(fut).fields['_monitor'] is c.newf('_transfer_monitor')
            out['the_returned_future_polls_the_monitor_for_the_same_id'] = B(bool(okf))
        return out

    R.contract(f'{PPD}.download_file', props=['C19', 'C15'], self_type=PPD_SH, top_level=True,
               params=dict(bucket=ExtT('str'), key=ExtT('str'), filename=ExtT('str'), extra_args=OptT(_EXTRA), expected_size=OptT(Int)),
               checks=ppd_dl_checks, raises={'Exception': only_propagates, 'ValueError': only_propagates})

    def ppd_exit_checks(c):
        tr = c.trace
        nc = mon(tr, 'notify_cancel_all_in_progress')
        sd = calls(tr, 'ProcessPoolDownloader.shutdown')
        is_kbi = c.engine.opaque_pred(c.a_exc_value.val, 'isinstance_KeyboardInterrupt')
        kbi = z3.And(z3.Not(c.a_exc_value.is_none), is_kbi, z3.Not(is_none(c.oldf('_transfer_monitor'))))
        return {
            'ctrl_c_cancels_unfinished_downloads_first': z3.If(kbi, B(len(nc) == 1 and bool(sd) and index_of(tr, nc[0]) < index_of(tr, sd[0])), B(len(nc) == 0)),
            'always_shuts_down': B(len(sd) == 1),
        }

    R.contract(f'{PPD}.shutdown', params={}, raise_when={'Exception': lambda c: None})
    R.contract(f'{PPD}.__exit__', props=['C19'], params=dict(exc_type=Any, exc_value=OptT(ExtT('exception'))),
               checks=ppd_exit_checks, raises={'Exception': only_propagates})

    FUT = f'{PP}:ProcessPoolTransferFuture'
    R.add_fields(FUT, _monitor=ExtT('monitor'), _meta=ExtT('ppmeta'))
    R.external('ppmeta', **{'.transfer_id': ExtSpec(returns=lambda eng, st, recv, a, k: Opaque('pp_transfer_id', kind='id'), pure=True)})

    def fut_result_kbi(c):
        tr = c.trace
        ne = mon(tr, 'notify_exception')
        return {'ctrl_c_while_waiting_cancels_this_download': B(len(ne) == 1 and isinstance(ne[0].args[1], ExcV)
                                                               and ne[0].args[1].cls == 'concurrent.futures.CancelledError')}

    R.mark_inline(f'{FUT}.cancel')
    R.contract(f'{FUT}.result', props=['C19'], params={}, checks=lambda c: {},
               raises={'KeyboardInterrupt': fut_result_kbi, 'Exception': lambda c: {'no_cancel': B(len(mon(c.trace, 'notify_exception')) == 0)}})


ROOTS = [f'{TS}.decrement_jobs_to_complete', f'{SUB}._submit_get_object_jobs', f'{SUB}._submit_single_get_object_job',
         f'{SUB}._submit_ranged_get_object_jobs', f'{SUB}._do_run', f'{WRK}._do_run', f'{WRK}._run_get_object_job',
         f'{WRK}._finalize_download', f'{WRK}._do_get_object', f'{PP}:ProcessPoolDownloader._shutdown',
         f'{PP}:ProcessPoolDownloader.__exit__', f'{PP}:ProcessPoolTransferFuture.result',
         f'{UT}:OSUtils.remove_file', f'{UT}:OSUtils.rename_file']

MANIFEST = dict(
    category='proof',
    text=('Protocol contracts on the real submitter / worker / downloader functions, for all job counts and every single '
          'fault at their call sites: the expected-jobs notification precedes the first queued job and exactly n = '
          'ceil_div(size, chunk) >= 1 (or 1) jobs are queued; a submission failure is reported as exception then done; per '
          'job exactly one atomic job-complete notification (monitor on the job lock), the job is skipped iff an exception is '
          'recorded, finalisation runs exactly when the remaining count is 0: temp removed on failure, renamed on success, a '
          'failing rename recorded and the temp removed, notify_done last; shutdown joins the submitter before signalling the '
          'workers; Ctrl-C in the with-block cancels all unfinished downloads before shutting down.'
          ' Also: ProcessPoolDownloader starts and shuts down at most once (monitor on _start_lock: the decision is taken on the value read under the lock), download_file registers the transfer before queueing exactly one request with the id the returned future polls; TransferMonitor methods (fresh ids under _init_lock, poll waits then raises the recorded error, cancel-all only the unfinished), verified for representative ids.'),
    note=('multiprocessing queues and manager proxies are assumed FIFO/reliable; interleavings of submitter, workers and a '
          'cancelling user across processes are not enumerated (the exception slot is written without a lock: last writer '
          'wins, which satisfies "one of the failures"); a submitter fault after allocation other than those in the '
          'statement can leave the temp file (outside the stated fault model).'),
    technique='contract-based deductive verification: per-iteration protocol contracts over ghost event traces + monitor',
)
LEVEL = 'proof'
TRUSTED = ['multiprocessing queues / manager proxies FIFO and reliable', 'A-OS', 'A-LOCK']
ASSUMPTIONS = TRUSTED
EXPLANATION = 'process pool protocol per function'
