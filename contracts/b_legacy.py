"""Legacy front-end (s3transfer/__init__.py: S3Transfer, MultipartDownloader) -- contracts referenced by
C02, C06, C14, C15."""
import z3

from pyvc.contracts import Any, Bool, Const, ExtSpec, ExtT, Int, ListOfT, LoopSpec, MapT, ObjT, OptT, SetT, Str
from pyvc.values import ExcV, FStr, Opaque, Opt, PartialV, Ref, U, fresh_name

from .a_submit import EXTRA, UT
from .a_tasks import calls, exts, flat, index_of, trivial_loop, only_propagates
from .spec import TWO53, b2z, implies, is_ceil_div

B = z3.BoolVal
L = 's3transfer'
S3T, MPD, MPU = f'{L}:S3Transfer', f'{L}:MultipartDownloader', f'{L}:MultipartUploader'
LCFG = f'{L}:TransferConfig'


def splat_has(ev, st, m):
    sp = ev.extra.get('splat')
    if sp is None or not isinstance(m, Ref):
        return False
    mm = st.obj(m).meta
    return sp['present'].eq(mm['present']) and sp['vals'].eq(mm['vals'])


def _same_args(c, v):
    """v is the user's extra_args map (or the fresh empty dict standing in for None)."""
    ua = c.a_extra_args
    if v is ua or (isinstance(ua, Opt) and v is ua.val):
        return True
    if not isinstance(v, Ref):
        return False
    h = c.new.obj(v)
    if h.kind == 'smap':      # the fresh {} standing in for None, seen through a callee's map view
        return v.oid not in c.old.st.heap and h.meta['present'].eq(z3.K(z3.StringSort(), z3.BoolVal(False)))
    return h.kind == 'dict' and not h.items


def _validated_first(c, tr, const):
    val = calls(tr, 'S3Transfer._validate_all_known_args')
    others = [index_of(tr, e) for e in tr if e.kind in ('ext', 'call') and not e.name.endswith('_validate_all_known_args')
              and not e.name.startswith(('client_meta', 'client.', 'client_events')) or (e.kind == 'ext' and e.name.startswith('client.') and not e.name.startswith('client..'))]
    return len(val) == 1 and c.engine.same_const_list(val[0].extra['env']['allowed'], S3T, const, c.new.st) \
        and all(index_of(tr, val[0]) < i for i in others)


def legacy_progress_clause(l1, evs, g0):
    """C09 for the legacy callback: every chunk read from the body is reported, with its length, when a callback was given"""
    from pyvc.values import to_int_term
    cbv = l1.st.env.get('callback')
    cbs = [e for e in evs if e.kind == 'ext' and e.name == 'legacy_cb.()']
    keys = [k for k in l1.st.ghost if isinstance(k, tuple) and k[0] == 'body']
    g1 = l1.st.ghost[keys[-1]]
    n = g1['pos'] - g0['pos']
    okc = len(cbs) == 1 and len(cbs[0].args) == 1
    given = z3.Not(cbv.is_none) if isinstance(cbv, Opt) else B(cbv is not None)
    return {'chunk_length_reported_to_the_callback_iff_one_was_given': (z3.If(
        given, z3.And(B(bool(okc)), (to_int_term(cbs[0].args[0]) == n) if okc else B(False)), B(len(cbs) == 0)), ['C09'])}


def register(R):
    R.add_fields(LCFG, multipart_threshold=Int, max_concurrency=Int, multipart_chunksize=Int, num_download_attempts=Int, max_io_queue=Int,
                 valid=lambda v, ref: [v.f(ref, k) > 0 for k in ('multipart_threshold', 'max_concurrency', 'multipart_chunksize', 'num_download_attempts', 'max_io_queue')])
    R.add_fields(S3T, _client=ExtT('client'), _config=ObjT(LCFG), _osutil=ObjT(f'{L}:OSUtils'))
    R.add_fields(f'{L}:OSUtils')
    R.contract(f'{L}:OSUtils.remove_file', params=dict(filename=ExtT('str')))
    R.contract(f'{L}:OSUtils.rename_file', params=dict(current_filename=ExtT('str'), new_filename=ExtT('str')),
               raise_when={'OSError': lambda c: None})
    R.ext_values['os.extsep'] = '.'
    R.contract(f'{UT}:random_file_extension', params=dict(num_digits=Int), returns=ExtT('str'), events=False)
    R.contract(f'{L}:random_file_extension', params=dict(num_digits=Int), returns=ExtT('str'), events=False)

    register_uploader_filters(R)
    register_legacy_chunk(R)
    register_ranged_downloader(R)
    register_legacy_upload(R)

    # ------------------------------------------------------------------ download_file: temp + rename / remove
    R.contract(f'{S3T}._download_file', params=dict(bucket=ExtT('str'), key=ExtT('str'), filename=Any, object_size=Int,
                                                    extra_args=EXTRA, callback=Any),
               raise_when={'Exception': lambda c: None})
    R.contract(f'{S3T}._object_size', params=dict(bucket=ExtT('str'), key=ExtT('str'), extra_args=EXTRA), returns=Int,
               raise_when={'Exception': lambda c: None})
    R.contract(f'{S3T}._validate_all_known_args', params=dict(actual=EXTRA, allowed=Any), raise_when={'ValueError': lambda c: None})

    def dl_common(c):
        tr = c.trace
        dl = calls(tr, 'S3Transfer._download_file')
        rm, rn = calls(tr, f'{L}:OSUtils.remove_file'), calls(tr, f'{L}:OSUtils.rename_file')
        temp = dl[0].extra['env']['filename'] if dl else None
        return tr, dl, rm, rn, temp

    def dl_checks(c):
        tr, dl, rm, rn, temp = dl_common(c)
        return {
            'downloads_into_a_temp_name_next_to_the_destination': (B(
                len(dl) == 1 and isinstance(temp, (FStr, Opaque)) and temp is not c.a_filename), ['C06']),
            'success_publishes_by_one_rename_and_removes_nothing': (B(
                len(rn) == 1 and not rm and rn[0].extra['env']['current_filename'] is temp and rn[0].extra['env']['new_filename'] is c.a_filename
                and index_of(tr, rn[0]) > index_of(tr, dl[0])), ['C06']),
            'size_discovered_with_the_users_extra_args': (B(
                len(calls(tr, 'S3Transfer._object_size')) == 1 and len(dl) == 1
                and _same_args(c, calls(tr, 'S3Transfer._object_size')[0].extra['env']['extra_args'])
                and _same_args(c, dl[0].extra['env']['extra_args'])), ['C15']),
            'arguments_validated_against_the_download_allow_list_before_any_request': (B(_validated_first(c, tr, 'ALLOWED_DOWNLOAD_ARGS')), ['C15']),
        }

    def dl_raises(c):
        tr, dl, rm, rn, temp = dl_common(c)
        started = bool(dl)
        renamed = [e for e in rn if e.extra.get('raised') is None]
        return {
            # any failure once the temp name exists (download or the rename itself) removes the temp file
            'failure_removes_the_temp_file': (B((not started) or (len(rm) == 1 and rm[0].extra['env']['filename'] is temp)), ['C06']),
            'destination_untouched_on_failure': (B(not renamed), ['C06']),
        }

    R.contract(
        f'{S3T}.download_file', props=['C06', 'C15'],
        params=dict(bucket=ExtT('str'), key=ExtT('str'), filename=ExtT('str'), extra_args=OptT(EXTRA), callback=Any),
        checks=dl_checks, raises={'Exception': dl_raises},
    )

    # ------------------------------------------------------------------ mode decision
    R.contract(f'{S3T}._ranged_download', params=dict(bucket=Any, key=Any, filename=Any, object_size=Int, extra_args=Any, callback=Any),
               raise_when={'Exception': lambda c: None})
    R.contract(f'{S3T}._get_object', params=dict(bucket=Any, key=Any, filename=Any, extra_args=Any, callback=Any),
               raise_when={'Exception': lambda c: None})
    cdf = R.contracts[f'{S3T}._download_file']
    cdf.props = ('C14', 'C15')
    cdf.checks = lambda c: {
        'ranged_iff_size_at_least_threshold': (
            (c.a_object_size >= c.old.f(c.oldf('_config'), 'multipart_threshold')) if calls(c.trace, '_ranged_download')
            else (c.a_object_size < c.old.f(c.oldf('_config'), 'multipart_threshold')), ['C14']),
        'exactly_one_mode_with_the_users_extra_args': (B(
            len(calls(c.trace, '_ranged_download')) + len(calls(c.trace, 'S3Transfer._get_object')) == 1
            and (calls(c.trace, '_ranged_download') + calls(c.trace, 'S3Transfer._get_object'))[0].extra['env']['extra_args'] is c.a_extra_args), ['C15', 'C14']),
    }
    cdf.raises = {'Exception': only_propagates}

    # ------------------------------------------------------------------ ranged download: extra args reach every GET
    R.add_fields(MPD, _client=ExtT('client'), _config=ObjT(LCFG), _os=ObjT(f'{L}:OSUtils'), _executor_cls=ExtT('legacy_executor_cls'),
                 _ioqueue=ExtT('ioqueue'))
    R.external('ioqueue', put=ExtSpec(raises=('Exception', 'OSError'), blocking=True), get=ExtSpec(returns=Any, raises=()),
               trigger_shutdown=ExtSpec(raises=()))
    R.mark_inline(f'{MPD}._calculate_range_param', f'{L}:StreamReaderProgress.__init__', f'{L}:StreamReaderProgress.read')
    R.add_fields(f'{L}:StreamReaderProgress', _stream=ExtT('respdict'), _callback=OptT(ExtT('legacy_cb')))
    R.external('legacy_cb', **{'()': ExtSpec(raises=('Exception', 'OSError'), user_code=True)})

    def range_setup(eng, st, args, self_val):
        st.ghost['get_object_start'] = args['part_size'] * args['part_index']
        st.assume(z3.And(args['part_size'] > 0, args['part_index'] >= 0, args['part_index'] < args['num_parts']))
        st.assume(st.obj(st.obj(self_val).fields['_config']).fields['num_download_attempts'] > 0)

    def inner_inv(l):
        keys = [k for k in l.st.ghost if isinstance(k, tuple) and k[0] == 'body']
        if not keys:
            sb = l.st.env['streaming_body']
            R.body_state(l.st, l.st.obj(sb).fields['_stream'])
            if l.pre is not None:
                k0 = [k for k in l.st.ghost if isinstance(k, tuple) and k[0] == 'body'][-1]
                l.pre.ghost.setdefault(k0, dict(l.st.ghost[k0]))
            keys = [k for k in l.st.ghost if isinstance(k, tuple) and k[0] == 'body']
        g = l.st.ghost[keys[-1]]
        return {'write_position_tracks_body_position': l.local('current_index') == l.local('part_size') * l.local('part_index') + g['pos']}

    def inner_iteration(l0, l1, evs):
        pu = [e for e in evs if e.kind == 'ext' and e.name == 'ioqueue.put']
        keys = [k for k in l0.st.ghost if isinstance(k, tuple) and k[0] == 'body']
        g0 = l0.st.ghost[keys[-1]]
        out = {'one_write_queued_per_chunk': (B(len(pu) == 1), ['C02']),
               **legacy_progress_clause(l1, evs, g0)}
        if len(pu) == 1:
            off, d = pu[0].args[0]
            from pyvc.values import to_int_term
            out['chunk_queued_at_part_offset_plus_prefix_delivered'] = (z3.And(
                to_int_term(off) == l0.st.env['part_size'] * l0.st.env['part_index'] + g0['pos'], to_int_term(d.lo) == to_int_term(off)), ['C02'])
        return out

    def range_checks(c):
        go = [e for e in flat(c.trace) if e.kind == 'ext' and e.name == 'client.get_object']
        from .c14 import range_term
        i, ps, n = c.a_part_index, c.a_part_size, c.a_num_parts
        want = z3.If(i == n - 1, range_term(c.engine, i * ps), range_term(c.engine, i * ps, (i + 1) * ps - 1))
        okr = all(('Range' in e.kwargs) for e in go)
        return {
            'range_header_is_the_parts_window': (z3.And([c.engine.as_u_term(e.kwargs['Range'], c.new.st) == want for e in go] + [B(bool(go) and okr)]), ['C02', 'C14']),
            # the requested object version / encryption key etc. is the user's: extra args reach every GET
            'users_extra_args_reach_every_get_object': (B(bool(go) and all(splat_has(e, c.old.st, c.a_extra_args) for e in go)), ['C15', 'C02']),
            **R.budget_clause(c, c.old.f(c.oldf('_config'), 'num_download_attempts'), ['C03']),
        }

    R.contract(
        f'{MPD}._download_range', props=['C02', 'C14', 'C15', 'C03', 'C09'],
        params=dict(bucket=ExtT('str'), key=ExtT('str'), filename=ExtT('str'), part_size=Int, num_parts=Int, callback=OptT(ExtT('legacy_cb')),
                    part_index=Int, extra_args=EXTRA),
        setup=range_setup, checks=range_checks,
        raises={'s3transfer.exceptions:RetriesExceededError': lambda c: {
            'only_after_the_attempt_budget_is_used_up': (B(len([e for e in c.trace if e.kind == 'loop']) == 1), ['C03']),
            **R.budget_clause(c, c.old.f(c.oldf('_config'), 'num_download_attempts'), ['C03'])},
            'Exception': only_propagates},
        loops={0: LoopSpec(invariant=lambda l: {}, iteration_checks=lambda l0, l1, evs: R.retry_clauses(l1.engine, evs, ['C03']),
                        local_types={'last_exception': OptT(ExtT('exception')), 'current_index': Int}),
               1: LoopSpec(invariant=inner_inv, iteration_checks=inner_iteration)},
    )
    register_legacy_front(R)
    register_legacy_io_thread(R)
    register_legacy_parts_thread(R)


def legacy_const(eng, name):
    """list constant of the legacy MultipartUploader read from the real AST ([] when the class has no such attribute)."""
    from pyvc.state import State
    ci = eng.repo.cls(MPU)
    owner, _ = eng.repo.find_class_attr(ci, name)
    if owner is None:
        return []
    st = State()
    return list(st.obj(eng.class_attr(owner, name, st)[0].val).items)


def register_uploader_filters(R):
    """MultipartUploader._extra_upload_part_args / _extra_args_for: whitelist filters over the user's map."""
    from .c15_filters import filter_contract
    filter_contract(R, f'{MPU}._extra_upload_part_args', 'extra_args', 'upload_parts_args',
                    lambda c_eng, st, loc: c_eng.class_attr(c_eng.repo.cls(MPU), 'UPLOAD_PART_ARGS', st)[0].val)
    filter_contract(R, f'{MPU}._extra_args_for', 'extra_args', 'filtered_args', lambda c_eng, st, loc: loc('allowed'),
                    extra_params=dict(allowed=SetT('Str')), optional=True)


def register_legacy_upload(R):
    """Legacy multipart part loop: MultipartUploader._upload_parts / _upload_one_part (C01, C14, C15)."""
    from pyvc.contracts import RecordT
    from pyvc.values import to_int_term
    from .c05 import resp_get
    OSU = f'{L}:OSUtils'
    R.contract(f'{OSU}.get_file_size', params=dict(filename=ExtT('str')), returns=Int,
               ensures=lambda c: {'nonneg': c.result >= 0, 'exactly_representable_as_float (A-IEEE domain: below 2**53 bytes)': c.result < TWO53},
               raise_when={'OSError': lambda c: None})
    # assumed: the chunk reader is a context manager over file[start : start+size] (legacy ReadFileChunk, not verified here)
    R.contract(f'{OSU}.open_file_chunk_reader', params=dict(filename=ExtT('str'), start_byte=Int, size=Int, callback=Any),
               returns=ExtT('legacy_chunk'), raise_when={'OSError': lambda c: None})
    R.external('legacy_chunk', __enter__=ExtSpec(returns=lambda eng, st, recv, a, k: recv, pure=True), __exit__=ExtSpec(raises=()))

    def one_part_checks(c):
        tr = c.trace
        op = calls(tr, 'OSUtils.open_file_chunk_reader')
        up = exts(tr, 'client.upload_part')
        okk = len(op) == 1 and len(up) == 1 and up[0].kwargs.get('Body') is op[0].result \
            and up[0].kwargs.get('Bucket') is c.a_bucket and up[0].kwargs.get('Key') is c.a_key \
            and up[0].kwargs.get('UploadId') is c.a_upload_id and up[0].kwargs.get('PartNumber') is c.a_part_number \
            and set(k for k in up[0].kwargs if k != '**') == {'Bucket', 'Key', 'UploadId', 'PartNumber', 'Body'}
        out = {'one_upload_part_for_this_part_number_with_a_body_opened_for_it': (B(bool(okk)), ['C01', 'C05'])}
        if len(op) == 1:
            env = op[0].extra['env']
            out['body_window_is_part_size_times_number_minus_one'] = (z3.And(
                B(env['filename'] is c.a_filename), to_int_term(env['start_byte']) == c.a_part_size * (c.a_part_number - 1),
                to_int_term(env['size']) == c.a_part_size), ['C01', 'C14'])
        if len(up) == 1:
            out['part_gets_the_given_extra_args'] = (B(splat_has(up[0], c.old.st, c.a_extra_args)), ['C15'])
            res = c.new.obj(c.result).items if isinstance(c.result, Ref) and c.new.obj(c.result).kind == 'dict' else {}
            out['returns_the_etag_s3_gave_for_this_part_and_its_number'] = (B(
                set(res) == {'ETag', 'PartNumber'} and res['PartNumber'] is c.a_part_number and isinstance(res['ETag'], Opaque)
                and z3.eq(res['ETag'].term, resp_get(up[0].result.term, z3.StringVal('ETag')))), ['C01'])
        return out

    def one_part_result(c, st):
        from pyvc.values import HObj
        return st.alloc(HObj('dict', items={'ETag': Opaque(z3.Function('etag_of_part', z3.IntSort(), U)(to_int_term(c.a_part_number)), kind='etag'),
                                            'PartNumber': c.a_part_number}))

    R.contract(
        f'{MPU}._upload_one_part', props=['C01', 'C05', 'C14', 'C15'],
        params=dict(filename=ExtT('str'), bucket=ExtT('str'), key=ExtT('str'), upload_id=ExtT('upload_id'), part_size=Int,
                    extra_args=EXTRA, callback=Any, part_number=Int),
        requires=lambda c: [c.a_part_size > 0, c.a_part_number >= 1],
        checks=one_part_checks, effects=one_part_result,
        raises={'Exception': only_propagates}, raise_when={'Exception': lambda c: None},
    )

    PARTS_T = ListOfT(RecordT(ETag=ExtT('etag'), PartNumber=Int), name='parts')

    def parts_view(st, v):
        h = st.obj(v)
        if h.kind == 'list':
            if h.items:
                raise ValueError('non-empty concrete parts list')
            return z3.IntVal(0), (lambda i: z3.IntVal(0))
        return to_int_term(h.meta['len']), (lambda i, a=h.meta['arrs']['PartNumber']: z3.Select(a, i))

    jj = z3.Int('jj_parts')

    def parts_inv(l):
        n, num = parts_view(l.st, l.local('parts'))
        idx = to_int_term(l.index)
        return {'one_part_per_input_so_far': n == idx,
                'parts_are_numbered_1_to_n_in_list_order': z3.ForAll([jj], z3.Implies(z3.And(jj >= 0, jj < n), num(jj) == jj + 1))}

    def parts_iteration(l0, l1, evs):
        one = [e for e in evs if e.kind == 'call' and e.name.endswith('_upload_one_part')]
        okk = len(one) == 1
        out = {'exactly_one_part_uploaded_per_iteration': (B(okk), ['C01', 'C05'])}
        if okk:
            env = one[0].extra['env']
            o = l1.st.env
            out['part_number_is_position_plus_one'] = (to_int_term(env['part_number']) == to_int_term(l0.index) + 1, ['C01', 'C14'])
            out['part_built_from_this_uploads_arguments'] = (B(
                env['filename'] is o['filename'] and env['bucket'] is o['bucket'] and env['key'] is o['key'] and env['upload_id'] is o['upload_id']
                and env['part_size'] is o['part_size'] and env['extra_args'] is o['upload_parts_extra_args'] and env['callback'] is o['callback']), ['C01', 'C15'])
        return out

    def up_parts_checks(c):
        tr = c.trace
        n, num = parts_view(c.new.st, c.result)
        gs = calls(tr, 'OSUtils.get_file_size')
        flt = calls(tr, '_extra_upload_part_args')
        cfg_ps = c.old.f(c.oldf('_config'), 'multipart_chunksize')
        out = {'parts_are_numbered_1_to_n_in_list_order': (z3.ForAll([jj], z3.Implies(z3.And(jj >= 0, jj < n), num(jj) == jj + 1)), ['C01']),
               'part_args_are_the_filtered_extra_args': (B(len(flt) == 1 and flt[0].extra['env']['extra_args'] is c.a_extra_args
                                                           and c.new.st.env.get('upload_parts_extra_args') is flt[0].result), ['C15'])}
        if len(gs) == 1:
            out['number_of_parts_is_ceil_size_over_chunksize'] = (is_ceil_div(n, gs[0].result, cfg_ps), ['C01', 'C14'])
        else:
            out['file_size_read_once'] = (B(False), ['C14'])
        return out

    def up_parts_setup(eng, st, args, self_val):
        cfg = st.obj(st.obj(self_val).fields['_config'])
        st.assume(cfg.fields['multipart_chunksize'] < TWO53)

    R.contract(
        f'{MPU}._upload_parts', props=['C01', 'C05', 'C14', 'C15'],
        params=dict(upload_id=ExtT('upload_id'), filename=ExtT('str'), bucket=ExtT('str'), key=ExtT('str'), callback=Any, extra_args=EXTRA),
        setup=up_parts_setup, checks=up_parts_checks, returns=PARTS_T,
        raises={'Exception': only_propagates}, raise_when={'Exception': lambda c: None},
        loops={0: LoopSpec(invariant=parts_inv, iteration_checks=parts_iteration, local_types={'parts': PARTS_T})},
    )
    R.external('legacy_executor', map=ExtSpec(returns=lambda eng, st, recv, a, k: ('mapiter', a[0], a[1]), pure=True))


def register_legacy_front(R):
    """S3Transfer.upload_file / _put_object / _multipart_upload / _get_object / _do_get_object / _object_size."""
    from pyvc.values import to_int_term
    OSU = f'{L}:OSUtils'
    R.external('client_meta', **{'.events': ExtSpec(returns=ExtT('client_events'), pure=True)})
    R.external('client', **{'.meta': ExtSpec(returns=ExtT('client_meta'), pure=True)})
    R.external('client_events', register_first=ExtSpec(raises=()), register_last=ExtSpec(raises=()), register=ExtSpec(raises=()))
    R.mark_inline(f'{MPU}.__init__')
    SIMPLE = dict(filename=ExtT('str'), bucket=ExtT('str'), key=ExtT('str'), callback=Any, extra_args=EXTRA)

    # ---- _put_object: one PutObject whose body is the whole file, with the user's arguments
    def put_checks(c):
        op = calls(c.trace, 'OSUtils.open_file_chunk_reader')
        gs = calls(c.trace, 'OSUtils.get_file_size')
        po = exts(c.trace, 'client.put_object')
        okk = len(op) == 1 and len(po) == 1 and len(gs) == 1 and po[0].kwargs.get('Body') is op[0].result \
            and po[0].kwargs.get('Bucket') is c.a_bucket and po[0].kwargs.get('Key') is c.a_key \
            and set(k for k in po[0].kwargs if k != '**') == {'Bucket', 'Key', 'Body'}
        out = {'one_put_object_with_a_body_opened_on_the_file': (B(bool(okk)), ['C01'])}
        if okk:
            env = op[0].extra['env']
            out['body_is_the_whole_file'] = (z3.And(B(env['filename'] is c.a_filename and gs[0].extra['env']['filename'] is c.a_filename),
                                                    to_int_term(env['start_byte']) == 0, to_int_term(env['size']) == gs[0].result), ['C01'])
            out['users_extra_args_reach_put_object'] = (B(splat_has(po[0], c.old.st, c.a_extra_args)), ['C15'])
        return out

    R.contract(f'{S3T}._put_object', props=['C01', 'C15'], params=dict(SIMPLE), checks=put_checks,
               raises={'Exception': only_propagates}, raise_when={'Exception': lambda c: None})

    # ---- _multipart_upload: hands the same arguments to a MultipartUploader built on this transfer's client / config / osutil
    def mpu_checks(c):
        uf = calls(c.trace, 'MultipartUploader.upload_file')
        okk = len(uf) == 1
        out = {'one_multipart_upload': (B(okk), ['C01', 'C05'])}
        if okk:
            env = uf[0].extra['env']
            up = c.new.obj(uf[0].recv) if isinstance(uf[0].recv, Ref) else None
            out['same_arguments_and_collaborators'] = (B(
                env['filename'] is c.a_filename and env['bucket'] is c.a_bucket and env['key'] is c.a_key and env['callback'] is c.a_callback
                and env['extra_args'] is c.a_extra_args and up is not None and up.fields.get('_client') is c.oldf('_client')
                and up.fields.get('_config') is c.oldf('_config') and up.fields.get('_os') is c.oldf('_osutil')), ['C01', 'C15'])
        return out

    R.contract(f'{S3T}._multipart_upload', props=['C01', 'C05', 'C15'], params=dict(SIMPLE), checks=mpu_checks,
               raises={'Exception': only_propagates}, raise_when={'Exception': lambda c: None})

    # ---- upload_file: validation first, multipart exactly when file size >= threshold, arguments passed on
    def uf_checks(c):
        tr = c.trace
        val = calls(tr, 'S3Transfer._validate_all_known_args')
        gs = calls(tr, 'OSUtils.get_file_size')
        mp, po = calls(tr, 'S3Transfer._multipart_upload'), calls(tr, 'S3Transfer._put_object')
        first_req = min([index_of(tr, e) for e in mp + po] or [10 ** 9])
        out = {
            'arguments_validated_against_the_upload_allow_list_first': (B(
                len(val) == 1 and index_of(tr, val[0]) < first_req
                and c.engine.same_const_list(val[0].extra['env']['allowed'], S3T, 'ALLOWED_UPLOAD_ARGS', c.new.st)), ['C15']),
            'exactly_one_mode': (B(len(mp) + len(po) == 1 and len(gs) == 1), ['C14', 'C01']),
        }
        # C09: botocore reads the body while it prepares the request; progress reporting is switched off first and on last
        # around 'request-created' (legacy handlers disable_/enable_upload_callbacks), registered before any request
        from pyvc.values import FuncRef
        rf = [e for e in tr if e.kind == 'ext' and e.name in ('client_events.register_first', 'event_emitter.register_first')]
        rl = [e for e in tr if e.kind == 'ext' and e.name in ('client_events.register_last', 'event_emitter.register_last')]
        okh = len(rf) == 1 and len(rl) == 1 and rf[0].args[0] == 'request-created.s3' and rl[0].args[0] == 'request-created.s3' \
            and isinstance(rf[0].args[1], FuncRef) and rf[0].args[1].finfo.name == 'disable_upload_callbacks' \
            and isinstance(rl[0].args[1], FuncRef) and rl[0].args[1].finfo.name == 'enable_upload_callbacks' \
            and max(index_of(tr, rf[0]), index_of(tr, rl[0])) < first_req
        out['upload_progress_reporting_is_bracketed_around_request_creation'] = (B(bool(okh)), ['C09'])
        if len(mp) + len(po) == 1 and len(gs) == 1:
            thr = c.old.f(c.oldf('_config'), 'multipart_threshold')
            out['multipart_iff_file_size_at_least_threshold'] = ((gs[0].result >= thr) if mp else (gs[0].result < thr), ['C14'])
            env = (mp + po)[0].extra['env']
            out['arguments_passed_on'] = (B(
                env['filename'] is c.a_filename and env['bucket'] is c.a_bucket and env['key'] is c.a_key and env['callback'] is c.a_callback
                and _same_args(c, env['extra_args'])), ['C15', 'C01'])
        return out

    R.contract(f'{S3T}.upload_file', props=['C01', 'C09', 'C14', 'C15'],
               params=dict(filename=ExtT('str'), bucket=ExtT('str'), key=ExtT('str'), callback=Any, extra_args=OptT(EXTRA)),
               checks=uf_checks, raises={'Exception': only_propagates}, top_level=True)

    # ---- _object_size: HeadObject with the user's arguments, size = ContentLength
    def os_checks(c):
        ho = exts(c.trace, 'client.head_object')
        okk = len(ho) == 1 and ho[0].kwargs.get('Bucket') is c.a_bucket and ho[0].kwargs.get('Key') is c.a_key \
            and set(k for k in ho[0].kwargs if k != '**') == {'Bucket', 'Key'}
        return {'one_head_object_with_the_users_extra_args': (B(bool(okk) and splat_has(ho[0], c.old.st, c.a_extra_args)), ['C15'])}

    cos = R.contracts[f'{S3T}._object_size']
    cos.checks, cos.raises, cos.props = os_checks, {'Exception': only_propagates}, ('C15',)

    # ---- _do_get_object: one GetObject with the user's arguments; EVERY byte of the body, in order, into the file
    def dgo_inv(l):
        keys = [k for k in l.st.ghost if isinstance(k, tuple) and k[0] == 'body']
        if not keys:
            sb = l.st.env['streaming_body']
            R.body_state(l.st, l.st.obj(sb).fields['_stream'])
            if l.pre is not None:
                k0 = [k for k in l.st.ghost if isinstance(k, tuple) and k[0] == 'body'][-1]
                l.pre.ghost.setdefault(k0, dict(l.st.ghost[k0]))
            keys = [k for k in l.st.ghost if isinstance(k, tuple) and k[0] == 'body']
        g = l.st.ghost[keys[-1]]
        return {'written_so_far_is_the_body_prefix_delivered': to_int_term(l.st.ghost.get('legacy_written', z3.IntVal(0))) == g['pos']}

    def dgo_iteration(l0, l1, evs):
        wr = [e for e in evs if e.kind == 'ext' and e.name == 'legacy_dest.write']
        keys = [k for k in l0.st.ghost if isinstance(k, tuple) and k[0] == 'body']
        g0, g1 = l0.st.ghost[keys[-1]], l1.st.ghost[keys[-1]]
        out = {'one_write_per_chunk': (B(len(wr) == 1), ['C02']), **legacy_progress_clause(l1, evs, g0)}
        if len(wr) == 1:
            d = wr[0].args[0]
            out['chunk_written_is_the_next_body_bytes'] = (z3.And(to_int_term(d.lo) == g0['start'] + g0['pos'], to_int_term(d.hi) == g1['start'] + g1['pos']), ['C02'])
        return out

    def dest_write_effect(eng, st, recv, args, kwargs, result):
        d = args[0]
        st.ghost['legacy_written'] = z3.simplify(to_int_term(st.ghost.get('legacy_written', z3.IntVal(0))) + to_int_term(d.hi) - to_int_term(d.lo))

    R.external('legacy_dest', __enter__=ExtSpec(returns=lambda eng, st, recv, a, k: recv, pure=True), __exit__=ExtSpec(raises=('OSError',)),
               write=ExtSpec(raises=('OSError',), effect=dest_write_effect), seek=ExtSpec(raises=('OSError',)))
    R.contract(f'{OSU}.open', params=dict(filename=ExtT('str'), mode=Str), returns=ExtT('legacy_dest'), raise_when={'OSError': lambda c: None})

    def dgo_setup(eng, st, args, self_val):
        st.ghost['get_object_start'] = z3.IntVal(0)
        st.ghost['legacy_written'] = z3.IntVal(0)

    def dgo_checks(c):
        go = exts(c.trace, 'client.get_object')
        op = calls(c.trace, 'OSUtils.open')
        keys = [k for k in c.new.st.ghost if isinstance(k, tuple) and k[0] == 'body']
        g = c.new.st.ghost[keys[-1]] if keys else None
        okk = len(go) == 1 and go[0].kwargs.get('Bucket') is c.a_bucket and go[0].kwargs.get('Key') is c.a_key \
            and set(k for k in go[0].kwargs if k != '**') == {'Bucket', 'Key'}
        return {
            'one_get_object_with_the_users_extra_args': (B(bool(okk) and splat_has(go[0], c.old.st, c.a_extra_args)), ['C15', 'C02']),
            'file_opened_for_writing_from_scratch': (B(len(op) == 1 and op[0].extra['env']['filename'] is c.a_filename and op[0].extra['env']['mode'] == 'wb'), ['C02', 'C06']),
            'returns_only_after_the_whole_body_was_written': ((z3.And(g['pos'] == g['len'], to_int_term(c.new.st.ghost['legacy_written']) == g['len'])
                                                               if g is not None else B(False)), ['C02', 'C03']),
        }

    R.contract(f'{S3T}._do_get_object', props=['C02', 'C03', 'C06', 'C09', 'C15'],
               params=dict(bucket=ExtT('str'), key=ExtT('str'), filename=ExtT('str'), extra_args=EXTRA, callback=OptT(ExtT('legacy_cb'))),
               setup=dgo_setup, checks=dgo_checks, raises={'Exception': only_propagates},
               raise_when={'Exception': lambda c: None, 'socket.timeout': lambda c: None, 'OSError': lambda c: None},
               loops={0: LoopSpec(invariant=dgo_inv, iteration_checks=dgo_iteration)})

    # ---- _get_object: at most num_download_attempts attempts, each a full _do_get_object with the same arguments
    def go_iteration(l0, l1, evs):
        d = [e for e in evs if e.kind == 'call' and e.name.endswith('_do_get_object')]
        return {'one_attempt_per_iteration': (B(len(d) == 1), ['C03']), **R.retry_clauses(l1.engine, evs, ['C03'])}

    def go_checks(c):
        d = [e for e in flat(c.trace) if e.kind == 'call' and e.name.endswith('_do_get_object')]
        last = d[-1] if d else None
        return {'returns_after_an_attempt_that_completed': (B(last is not None and last.extra.get('raised') is None), ['C02', 'C03']),
                'every_attempt_uses_the_users_arguments': (B(all(
                    e.extra['env']['bucket'] is c.a_bucket and e.extra['env']['key'] is c.a_key and e.extra['env']['filename'] is c.a_filename
                    and e.extra['env']['extra_args'] is c.a_extra_args and e.extra['env']['callback'] is c.a_callback for e in d)), ['C15', 'C02']),
                **R.budget_clause(c, c.old.f(c.oldf('_config'), 'num_download_attempts'), ['C03'])}

    cgo = R.contracts[f'{S3T}._get_object']
    cgo.params = dict(bucket=ExtT('str'), key=ExtT('str'), filename=ExtT('str'), extra_args=EXTRA, callback=OptT(ExtT('legacy_cb')))
    cgo.props, cgo.checks = ('C02', 'C03', 'C15'), go_checks
    cgo.setup = lambda eng, st, args, self_val: st.assume(st.obj(st.obj(self_val).fields['_config']).fields['num_download_attempts'] > 0)
    cgo.raises = {'s3transfer.exceptions:RetriesExceededError': lambda c: {'only_after_the_attempt_budget_is_used_up': (B(
        len([e for e in c.trace if e.kind == 'loop']) == 1), ['C03']),
        **R.budget_clause(c, c.old.f(c.oldf('_config'), 'num_download_attempts'), ['C03'])}, 'Exception': only_propagates}
    cgo.loops = {0: LoopSpec(invariant=lambda l: {}, iteration_checks=go_iteration, local_types={'last_exception': OptT(ExtT('exception'))})}


def register_legacy_chunk(R):
    """The legacy ReadFileChunk (s3transfer/__init__.py): window reads and progress accounting of legacy upload bodies
    (C01, C09): bytes read while reporting is off are never reported, and never taken back either."""
    from pyvc.values import to_int_term
    from .spec import b2z
    LRFC = f'{L}:ReadFileChunk'
    R.add_fields(LRFC, _fileobj=ExtT('fileobj_or_name'), _start_byte=Int, _size=Int, _amount_read=Int,
                 _callback=OptT(ExtT('legacy_cb')), _callback_enabled=Bool)

    def setup(eng, st, args, self_val):
        h = st.obj(self_val)
        g = R.stream_state(st, h.fields['_fileobj'])
        start, size, ar = h.fields['_start_byte'], h.fields['_size'], h.fields['_amount_read']
        # class invariant (sequential use by one request thread): the window lies inside the file, the file position is
        # start + amount_read, the position stays inside the window
        st.assume(z3.And(start >= 0, size >= 0, ar >= 0, ar <= size, start + size <= g['len'], g['pos'] == start + ar))
        st.assume(g['full_reads'])       # a regular file opened by from_filename
        st.ghost['lrfc_pos0'] = g['pos']

    def reporting(c):
        return z3.And(z3.Not(c.oldf('_callback').is_none), b2z(c.oldf('_callback_enabled')))

    def cb_events(c):
        return [e for e in c.trace if e.kind == 'ext' and e.name == 'legacy_cb.()']

    def read_post(c):
        d = c.result
        start, size, ar0 = c.oldf('_start_byte'), c.oldf('_size'), c.oldf('_amount_read')
        k = to_int_term(d.hi) - to_int_term(d.lo)
        left = size - ar0
        amt = c.a_amount
        want = z3.If(amt.is_none, left, z3.If(amt.val < left, amt.val, left))
        cbs = cb_events(c)
        return {
            'returns_the_next_bytes_of_the_window': z3.And(B(d.base == 'src'), to_int_term(d.lo) == start + ar0, k == want),
            'position_advances_by_what_was_returned': c.newf('_amount_read') == ar0 + k,
            'reported_iff_reporting_is_on_and_then_exactly_the_bytes_returned': (z3.If(
                reporting(c), z3.And(B(len(cbs) == 1), (to_int_term(cbs[0].args[0]) == k) if len(cbs) == 1 else B(False)), B(len(cbs) == 0)), ['C09']),
        }

    def seek_post(c):
        ar0 = c.oldf('_amount_read')
        cbs = cb_events(c)
        sk = [e for e in c.trace if e.kind == 'ext' and e.name == 'fileobj_or_name.seek']
        return {
            'file_positioned_at_window_start_plus_where': B(len(sk) == 1) if not sk else to_int_term(sk[0].args[0]) == c.oldf('_start_byte') + c.a_where,
            'position_is_where': c.newf('_amount_read') == c.a_where,
            # progress is taken back (negative amount) exactly when reporting is on; with reporting off nothing was reported
            # for the bytes read meanwhile, so nothing may be taken back
            'rewind_reported_iff_reporting_is_on': (z3.If(
                reporting(c), z3.And(B(len(cbs) == 1), (to_int_term(cbs[0].args[0]) == c.a_where - ar0) if len(cbs) == 1 else B(False)), B(len(cbs) == 0)), ['C09']),
        }

    R.contract(f'{LRFC}.read', props=['C01', 'C09'], params=dict(amount=OptT(Int)), top_level=True,
               requires=lambda c: [z3.Or(c.a_amount.is_none, c.a_amount.val >= 0)], setup=setup, ensures=read_post,
               raises={'Exception': only_propagates})
    R.contract(f'{LRFC}.seek', props=['C01', 'C09'], params=dict(where=Int), top_level=True,
               requires=lambda c: [c.a_where >= 0, c.a_where <= c.oldf('_size')], setup=setup, ensures=seek_post,
               raises={'Exception': only_propagates})
    for nm, val in (('enable_callback', True), ('disable_callback', False)):
        R.contract(f'{LRFC}.{nm}', props=['C09'], params={}, top_level=True, raises={},
                   ensures=lambda c, val=val: {'reporting_switched_' + ('on' if val else 'off'): b2z(c.newf('_callback_enabled')) == B(val),
                                               'position_untouched': c.newf('_amount_read') == c.oldf('_amount_read'),
                                               'nothing_reported': B(len(cb_events(c)) == 0)})
    R.contract(f'{LRFC}.tell', props=['C01'], params={}, returns=Int, top_level=True, ensures=lambda c: {'tell_is_position_in_window': c.result == c.oldf('_amount_read')})
    R.contract(f'{LRFC}.__len__', props=['C01'], params={}, returns=Int, top_level=True, ensures=lambda c: {'length_is_window_size': c.result == c.oldf('_size')})

    # the constructor establishes the class invariant the methods above start from: the window is
    # [start_byte, min(start_byte + chunk_size, full_file_size)), the file is positioned at its start, nothing read yet
    def init_setup(eng, st, args, self_val):
        g = R.stream_state(st, args['fileobj'])
        st.assume(z3.And(args['start_byte'] >= 0, args['chunk_size'] >= 0, args['full_file_size'] >= args['start_byte'],
                         g['len'] == args['full_file_size']))

    def init_post(c):
        g = c.new.st.ghost.get(('stream', c.a_fileobj.label))
        size = c.newf('_size')
        return {
            'window_is_the_requested_chunk_cut_at_the_end_of_the_file': size == z3.If(
                c.a_full_file_size - c.a_start_byte < c.a_chunk_size, c.a_full_file_size - c.a_start_byte, c.a_chunk_size),
            'file_positioned_at_the_start_of_the_window': g['pos'] == c.a_start_byte if g is not None else B(False),
            'starts_unread_with_the_given_callback_and_switch': z3.And(
                c.newf('_amount_read') == 0, c.newf('_start_byte') == c.a_start_byte, B(c.newf('_fileobj') is c.a_fileobj),
                B(c.newf('_callback') is c.a_callback), b2z(c.newf('_callback_enabled')) == b2z(c.a_enable_callback)),
        }

    R.mark_inline(f'{LRFC}._calculate_file_size')
    R.contract(f'{LRFC}.__init__', props=['C01', 'C09'], top_level=True,
               params=dict(fileobj=ExtT('fileobj_or_name'), start_byte=Int, chunk_size=Int, full_file_size=Int,
                           callback=OptT(ExtT('legacy_cb')), enable_callback=Bool),
               self_type=ObjT(LRFC, _fileobj=Const(None), _start_byte=Const(None), _size=Const(None), _amount_read=Const(None),
                              _callback=Const(None), _callback_enabled=Const(None)),
               setup=init_setup, ensures=init_post, raises={'Exception': only_propagates})


def register_ranged_downloader(R):
    """MultipartDownloader.download_file: a parts thread and an IO thread; it returns normally only if BOTH finished
    without an exception (else the caller would publish a partially written temp file, C06 / C03)."""
    from pyvc.models import FUTURE_FAILED
    R.external('legacy_executor_cls', **{'()': ExtSpec(returns=ExtT('legacy_executor'), raises=())})
    R.external('legacy_executor', __enter__=ExtSpec(returns=lambda eng, st, recv, a, k: recv, pure=True), __exit__=ExtSpec(raises=()),
               submit=ExtSpec(returns=ExtT('legacy_future'), raises=()),
               map=ExtSpec(returns=ExtT('map_iterator'), raises=()))
    R.external('legacy_future', result=ExtSpec(
        returns=lambda eng, st, recv, a, k: (st.assume(z3.Not(FUTURE_FAILED(recv.term))), Opaque(fresh_name('future_result')))[1],
        raises=('Exception',), on_raise=lambda eng, st, recv, a, k, exc: st.assume(FUTURE_FAILED(recv.term))))

    def dlf_common(c):
        sub = [e for e in c.trace if e.kind == 'ext' and e.name == 'legacy_executor.submit']
        return sub

    def is_partial_of(v, name, nargs):
        return isinstance(v, PartialV) and getattr(getattr(v.func, 'finfo', None), 'name', None) == name and len(v.args) == nargs

    def dlf_checks(c):
        sub = dlf_common(c)
        okshape = len(sub) == 2 and all(len(e.args) == 1 for e in sub)
        out = {'a_parts_thread_and_an_io_thread_are_started': (B(bool(
            okshape and is_partial_of(sub[0].args[0], '_download_file_as_future', 6) and is_partial_of(sub[1].args[0], '_perform_io_writes', 1))), ['C06', 'C02'])}
        if okshape:
            out['returns_normally_only_if_both_threads_finished_without_an_exception'] = (
                z3.And([z3.Not(FUTURE_FAILED(e.result.term)) for e in sub]), ['C06', 'C03', 'C02'])
            p0 = sub[0].args[0]
            if isinstance(p0, PartialV) and len(p0.args) == 6:
                out['parts_thread_gets_the_users_arguments'] = (B(
                    p0.args[0] is c.a_bucket and p0.args[1] is c.a_key and p0.args[2] is c.a_filename and p0.args[3] is c.a_object_size
                    and p0.args[4] is c.a_extra_args and p0.args[5] is c.a_callback), ['C15', 'C02'])
            p1 = sub[1].args[0]
            if isinstance(p1, PartialV) and len(p1.args) == 1:
                out['io_thread_writes_the_given_file'] = (B(p1.args[0] is c.a_filename), ['C06'])
        return out

    R.contract(
        f'{MPD}.download_file', props=['C06', 'C03', 'C02', 'C15'],
        params=dict(bucket=ExtT('str'), key=ExtT('str'), filename=ExtT('str'), object_size=Int, extra_args=EXTRA,
                    callback=OptT(ExtT('legacy_cb'))),
        checks=dlf_checks, raises={'Exception': only_propagates}, raise_when={'Exception': lambda c: None},
        inline_callees=[f'{MPD}._process_future_results'],
    )


def register_legacy_io_thread(R):
    """MultipartDownloader._perform_io_writes (the IO thread) and _download_file_as_future (the parts thread)."""
    from pyvc.contracts import BytesT
    from pyvc.values import to_z3_bool, to_int_term
    # what the IO queue hands out: the shutdown sentinel or an (offset, data) pair
    R.unpack_kinds = dict(getattr(R, 'unpack_kinds', {}), legacy_queue_item=(Int, BytesT('obj')))
    R.externals['ioqueue']['get'] = ExtSpec(returns=ExtT('legacy_queue_item'), raises=())

    def gets(evs):
        return [e for e in evs if e.kind == 'ext' and e.name == 'ioqueue.get']

    def dest_ops(evs):
        return [e for e in evs if e.kind == 'ext' and e.name in ('legacy_dest.seek', 'legacy_dest.write')]

    def item_fields(item):
        off = z3.Function('legacy_queue_item_item0', U, z3.IntSort())(item.term)
        lo = z3.Function('legacy_queue_item_item1_lo', U, z3.IntSort())(item.term)
        hi = z3.Function('legacy_queue_item_item1_hi', U, z3.IntSort())(item.term)
        return off, lo, hi

    def io_iteration(l0, l1, evs):
        g, ops = gets(evs), dest_ops(evs)
        okk = len(g) == 1 and [e.name for e in ops] == ['legacy_dest.seek', 'legacy_dest.write'] and all(e.extra.get('raised') is None for e in ops)
        out = {'each_queued_chunk_is_written_once_at_its_offset': (B(bool(okk)), ['C02', 'C06'])}
        if okk:
            off, lo, hi = item_fields(g[0].result)
            d = ops[1].args[0]
            out['seeks_to_the_chunks_offset_and_writes_exactly_its_data'] = (z3.And(
                to_int_term(ops[0].args[0]) == off, to_int_term(d.lo) == lo, to_int_term(d.hi) == hi), ['C02'])
        return out

    def io_checks(c):
        tr = c.trace
        li = [i for i, e in enumerate(tr) if e.kind == 'loop']
        op = calls(tr, 'OSUtils.open')
        out = {'destination_opened_once_for_writing_from_scratch': (B(
            len(op) == 1 and op[0].extra['env']['filename'] is c.a_filename and op[0].extra['env']['mode'] == 'wb'), ['C02', 'C06'])}
        if len(li) == 1:
            after = tr[li[0] + 1:]
            g = gets(after)
            sentinel = c.engine.module_global(c.engine.repo.modules['s3transfer'], 'SHUTDOWN_SENTINEL', c.new.st)
            out['returns_only_on_the_shutdown_sentinel_without_writing_it'] = (z3.And(
                B(len(g) == 1 and not dest_ops(after)), to_z3_bool(c.engine.identity(g[0].result, sentinel, c.new.st))) if g else B(False), ['C02', 'C03', 'C06'])
        return out

    def io_raises(c):
        tr = flat(c.trace)
        failed = [e for e in tr if e.kind == 'ext' and e.name in ('legacy_dest.seek', 'legacy_dest.write') and e.extra.get('raised') is not None]
        ts = [e for e in tr if e.kind == 'ext' and e.name == 'ioqueue.trigger_shutdown']
        return {**only_propagates(c),
                # a failing write stops the producers (else they keep filling a queue nobody drains)
                'a_failing_write_shuts_the_queue_down_before_the_error_propagates': (B(
                    (not failed) or (len(ts) == 1 and index_of(tr, ts[0]) > index_of(tr, failed[0]))), ['C03', 'C06'])}

    R.contract(f'{MPD}._perform_io_writes', props=['C02', 'C03', 'C06'], params=dict(filename=ExtT('str')),
               checks=io_checks, raises={'Exception': io_raises, 'OSError': io_raises}, raise_when={'Exception': lambda c: None},
               loops={0: LoopSpec(invariant=lambda l: {}, iteration_checks=io_iteration)})


def register_legacy_parts_thread(R):
    """MultipartDownloader._download_file_as_future: plans ceil(size / chunksize) ranges, maps _download_range over all of them
    with the caller's arguments, and ALWAYS queues the shutdown sentinel for the IO thread afterwards (also when a range failed)."""
    from pyvc.values import to_z3_bool

    def puts(evs):
        return [e for e in evs if e.kind == 'ext' and e.name == 'ioqueue.put']

    def plan_ok(c):
        mp = [e for e in flat(c.trace) if e.kind == 'ext' and e.name == 'legacy_executor.map']
        # (the results of the map are consumed -- list(...) -- which is what re-raises a failed range here: C03)
        out = {'one_map_over_the_ranges': (B(len(mp) == 1), ['C14', 'C02', 'C03'])}
        if len(mp) == 1:
            fn, it = mp[0].args[0], mp[0].args[1]
            okfn = isinstance(fn, PartialV) and getattr(getattr(fn.func, 'finfo', None), 'name', None) == '_download_range' and len(fn.args) == 7
            out['every_range_is_downloaded_with_the_callers_arguments'] = (B(bool(
                okfn and fn.args[0] is c.a_bucket and fn.args[1] is c.a_key and fn.args[2] is c.a_filename
                and fn.args[5] is c.a_extra_args and fn.args[6] is c.a_callback)), ['C15', 'C02'])
            if okfn and isinstance(it, Ref) and c.new.obj(it).kind == 'range':
                lo0, n = c.new.obj(it).meta['lo'], c.new.obj(it).meta['hi']
                ps = c.old.f(c.oldf('_config'), 'multipart_chunksize')
                from pyvc.values import to_int_term
                out['parts_are_0_to_ceil_size_over_chunksize'] = (z3.And(
                    to_int_term(lo0) == 0, is_ceil_div(to_int_term(n), c.a_object_size, ps),
                    to_int_term(fn.args[3]) == ps, to_int_term(fn.args[4]) == to_int_term(n)), ['C14', 'C02'])
            else:
                out['parts_are_0_to_ceil_size_over_chunksize'] = (B(False), ['C14', 'C02'])
        return out

    def sentinel_last(c):
        tr = flat(c.trace)
        pu = puts(tr)
        sentinel = c.engine.module_global(c.engine.repo.modules['s3transfer'], 'SHUTDOWN_SENTINEL', c.new.st)
        okk = len(pu) == 1 and index_of(tr, pu[0]) == max(index_of(tr, e) for e in tr if e.kind in ('ext', 'call'))
        return {'io_thread_is_always_told_to_stop_once_everything_was_queued': (
            z3.And(B(True), to_z3_bool(c.engine.identity(pu[0].args[0], sentinel, c.new.st))) if okk else B(False), ['C04', 'C06', 'C02'])}

    R.contract(
        f'{MPD}._download_file_as_future', props=['C14', 'C02', 'C15', 'C06', 'C03'],
        params=dict(bucket=ExtT('str'), key=ExtT('str'), filename=ExtT('str'), object_size=Int, extra_args=EXTRA, callback=OptT(ExtT('legacy_cb'))),
        setup=lambda eng, st, args, self_val: (st.assume(args['object_size'] >= 0), st.assume(args['object_size'] < TWO53),
                                               st.assume(st.obj(st.obj(self_val).fields['_config']).fields['multipart_chunksize'] > 0),
                                               st.assume(st.obj(st.obj(self_val).fields['_config']).fields['multipart_chunksize'] < TWO53)),
        checks=lambda c: {**plan_ok(c), **sentinel_last(c)},
        raises={'Exception': lambda c: {**only_propagates(c), **sentinel_last(c)}}, raise_when={'Exception': lambda c: None},
    )


LEGACY_C06 = [f'{S3T}.download_file', f'{MPD}.download_file']
LEGACY_C14 = [f'{S3T}._download_file']
LEGACY_C15 = [f'{S3T}.upload_file', f'{S3T}.download_file', f'{S3T}._download_file', f'{MPD}._download_range', f'{MPU}.upload_file',
              f'{MPU}._extra_upload_part_args', f'{MPU}._extra_args_for']
LEGACY_C01 = [f'{MPU}._upload_parts', f'{MPU}._upload_one_part']
LEGACY_C02 = [f'{MPD}._download_range']
LEGACY_C03 = [f'{MPD}._download_range']
