"""Legacy front-end (s3transfer/__init__.py: S3Transfer, MultipartDownloader) -- contracts referenced by
C02, C06, C14, C15."""
import z3

from pyvc.contracts import Any, Bool, Const, ExtSpec, ExtT, Int, ListOfT, LoopSpec, MapT, ObjT, OptT, SetT, Str
from pyvc.values import ExcV, FStr, Opaque, Opt, PartialV, Ref, U, fresh_name

from .a_submit import EXTRA, UT
from .a_tasks import calls, exts, flat, index_of, trivial_loop
from .spec import TWO53, b2z, implies, is_ceil_div

B = z3.BoolVal
L = 's3transfer'
S3T, MPD, MPU = f'{L}:S3Transfer', f'{L}:MultipartDownloader', f'{L}:MultipartUploader'
LCFG = f'{L}:TransferConfig'


def splat_has(ev, st, m):
    sp = ev.extra.get('splat')
    if sp is None or not isinstance(m, Ref):
        return False
    mm = st.obj(m).meta
    return sp['present'].eq(mm['present']) and sp['vals'].eq(mm['vals'])


def _same_args(c, v):
    """v is the user's extra_args map (or the fresh empty dict standing in for None)."""
    ua = c.a_extra_args
    if v is ua or (isinstance(ua, Opt) and v is ua.val):
        return True
    if not isinstance(v, Ref):
        return False
    h = c.new.obj(v)
    if h.kind == 'smap':      # the fresh {} standing in for None, seen through a callee's map view
        return v.oid not in c.old.st.heap and h.meta['present'].eq(z3.K(z3.StringSort(), z3.BoolVal(False)))
    return h.kind == 'dict' and not h.items


def register(R):
    R.add_fields(LCFG, multipart_threshold=Int, max_concurrency=Int, multipart_chunksize=Int, num_download_attempts=Int, max_io_queue=Int,
                 valid=lambda v, ref: [v.f(ref, k) > 0 for k in ('multipart_threshold', 'max_concurrency', 'multipart_chunksize', 'num_download_attempts', 'max_io_queue')])
    R.add_fields(S3T, _client=ExtT('client'), _config=ObjT(LCFG), _osutil=ObjT(f'{L}:OSUtils'))
    R.add_fields(f'{L}:OSUtils')
    R.contract(f'{L}:OSUtils.remove_file', params=dict(filename=ExtT('str')))
    R.contract(f'{L}:OSUtils.rename_file', params=dict(current_filename=ExtT('str'), new_filename=ExtT('str')),
               raise_when={'OSError': lambda c: None})
    R.ext_values['os.extsep'] = '.'
    R.contract(f'{UT}:random_file_extension', params=dict(num_digits=Int), returns=ExtT('str'), events=False)
    R.contract(f'{L}:random_file_extension', params=dict(num_digits=Int), returns=ExtT('str'), events=False)

    register_uploader_filters(R)
    register_ranged_downloader(R)

    # ------------------------------------------------------------------ download_file: temp + rename / remove
    R.contract(f'{S3T}._download_file', params=dict(bucket=ExtT('str'), key=ExtT('str'), filename=Any, object_size=Int,
                                                    extra_args=EXTRA, callback=Any),
               raise_when={'Exception': lambda c: None})
    R.contract(f'{S3T}._object_size', params=dict(bucket=ExtT('str'), key=ExtT('str'), extra_args=EXTRA), returns=Int,
               raise_when={'Exception': lambda c: None})
    R.contract(f'{S3T}._validate_all_known_args', params=dict(actual=EXTRA, allowed=Any), raise_when={'ValueError': lambda c: None})

    def dl_common(c):
        tr = c.trace
        dl = calls(tr, 'S3Transfer._download_file')
        rm, rn = calls(tr, f'{L}:OSUtils.remove_file'), calls(tr, f'{L}:OSUtils.rename_file')
        temp = dl[0].extra['env']['filename'] if dl else None
        return tr, dl, rm, rn, temp

    def dl_checks(c):
        tr, dl, rm, rn, temp = dl_common(c)
        return {
            'downloads_into_a_temp_name_next_to_the_destination': (B(
                len(dl) == 1 and isinstance(temp, (FStr, Opaque)) and temp is not c.a_filename), ['C06']),
            'success_publishes_by_one_rename_and_removes_nothing': (B(
                len(rn) == 1 and not rm and rn[0].extra['env']['current_filename'] is temp and rn[0].extra['env']['new_filename'] is c.a_filename
                and index_of(tr, rn[0]) > index_of(tr, dl[0])), ['C06']),
            'size_discovered_with_the_users_extra_args': (B(
                len(calls(tr, 'S3Transfer._object_size')) == 1 and _same_args(c, calls(tr, 'S3Transfer._object_size')[0].extra['env']['extra_args'])
                and _same_args(c, dl[0].extra['env']['extra_args'])), ['C15']),
        }

    def dl_raises(c):
        tr, dl, rm, rn, temp = dl_common(c)
        started = bool(dl)
        renamed = [e for e in rn if e.extra.get('raised') is None]
        return {
            # any failure once the temp name exists (download or the rename itself) removes the temp file
            'failure_removes_the_temp_file': (B((not started) or (len(rm) == 1 and rm[0].extra['env']['filename'] is temp)), ['C06']),
            'destination_untouched_on_failure': (B(not renamed), ['C06']),
        }

    R.contract(
        f'{S3T}.download_file', props=['C06', 'C15'],
        params=dict(bucket=ExtT('str'), key=ExtT('str'), filename=ExtT('str'), extra_args=OptT(EXTRA), callback=Any),
        checks=dl_checks, raises={'Exception': dl_raises},
    )

    # ------------------------------------------------------------------ mode decision
    R.contract(f'{S3T}._ranged_download', params=dict(bucket=Any, key=Any, filename=Any, object_size=Int, extra_args=Any, callback=Any),
               raise_when={'Exception': lambda c: None})
    R.contract(f'{S3T}._get_object', params=dict(bucket=Any, key=Any, filename=Any, extra_args=Any, callback=Any),
               raise_when={'Exception': lambda c: None})
    cdf = R.contracts[f'{S3T}._download_file']
    cdf.props = ('C14', 'C15')
    cdf.checks = lambda c: {
        'ranged_iff_size_at_least_threshold': (
            (c.a_object_size >= c.old.f(c.oldf('_config'), 'multipart_threshold')) if calls(c.trace, '_ranged_download')
            else (c.a_object_size < c.old.f(c.oldf('_config'), 'multipart_threshold')), ['C14']),
        'exactly_one_mode_with_the_users_extra_args': (B(
            len(calls(c.trace, '_ranged_download')) + len(calls(c.trace, 'S3Transfer._get_object')) == 1
            and (calls(c.trace, '_ranged_download') + calls(c.trace, 'S3Transfer._get_object'))[0].extra['env']['extra_args'] is c.a_extra_args), ['C15', 'C14']),
    }
    cdf.raises = {'Exception': lambda c: {}}

    # ------------------------------------------------------------------ ranged download: extra args reach every GET
    R.add_fields(MPD, _client=ExtT('client'), _config=ObjT(LCFG), _os=ObjT(f'{L}:OSUtils'), _executor_cls=ExtT('legacy_executor_cls'),
                 _ioqueue=ExtT('ioqueue'))
    R.external('ioqueue', put=ExtSpec(raises=('Exception', 'OSError'), blocking=True), get=ExtSpec(returns=Any, raises=()),
               trigger_shutdown=ExtSpec(raises=()))
    R.mark_inline(f'{MPD}._calculate_range_param', f'{L}:StreamReaderProgress.__init__', f'{L}:StreamReaderProgress.read')
    R.add_fields(f'{L}:StreamReaderProgress', _stream=ExtT('respdict'), _callback=OptT(ExtT('legacy_cb')))
    R.external('legacy_cb', **{'()': ExtSpec(raises=('Exception', 'OSError'), user_code=True)})

    def range_setup(eng, st, args, self_val):
        st.ghost['get_object_start'] = args['part_size'] * args['part_index']
        st.assume(z3.And(args['part_size'] > 0, args['part_index'] >= 0, args['part_index'] < args['num_parts']))
        st.assume(st.obj(st.obj(self_val).fields['_config']).fields['num_download_attempts'] > 0)

    def inner_inv(l):
        keys = [k for k in l.st.ghost if isinstance(k, tuple) and k[0] == 'body']
        if not keys:
            sb = l.st.env['streaming_body']
            R.body_state(l.st, l.st.obj(sb).fields['_stream'])
            if l.pre is not None:
                k0 = [k for k in l.st.ghost if isinstance(k, tuple) and k[0] == 'body'][-1]
                l.pre.ghost.setdefault(k0, dict(l.st.ghost[k0]))
            keys = [k for k in l.st.ghost if isinstance(k, tuple) and k[0] == 'body']
        g = l.st.ghost[keys[-1]]
        return {'write_position_tracks_body_position': l.local('current_index') == l.local('part_size') * l.local('part_index') + g['pos']}

    def inner_iteration(l0, l1, evs):
        pu = [e for e in evs if e.kind == 'ext' and e.name == 'ioqueue.put']
        keys = [k for k in l0.st.ghost if isinstance(k, tuple) and k[0] == 'body']
        g0 = l0.st.ghost[keys[-1]]
        out = {'one_write_queued_per_chunk': (B(len(pu) == 1), ['C02'])}
        if len(pu) == 1:
            off, d = pu[0].args[0]
            from pyvc.values import to_int_term
            out['chunk_queued_at_part_offset_plus_prefix_delivered'] = (z3.And(
                to_int_term(off) == l0.st.env['part_size'] * l0.st.env['part_index'] + g0['pos'], to_int_term(d.lo) == to_int_term(off)), ['C02'])
        return out

    def range_checks(c):
        go = [e for e in flat(c.trace) if e.kind == 'ext' and e.name == 'client.get_object']
        from .c14 import range_term
        i, ps, n = c.a_part_index, c.a_part_size, c.a_num_parts
        want = z3.If(i == n - 1, range_term(c.engine, i * ps), range_term(c.engine, i * ps, (i + 1) * ps - 1))
        okr = all(('Range' in e.kwargs) for e in go)
        return {
            'range_header_is_the_parts_window': (z3.And([c.engine.as_u_term(e.kwargs['Range'], c.new.st) == want for e in go] + [B(bool(go) and okr)]), ['C02', 'C14']),
            # the requested object version / encryption key etc. is the user's: extra args reach every GET
            'users_extra_args_reach_every_get_object': (B(bool(go) and all(splat_has(e, c.old.st, c.a_extra_args) for e in go)), ['C15', 'C02']),
        }

    R.contract(
        f'{MPD}._download_range', props=['C02', 'C14', 'C15', 'C03'],
        params=dict(bucket=ExtT('str'), key=ExtT('str'), filename=ExtT('str'), part_size=Int, num_parts=Int, callback=OptT(ExtT('legacy_cb')),
                    part_index=Int, extra_args=EXTRA),
        setup=range_setup, checks=range_checks,
        raises={'Exception': lambda c: {}},
        loops={0: LoopSpec(invariant=lambda l: {}, iteration_checks=lambda l0, l1, evs: R.retry_clauses(l1.engine, evs, ['C03']),
                        local_types={'last_exception': OptT(ExtT('exception')), 'current_index': Int}),
               1: LoopSpec(invariant=inner_inv, iteration_checks=inner_iteration)},
    )


def legacy_const(eng, name):
    """list constant of the legacy MultipartUploader read from the real AST ([] when the class has no such attribute)."""
    from pyvc.state import State
    ci = eng.repo.cls(MPU)
    owner, _ = eng.repo.find_class_attr(ci, name)
    if owner is None:
        return []
    st = State()
    return list(st.obj(eng.class_attr(owner, name, st)[0].val).items)


def register_uploader_filters(R):
    """MultipartUploader._extra_upload_part_args / _extra_args_for: whitelist filters over the user's map."""
    from .c15_filters import filter_contract
    filter_contract(R, f'{MPU}._extra_upload_part_args', 'extra_args', 'upload_parts_args',
                    lambda c_eng, st, loc: c_eng.class_attr(c_eng.repo.cls(MPU), 'UPLOAD_PART_ARGS', st)[0].val)
    filter_contract(R, f'{MPU}._extra_args_for', 'extra_args', 'filtered_args', lambda c_eng, st, loc: loc('allowed'),
                    extra_params=dict(allowed=SetT('Str')), optional=True)


def register_ranged_downloader(R):
    """MultipartDownloader.download_file: a parts thread and an IO thread; it returns normally only if BOTH finished
    without an exception (else the caller would publish a partially written temp file, C06 / C03)."""
    from pyvc.models import FUTURE_FAILED
    R.external('legacy_executor_cls', **{'()': ExtSpec(returns=ExtT('legacy_executor'), raises=())})
    R.external('legacy_executor', __enter__=ExtSpec(returns=lambda eng, st, recv, a, k: recv, pure=True), __exit__=ExtSpec(raises=()),
               submit=ExtSpec(returns=ExtT('legacy_future'), raises=()),
               map=ExtSpec(returns=ExtT('map_iterator'), raises=()))
    R.external('legacy_future', result=ExtSpec(
        returns=lambda eng, st, recv, a, k: (st.assume(z3.Not(FUTURE_FAILED(recv.term))), Opaque(fresh_name('future_result')))[1],
        raises=('Exception',), on_raise=lambda eng, st, recv, a, k, exc: st.assume(FUTURE_FAILED(recv.term))))

    def dlf_common(c):
        sub = [e for e in c.trace if e.kind == 'ext' and e.name == 'legacy_executor.submit']
        return sub

    def is_partial_of(v, name, nargs):
        return isinstance(v, PartialV) and getattr(getattr(v.func, 'finfo', None), 'name', None) == name and len(v.args) == nargs

    def dlf_checks(c):
        sub = dlf_common(c)
        okshape = len(sub) == 2 and all(len(e.args) == 1 for e in sub)
        out = {'a_parts_thread_and_an_io_thread_are_started': (B(bool(
            okshape and is_partial_of(sub[0].args[0], '_download_file_as_future', 6) and is_partial_of(sub[1].args[0], '_perform_io_writes', 1))), ['C06', 'C02'])}
        if okshape:
            out['returns_normally_only_if_both_threads_finished_without_an_exception'] = (
                z3.And([z3.Not(FUTURE_FAILED(e.result.term)) for e in sub]), ['C06', 'C03', 'C02'])
            p0 = sub[0].args[0]
            if isinstance(p0, PartialV) and len(p0.args) == 6:
                out['parts_thread_gets_the_users_arguments'] = (B(
                    p0.args[0] is c.a_bucket and p0.args[1] is c.a_key and p0.args[2] is c.a_filename and p0.args[3] is c.a_object_size
                    and p0.args[4] is c.a_extra_args and p0.args[5] is c.a_callback), ['C15', 'C02'])
            p1 = sub[1].args[0]
            if isinstance(p1, PartialV) and len(p1.args) == 1:
                out['io_thread_writes_the_given_file'] = (B(p1.args[0] is c.a_filename), ['C06'])
        return out

    R.contract(
        f'{MPD}.download_file', props=['C06', 'C03', 'C02', 'C15'],
        params=dict(bucket=ExtT('str'), key=ExtT('str'), filename=ExtT('str'), object_size=Int, extra_args=EXTRA,
                    callback=OptT(ExtT('legacy_cb'))),
        checks=dlf_checks, raises={'Exception': lambda c: {}}, raise_when={'Exception': lambda c: None},
        inline_callees=[f'{MPD}._process_future_results'],
    )


LEGACY_C06 = [f'{S3T}.download_file', f'{MPD}.download_file']
LEGACY_C14 = [f'{S3T}._download_file']
LEGACY_C15 = [f'{S3T}.download_file', f'{S3T}._download_file', f'{MPD}._download_range', f'{MPU}.upload_file',
              f'{MPU}._extra_upload_part_args', f'{MPU}._extra_args_for']
LEGACY_C02 = [f'{MPD}._download_range']
LEGACY_C03 = [f'{MPD}._download_range']
