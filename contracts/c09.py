"""C09 -- progress callbacks account for exactly the transferred bytes."""
import z3

from .a_submit import CP, DL, UP, UT
from .a_windows import PROGRESS_ROOTS, WINDOW_ROOTS

ROOTS = WINDOW_ROOTS + PROGRESS_ROOTS + [
    f'{DL}:GetObjectTask._main', f'{CP}:CopyObjectTask._main', f'{CP}:CopyPartTask._main',
    f'{CP}:CopySubmissionTask._submit_copy_request', f'{CP}:CopySubmissionTask._submit_multipart_request',
    f'{UP}:PutObjectTask._main',
]


def lemma_telescoping():
    """If every operation changes `reported` by the change of the bounded position P (0 while disabled) then over a
    sequence the total is the sum of the enabled segments' (P_end - P_begin): induction step."""
    r0, r1, p0, p1, acc = z3.Ints('r0 r1 p0 p1 acc')
    en = z3.Bool('en')
    return z3.Implies(z3.And(r0 == acc, r1 - r0 == z3.If(en, p1 - p0, 0)), r1 == acc + z3.If(en, p1 - p0, 0))


def lemma_bounds():
    """0 <= P <= size, so any sum of enabled segments that starts at P=0 and ends at P=size with disabled segments
    ending where they began equals size; partial sums stay within [-size, size]."""
    p, ar, size = z3.Ints('p ar size')
    return z3.Implies(z3.And(size >= 0, ar >= 0, p == z3.If(ar <= size, ar, size)), z3.And(p >= 0, p <= size))


def register(R):
    R.lemmas.append(('C09', 'lemma.progress_telescopes_over_operations', lemma_telescoping))
    R.lemmas.append(('C09', 'lemma.bounded_position_within_window', lemma_bounds))


MANIFEST = dict(
    category='proof',
    text=('Per-operation accounting on the real code: ReadFileChunk.read / seek change the reported total by exactly the '
          'change of the bounded position min(amount_read, size) when reporting is enabled and by 0 when disabled (any read '
          'size, any seek, any whence) -- hence over ANY sequence of reads, rewinds and enable/disable toggles the total '
          'telescopes (lemma); AggregatedProgressCallback conserves received == delivered + pending and flush delivers the '
          'remainder; a download attempt reports exactly the bytes it read per chunk and takes back exactly '
          'start_index - current_index when it is abandoned; copies report the part range length after the request returned.'
          ' Every multipart part body reports through its own, freshly created progress aggregator.'),
    note=('A-BOTO: signing reads and rewinds the body between signal_not_transferring and signal_transferring; the HTTP layer '
          'calls read(amount) with amount None or >= 0. Interleaving of parts is irrelevant to a sum.'),
    technique='contract-based deductive verification: per-method delta contracts + telescoping lemma, z3',
)
LEVEL = 'proof'
TRUSTED = ['A-BOTO', 'A-FILE']
ASSUMPTIONS = TRUSTED
EXPLANATION = 'progress accounting by per-operation deltas'
