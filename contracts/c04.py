"""C04 -- every transfer terminates: the function-level core that contracts can decide.

Decided here: (K4) lock discipline -- no re-acquisition of a held non-reentrant lock, one global
lock order, no user code while a lock needed by the public future API is held, blocking calls only
with the allowed locks held; (K3) exactly one announcer per path; (K2) CountCallbackInvoker fires
its callback exactly when the finalized count reaches zero.
NOT decided here (see DESIGN.md section 8): termination of waits, lost wake-ups, fairness."""
import z3

from pyvc.contracts import Any, Bool, ExtSpec, ExtT, Int, ListOfT, LockT, LoopSpec, ObjT, OptT, SetT, Str
from pyvc.values import U

from .a_common import DONE, F, S, UT, status_in
from .a_tasks import T, TASK, TC, calls, exts, index_of, trivial_loop
from .spec import b2z, implies

B = z3.BoolVal
CCI = f'{UT}:CountCallbackInvoker'
M = 's3transfer.manager'

LOCK_RULES = {
    # strict partial order of acquisition: a lock may be acquired only while holding locks of a
    # strictly smaller level.  TransferCoordinator._lock is a leaf: nothing is acquired under it.
    'levels': {
        'DownloadNonSeekableOutputManager._io_submit_lock': 10,
        'CountCallbackInvoker._lock': 20,
        'TransferCoordinator._failure_cleanups_lock': 30,
        'TransferCoordinator._done_callbacks_lock': 40,
        'TransferCoordinatorController._lock': 50,
        'TransferCoordinator._associated_futures_lock': 60,
        'SlidingWindowSemaphore._lock': 70,
        'SlidingWindowSemaphore._condition': 70,
        'LeakyBucket._lock': 70,
        'TransferCoordinator._lock': 100,
    },
    # locks that TransferFuture.done/meta/set_exception/cancel/result need: never held around user code
    'public_api_locks': ('TransferCoordinator._lock',),
    'allowed_while_blocking': {
        # neither lock is needed by the thread that frees the permit / sets the event
        'executor.submit': ('DownloadNonSeekableOutputManager._io_submit_lock', 'CountCallbackInvoker._lock',
                            'TransferCoordinator._done_callbacks_lock'),
        'semaphore.acquire': ('DownloadNonSeekableOutputManager._io_submit_lock', 'CountCallbackInvoker._lock'),
        'event.wait': (),
        'future.result': (),
    },
}


def configure(eng):
    eng.lock_rules = LOCK_RULES


def register(R):
    R.lock_levels = LOCK_RULES['levels']

    # ------------------------------------------------------------------ CountCallbackInvoker (K2)
    # (it decides when the final IO task of a ranged download -- rename / close -- is submitted: fired early, a partial
    #  file is published although the future succeeds (C02, C06); never fired, the transfer hangs (C04))
    CCI_PROPS = ['C04', 'C02', 'C06']
    R.add_fields(CCI, _lock=LockT(), _callback=ExtT('invoker_callback'), _count=Int, _is_finalized=Bool)
    R.external('invoker_callback', **{'()': ExtSpec(raises=('Exception',), blocking=False)})

    R.monitor(CCI, lock='_lock', fields=dict(_count=Int, _is_finalized=Bool),
              invariant=lambda v, ref: {'count_never_negative': v.f(ref, '_count') >= 0},
              guarantee=lambda old, new, ref: {
                  'finalized_is_permanent': z3.Implies(b2z(old.f(ref, '_is_finalized')), b2z(new.f(ref, '_is_finalized'))),
                  'no_increment_after_finalize': z3.Implies(b2z(old.f(ref, '_is_finalized')),
                                                            new.f(ref, '_count') <= old.f(ref, '_count')),
              }, props=CCI_PROPS)
    SH = ObjT(CCI, shared=True)

    def fired(c):
        return [e for e in c.trace if e.kind == 'ext' and e.name == 'invoker_callback.()']

    R.contract(f'{CCI}.increment', props=CCI_PROPS, self_type=SH, old_at='acquire', params={},
               ensures=lambda c: {'count_plus_one': c.newf('_count') == c.oldf('_count') + 1,
                                  'was_not_finalized': z3.Not(b2z(c.oldf('_is_finalized'))),
                                  'callback_not_fired': B(len(fired(c)) == 0)},
               raises={'RuntimeError': lambda c: {'only_when_finalized': b2z(c.oldf('_is_finalized')),
                                                  'count_unchanged': c.newf('_count') == c.oldf('_count'),
                                                  'callback_not_fired': B(len(fired(c)) == 0)}},
               raise_when={'RuntimeError': lambda c: None})

    def dec_post(c):
        fin, n = b2z(c.oldf('_is_finalized')), c.newf('_count')
        return {'count_minus_one': n == c.oldf('_count') - 1,
                'fires_exactly_when_finalized_count_reaches_zero': z3.If(z3.And(fin, n == 0), B(len(fired(c)) == 1), B(len(fired(c)) == 0)),
                'finalized_untouched': b2z(c.newf('_is_finalized')) == fin}

    R.contract(f'{CCI}.decrement', props=CCI_PROPS, self_type=SH, old_at='acquire', params={},
               ensures=dec_post,
               raises={'RuntimeError': lambda c: {'only_at_zero': c.oldf('_count') == 0,
                                                  'callback_not_fired': B(len(fired(c)) == 0)},
                       'Exception': lambda c: {'callback_raised_after_the_count_reached_zero': z3.And(
                           b2z(c.oldf('_is_finalized')), c.newf('_count') == 0, B(len(fired(c)) == 1))}},
               raise_when={'RuntimeError': lambda c: None})

    R.contract(f'{CCI}.finalize', props=CCI_PROPS, self_type=SH, old_at='acquire', params={},
               ensures=lambda c: {'finalized': b2z(c.newf('_is_finalized')),
                                  'count_untouched': c.newf('_count') == c.oldf('_count'),
                                  'fires_iff_count_is_zero': z3.If(c.newf('_count') == 0, B(len(fired(c)) == 1), B(len(fired(c)) == 0))},
               raises={'Exception': lambda c: {'only_from_the_callback': z3.And(c.newf('_count') == 0, B(len(fired(c)) == 1))}})

    # ------------------------------------------------------------------ associated futures
    R.monitor(TC, lock='_associated_futures_lock', fields=dict(_associated_futures=SetT('U')),
              invariant=lambda v, ref: {}, props=['C04'])
    SHC = ObjT(TC, shared=True)
    # the futures a failed submission waits for before it announces done (C05 / C08: nothing announced while a request of
    # the transfer is still running): add really adds, remove really removes, nothing else changes
    def assoc_sets(c):
        old = c.new.st.ghost.get(('mon_old', c.self.oid))
        p0 = old.obj(old.obj(c.self).fields['_associated_futures']).meta['present'] if old is not None else None
        p1 = c.new.obj(c.newf('_associated_futures')).meta['present']
        return p0, p1
    xx = z3.Const('xx_fut', U)

    def add_post(c):
        p0, p1 = assoc_sets(c)
        if p0 is None:
            return {'set_updated_under_its_lock': B(False)}
        k = c.a_future.term
        return {'future_is_tracked_afterwards': z3.Select(p1, k),
                'other_members_untouched': z3.ForAll([xx], z3.Implies(xx != k, z3.Select(p1, xx) == z3.Select(p0, xx)))}

    def rem_post(c):
        p0, p1 = assoc_sets(c)
        if p0 is None:
            return {'set_updated_under_its_lock': B(False)}
        k = c.a_future.term
        return {'future_is_no_longer_tracked': z3.Not(z3.Select(p1, k)),
                'other_members_untouched': z3.ForAll([xx], z3.Implies(xx != k, z3.Select(p1, xx) == z3.Select(p0, xx)))}

    ASSOC_PROPS = ['C04', 'C05', 'C08']
    R.contract(f'{TC}.add_associated_future', props=ASSOC_PROPS, self_type=SHC, old_at='acquire', params=dict(future=ExtT('future')),
               ensures=add_post, raises={})
    R.contract(f'{TC}.remove_associated_future', props=ASSOC_PROPS, self_type=SHC, old_at='acquire', params=dict(future=ExtT('future')),
               ensures=rem_post, raises={'KeyError': lambda c: {}})

    # ------------------------------------------------------------------ controller
    CTRL = f'{M}:TransferCoordinatorController'
    R.add_fields(CTRL, _lock=LockT(), _tracked_transfer_coordinators=SetT('U', elem_kind='coordinator'))
    R.monitor(CTRL, lock='_lock', fields=dict(_tracked_transfer_coordinators=SetT('U', elem_kind='coordinator')),
              invariant=lambda v, ref: {}, props=['C04', 'C18'])
    SHK = ObjT(CTRL, shared=True)
    # tracked transfers are the ones shutdown waits for / cancels (C18, C07): add really adds, remove really removes
    def ctrl_sets(c):
        old = c.new.st.ghost.get(('mon_old', c.self.oid))
        p0 = old.obj(old.obj(c.self).fields['_tracked_transfer_coordinators']).meta['present'] if old is not None else None
        p1 = c.new.obj(c.newf('_tracked_transfer_coordinators')).meta['present']
        return p0, p1
    yy = z3.Const('yy_coord', U)

    def ctrl_add_post(c):
        p0, p1 = ctrl_sets(c)
        if p0 is None:
            return {'set_updated_under_its_lock': B(False)}
        k = c.a_transfer_coordinator.term
        return {'transfer_is_tracked_afterwards': z3.Select(p1, k),
                'other_members_untouched': z3.ForAll([yy], z3.Implies(yy != k, z3.Select(p1, yy) == z3.Select(p0, yy)))}

    def ctrl_rem_post(c):
        p0, p1 = ctrl_sets(c)
        if p0 is None:
            return {'set_updated_under_its_lock': B(False)}
        k = c.a_transfer_coordinator.term
        return {'transfer_is_no_longer_tracked': z3.Not(z3.Select(p1, k)),
                'other_members_untouched': z3.ForAll([yy], z3.Implies(yy != k, z3.Select(p1, yy) == z3.Select(p0, yy)))}

    R.contract(f'{CTRL}.add_transfer_coordinator', props=['C04', 'C18', 'C07'], self_type=SHK, old_at='acquire',
               params=dict(transfer_coordinator=ExtT('coordinator')), ensures=ctrl_add_post, raises={})
    R.contract(f'{CTRL}.remove_transfer_coordinator', props=['C04', 'C18', 'C07'], self_type=SHK, old_at='acquire',
               params=dict(transfer_coordinator=ExtT('coordinator')), ensures=ctrl_rem_post, raises={'KeyError': lambda c: {}})


# functions whose lock discipline is checked under C04 (their own contracts live with other properties)
ROOTS = [
    f'{TC}.set_result', f'{TC}.set_exception', f'{TC}.cancel', f'{TC}._transition_to_non_done_state',
    f'{TC}.announce_done', f'{TC}._run_done_callbacks', f'{TC}._run_failure_cleanups', f'{TC}._run_callbacks',
    f'{TC}._run_callback', f'{TC}.add_done_callback', f'{TC}.add_failure_cleanup',
    f'{TC}.add_associated_future', f'{TC}.remove_associated_future',
    f'{CCI}.increment', f'{CCI}.decrement', f'{CCI}.finalize',
    f'{M}:TransferCoordinatorController.add_transfer_coordinator',
    f'{M}:TransferCoordinatorController.remove_transfer_coordinator',
    f'{TASK}.__call__', f'{T}:SubmissionTask._main',
    's3transfer.upload:UploadSubmissionTask._submit', 's3transfer.upload:UploadSubmissionTask._submit_upload_request',
    's3transfer.upload:UploadSubmissionTask._submit_multipart_request',
    's3transfer.copies:CopySubmissionTask._submit', 's3transfer.copies:CopySubmissionTask._submit_copy_request',
    's3transfer.copies:CopySubmissionTask._submit_multipart_request',
    's3transfer.download:DownloadSubmissionTask._submit', 's3transfer.download:DownloadSubmissionTask._submit_download_request',
    's3transfer.download:DownloadSubmissionTask._submit_ranged_download_request',
    's3transfer.delete:DeleteSubmissionTask._submit',
    's3transfer.download:DownloadNonSeekableOutputManager.get_io_write_tasks',
]

LEVEL = 'other'
MANIFEST = dict(
    category='other',
    text=('Function-level core of termination only: lock-discipline contracts (no re-acquisition, one lock order, '
          'no user callback while the coordinator lock needed by the public future API is held, blocking calls only '
          'with allowed locks) discharged at every acquisition / callback / blocking site of the real code; exactly one '
          'announcer per path of Task.__call__, SubmissionTask._main and cancel; CountCallbackInvoker fires exactly '
          'when the finalized count reaches zero (monitor). Liveness over schedules (termination of waits, lost '
          'wake-ups, fairness) is NOT decided by this technique and is not claimed.'
          ' Also: SubmissionTask._wait_for_all_submitted_futures_to_complete returns only when the set it waited for was still the whole associated set (or none is associated).'),
    note=('Absence of lock-induced deadlock and of double/missing announce per path; no schedule is enumerated; '
          'threading primitives and ThreadPoolExecutor FIFO behaviour are assumed (A-LOCK, A-EXECUTOR).'),
    technique='contract-based deductive verification: lock-level / requires-unheld contracts + trace and monitor contracts',
)
TRUSTED = ['A-LOCK', 'A-EXECUTOR', 'lock-level table LOCK_RULES (declared, checked at every acquisition)']
ASSUMPTIONS = TRUSTED
EXPLANATION = ('Lock-discipline, exactly-one-announcer and count-to-zero contracts are discharged for all paths of the '
               'functions under contract; the liveness headline of C04 over all schedules is outside contract-based '
               'deductive verification and is not claimed (DESIGN.md section 8).')
