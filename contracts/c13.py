"""C13 -- bandwidth limit respected without starving or over-throttling (function-level core).

K2 monitor on LeakyBucket._lock over the bucket, its scheduler and its rate tracker; floats are
mathematical reals (A-REAL); the clock handed to the tracker does not go backwards (A-CLOCK-MONOTONE; equal readings are allowed).
The scheduler's total wait is tied to the sum over scheduled tokens by an uninterpreted SUM with two
finite-sum lemmas (update / member bound) as background axioms (listed as trusted lemmas)."""
import z3

from pyvc.contracts import (
    Any, Bool, Const, ExtSpec, ExtT, Int, ListOfT, LockT, LoopSpec, MapT, ObjT, OptT, Real, RecordT,
)
from pyvc.values import ExcV, Opaque, Opt, Ref, U, to_real

from .a_common import F, is_none
from .a_tasks import TC, calls, exts, flat, index_of, only_propagates
from .spec import b2z, implies

B = z3.BoolVal
BW = 's3transfer.bandwidth'
LB, CS, RT, BLS = f'{BW}:LeakyBucket', f'{BW}:ConsumptionScheduler', f'{BW}:BandwidthRateTracker', f'{BW}:BandwidthLimitedStream'

PSort = z3.ArraySort(U, z3.BoolSort())
TSort = z3.ArraySort(U, z3.RealSort())
SUM = z3.Function('SUM', PSort, TSort, z3.RealSort())


def background():
    """Finite-sum lemmas (for maps with finite support, as Python dicts are):
    changing one key changes the sum by the change of that key's contribution."""
    p, t = z3.Const('p__', PSort), z3.Const('t__', TSort)
    k = z3.Const('k__', U)
    b = z3.Bool('b__')
    v = z3.Real('v__')
    contrib_old = z3.If(z3.Select(p, k), z3.Select(t, k), 0)
    return [
        z3.ForAll([p, t, k, b, v], SUM(z3.Store(p, k, b), z3.Store(t, k, v)) == SUM(p, t) - contrib_old + z3.If(b, v, 0),
                  patterns=[SUM(z3.Store(p, k, b), z3.Store(t, k, v))]),
        z3.ForAll([p, t, k, b], SUM(z3.Store(p, k, b), t) == SUM(p, t) - contrib_old + z3.If(b, z3.Select(t, k), 0),
                  patterns=[SUM(z3.Store(p, k, b), t)]),
    ]


def member_bound(p, t, k):
    """Instance of: all scheduled shares >= 0 and k scheduled  =>  SUM >= share(k) (and SUM >= 0)."""
    x = z3.Const('x__', U)
    nonneg = z3.ForAll([x], z3.Implies(z3.Select(p, x), z3.Select(t, x) >= 0))
    return z3.And(z3.Implies(z3.And(nonneg, z3.Select(p, k)), SUM(p, t) >= z3.Select(t, k)),
                  z3.Implies(nonneg, SUM(p, t) >= 0))


def sched(view, bucket):
    s = view.obj(view.f(bucket, '_consumption_scheduler'))
    m = view.obj(s.fields['_tokens_to_scheduled_consumption'])
    return s.fields['_total_wait'], m.meta['present'], m.meta['vals']['time_to_consume']


def tracker(view, bucket):
    t = view.obj(view.f(bucket, '_rate_tracker'))
    return t.fields['_alpha'], t.fields['_last_time'], t.fields['_current_rate']


def nonfinite(v):
    v = v.val if isinstance(v, Opt) else v
    return isinstance(v, tuple) and len(v) == 2 and isinstance(v[0], str) and v[0] == '$inf'


def ov(v):
    """payload of an optional float as a real term (0 when None)."""
    if v is None or nonfinite(v):
        return z3.RealVal(0)
    if isinstance(v, Opt):
        return to_real(v.val)
    return to_real(v)


def tok_term(tok):
    if isinstance(tok, Opaque):
        return tok.term
    return z3.Const(f'ref!{tok.oid}', U)


def bucket_inv(view, ref):
    total, pres, ttc = sched(view, ref)
    alpha, last, rate = tracker(view, ref)
    x = z3.Const('x__', U)
    return {
        'total_wait_is_sum_of_scheduled_shares': to_real(total) == SUM(pres, ttc),
        'scheduled_shares_nonneg': z3.ForAll([x], z3.Implies(z3.Select(pres, x), z3.Select(ttc, x) >= 0)),
        'tracker_started_consistently': is_none(last) == is_none(rate),
        'tracked_rate_nonneg': z3.Or(is_none(rate), ov(rate) >= 0),
        # an infinite tracked rate never decays (alpha*x + (1-alpha)*inf = inf): every later read of every transfer would be
        # throttled for good -- "throttling never permanently slows transfers"
        'tracked_rate_is_finite': z3.BoolVal(not nonfinite(rate)),
        'max_rate_positive': view.f(ref, '_max_rate') > 0,
        'alpha_in_unit_interval': z3.And(alpha > 0, alpha < 1),
    }


def _member_bound_instance(eng, st, owner):
    tok = st.env.get('request_token')
    if tok is not None:
        from pyvc.contracts import View
        total, pres, ttc = sched(View(eng, st), owner)
        st.assume(member_bound(pres, ttc, tok_term(tok)))


SCHED_FIELDS = dict(_tokens_to_scheduled_consumption=MapT('U', RecordT(wait_duration=Real, time_to_consume=Real)),
                    _total_wait=Real)
TRACK_FIELDS = dict(_last_time=OptT(Real), _current_rate=OptT(Real))


def configure(eng):
    eng.ieee_checks = False   # A-REAL: bandwidth floats are reals


def register(R):
    R.add_fields(RT, _alpha=Real, **TRACK_FIELDS)
    R.add_fields(CS, **SCHED_FIELDS)
    R.add_fields(LB, _max_rate=Real, _time_utils=ExtT('time_utils'), _lock=LockT(),
                 _rate_tracker=ObjT(RT), _consumption_scheduler=ObjT(CS))
    # A-CLOCK-MONOTONE: successive time() values under the lock do not decrease (equal readings -- same tick -- are possible)
    def clock_effect(eng, st, recv, args, kwargs, result):
        b = st.ghost.get('c13_bucket')
        if b is not None:
            last = st.obj(st.obj(b).fields['_rate_tracker']).fields['_last_time']
            st.assume(z3.Or(is_none(last), result >= ov(last)))     # NON-strict: two readings in the same tick are possible

    R.external('time_utils', time=ExtSpec(returns=Real, raises=(), effect=clock_effect),
               sleep=ExtSpec(raises=(), blocking=True))
    R.monitor(LB, lock='_lock', fields={}, nested={'_rate_tracker': TRACK_FIELDS, '_consumption_scheduler': SCHED_FIELDS},
              invariant=bucket_inv, props=['C13'], on_acquire=_member_bound_instance)
    for q in ('_projected_to_exceed_max_rate', '_release_requested_amt_for_scheduled_request',
              '_raise_request_exceeded_exception', '_release_requested_amt'):
        R.mark_inline(f'{LB}.{q}')
    for q in ('is_scheduled', 'schedule_consumption', 'process_scheduled_consumption'):
        R.mark_inline(f'{CS}.{q}')
    for q in ('get_projected_rate', 'record_consumption_rate', '_calculate_rate', '_calculate_exponential_moving_average_rate'):
        R.mark_inline(f'{RT}.{q}')

    def consume_setup(eng, st, args, self_val):
        pass

    def time_now(c):
        ev = exts(c.trace, 'time_utils.time')
        return ev[0].result if ev else None

    def monotone(c):
        """A-CLOCK-MONOTONE as an assumption on the value time() returned in this critical section."""
        alpha, last, rate = tracker(c.old, c.self)
        t = time_now(c)
        return z3.Or(is_none(last), t > ov(last)) if t is not None else B(True)

    def consume_post(c):
        total0, pres0, ttc0 = sched(c.old, c.self)
        total1, pres1, ttc1 = sched(c.new, c.self)
        alpha, last0, rate0 = tracker(c.old, c.self)
        k = tok_term(c.a_request_token)
        amt = to_real(c.a_amt)
        mx = c.oldf('_max_rate')
        t = time_now(c)
        was = z3.Select(pres0, k)
        mb = member_bound(pres0, ttc0, k)
        out = {
            'grants_the_requested_amount': to_real(c.result) == amt,
            'token_not_scheduled_afterwards': implies(mb, z3.Not(z3.Select(pres1, k))),
            # a throttled read is granted on its first retry and its share leaves the total wait
            'scheduled_request_releases_exactly_its_share': implies(z3.And(mb, was), to_real(total1) == to_real(total0) - z3.Select(ttc0, k)),
            'unscheduled_request_leaves_waiters_alone': implies(z3.Not(was), z3.And(to_real(total1) == to_real(total0), pres1 == pres0)),
            # smoothing allowance: an immediately admitted amount satisfies alpha * amt / dt <= max_rate
            'admitted_without_wait_only_within_allowance': implies(
                z3.And(monotone(c), z3.Not(was), z3.Not(is_none(last0))),
                tracker(c.old, c.self)[0] * amt <= mx * (t - ov(last0)) if t is not None else B(False)),
            # every granted amount is charged to the rate tracker at the current time (else later admissions are judged
            # against a stale rate and the limit is not enforced)
            'granted_amount_is_recorded_in_the_rate_tracker_now': (z3.And(
                z3.Not(is_none(tracker(c.new, c.self)[1])), ov(tracker(c.new, c.self)[1]) == t,
                implies(is_none(last0), z3.And(z3.Not(is_none(tracker(c.new, c.self)[2])), ov(tracker(c.new, c.self)[2]) == 0)))
                if t is not None else B(False)),
        }
        return out

    def consume_exceeded(c):
        total0, pres0, ttc0 = sched(c.old, c.self)
        total1, pres1, ttc1 = sched(c.new, c.self)
        alpha, last0, rate0 = tracker(c.old, c.self)
        alpha1, last1, rate1 = tracker(c.new, c.self)
        k = tok_term(c.a_request_token)
        amt = to_real(c.a_amt)
        mx = c.oldf('_max_rate')
        rt = c.exc.attrs.get('retry_time')
        t = time_now(c)
        return {
            'only_unscheduled_requests_are_refused': z3.Not(z3.Select(pres0, k)),
            'token_scheduled_with_its_own_share': z3.And(z3.Select(pres1, k), z3.Select(ttc1, k) * mx == amt),
            # one wait no longer than the time the limit needs for the reads now waiting plus its own
            'retry_time_is_sum_of_waiting_shares_including_own': z3.And(to_real(rt) == SUM(pres1, ttc1),
                                                                       to_real(rt) == to_real(total0) + z3.Select(ttc1, k)),
            'others_untouched': z3.ForAll([z3.Const('x__', U)], z3.Implies(
                z3.Const('x__', U) != k,
                z3.And(z3.Select(pres1, z3.Const('x__', U)) == z3.Select(pres0, z3.Const('x__', U)),
                       z3.Select(ttc1, z3.Const('x__', U)) == z3.Select(ttc0, z3.Const('x__', U))))),
            'refused_only_when_projected_rate_exceeds_limit': implies(
                monotone(c), z3.And(z3.Not(is_none(last0)),
                                    alpha * amt + (1 - alpha) * ov(rate0) * (t - ov(last0)) > mx * (t - ov(last0))) if t is not None else B(False)),
            'tracker_not_charged': z3.And(is_none(last1) == is_none(last0), is_none(rate1) == is_none(rate0)),
        }

    R.contract(
        f'{LB}.consume', props=['C13'], self_type=ObjT(LB, shared=True), old_at='acquire', top=True,
        params=dict(amt=Int, request_token=ExtT('token')),
        requires=lambda c: [c.a_amt >= 0],
        setup=lambda eng, st, args, self_val: (st.ghost.__setitem__('c13_bucket', self_val),
                                               [st.assume(a) for a in background()]),
        ensures=consume_post,
        raises={f'{BW}:RequestExceededException': consume_exceeded},
        raise_when={f'{BW}:RequestExceededException': lambda c: None},
        returns=Int,
        twins=lambda c: {'never_touches_total_wait': to_real(sched(c.new, c.self)[0]) == to_real(sched(c.old, c.self)[0]) + 1},
    )

    def unschedule_post(c):
        total0, pres0, ttc0 = sched(c.old, c.self)
        total1, pres1, ttc1 = sched(c.new, c.self)
        k = tok_term(c.a_request_token)
        was = z3.Select(pres0, k)
        x = z3.Const('x__', U)
        return {
            'token_not_scheduled_afterwards': z3.Not(z3.Select(pres1, k)),
            'share_of_abandoned_waiter_leaves_total_wait': implies(was, to_real(total1) == to_real(total0) - z3.Select(ttc0, k)),
            'no_effect_when_not_scheduled': implies(z3.Not(was), z3.And(to_real(total1) == to_real(total0), pres1 == pres0)),
            'other_waiters_untouched': z3.ForAll([x], z3.Implies(x != k, z3.Select(pres1, x) == z3.Select(pres0, x))),
        }

    R.contract(
        f'{LB}.unschedule', props=['C13'], self_type=ObjT(LB, shared=True), old_at='acquire',
        params=dict(request_token=ExtT('token')),
        setup=lambda eng, st, args, self_val: [st.assume(a) for a in background()],
        ensures=unschedule_post, raises={},
    )

    # ------------------------------------------------------------------ BandwidthLimitedStream
    R.add_fields(BLS, _fileobj=ExtT('fileobj'), _leaky_bucket=ExtT('leaky_bucket'), _transfer_coordinator=ObjT(TC, shared=True),
                 _time_utils=ExtT('time_utils'), _bandwidth_limiting_enabled=Bool, _request_token=ExtT('token'),
                 _bytes_seen=Int, _bytes_threshold=Int,
                 valid=lambda view, ref: [view.f(ref, '_bytes_seen') >= 0, view.f(ref, '_bytes_threshold') > 0])
    R.external('leaky_bucket', consume=ExtSpec(returns=Int, raises=(f'{BW}:RequestExceededException',)),
               unschedule=ExtSpec(raises=()))

    def ctlb_raise(c):
        tr = [e for e in flat(c.trace) if e.kind == 'ext' and e.name == 'leaky_bucket.consume']
        un = [e for e in flat(c.trace) if e.kind == 'ext' and e.name == 'leaky_bucket.unschedule']
        tail = c.trace[-1] if c.trace else None
        # events after the loop summary belong to the exit path; the last consume of the loop (if any
        # iteration ran) raised RequestExceeded (that is the only way to come round again)
        loops = [e for e in c.trace if e.kind == 'loop']
        ran = bool(loops and loops[0].alts)
        return {
            'raises_the_transfers_error_not_sleeping_again': B(not any(
                e.kind == 'ext' and e.name == 'time_utils.sleep' for e in c.trace if e.kind != 'loop')),
            # an abandoned waiter must not stay scheduled (else its share stays in total wait forever)
            'abandoned_token_is_unscheduled': B((not ran) or any(
                index_of(c.trace, e) > index_of(c.trace, loops[0]) and e.args[:1] == (c.oldf('_request_token'),)
                for e in c.trace if e.kind == 'ext' and e.name == 'leaky_bucket.unschedule')),
        }

    def ctlb_iteration(l0, l1, evs):
        """a completed iteration of the wait loop = a refused consume: the read then really waits, for exactly the time the
        bucket asked for, before it tries again (without the wait the limiter would not limit anything)"""
        cons = [e for e in evs if e.kind == 'ext' and e.name == 'leaky_bucket.consume']
        sl = [e for e in evs if e.kind == 'ext' and e.name == 'time_utils.sleep']
        refused = [e for e in cons if e.extra.get('raised') is not None]
        okk = len(cons) == 1 and len(refused) == 1 and len(sl) == 1 and index_of(evs, sl[0]) > index_of(evs, cons[0])
        out = {'a_refused_read_sleeps_once_before_retrying': B(bool(okk))}
        if okk:
            want = refused[0].extra['raised'].attrs.get('retry_time')
            got = sl[0].args[0] if sl[0].args else None
            out['sleeps_for_the_retry_time_the_bucket_asked_for'] = B(got is not None and (got is want or (want is None and got is not None)))
        return out

    def ctlb_post(c):
        cons = [e for e in c.trace if e.kind == 'ext' and e.name == 'leaky_bucket.consume']
        return {
            'returns_only_after_a_granted_consume': B(len(cons) == 1 and cons[0].extra.get('raised') is None
                                                      and cons[0].args[1] is c.oldf('_request_token')),
            'charges_exactly_the_bytes_seen': B(len(cons) == 1) if not cons else b2z(cons[0].args[0] is not None),
            'bytes_seen_reset': b2z(c.newf('_bytes_seen') == 0),
        }

    R.contract(
        f'{BLS}._consume_through_leaky_bucket', props=['C13', 'C07'], params={},
        checks=ctlb_post, raises={'$stored': ctlb_raise},
        loops={0: LoopSpec(invariant=lambda l: {}, iteration_checks=ctlb_iteration)},
        raise_when={'Exception': lambda c: None},
    )

    # botocore's request-created handlers (through the body, see a_windows.py) switch throttling on while the body is sent
    for nm, val in (('signal_transferring', True), ('signal_not_transferring', False)):
        R.contract(f'{BLS}.{nm}', props=['C13'], params={}, raises={}, top_level=True,
                   ensures=lambda c, val=val: {'throttling_is_switched_' + ('on' if val else 'off'):
                                               b2z(c.newf('_bandwidth_limiting_enabled')) == B(val)})

    def read_post(c):
        rd = exts(c.trace, 'fileobj.read')
        ct = calls(c.trace, '_consume_through_leaky_bucket')
        en = b2z(c.oldf('_bytes_seen') is not None)
        enabled = b2z(c.oldf('_bytes_limiting_enabled')) if False else b2z(c.oldf('_bandwidth_limiting_enabled'))
        seen0, thr, amt = c.oldf('_bytes_seen'), c.oldf('_bytes_threshold'), c.a_amount
        return {
            'reads_the_requested_amount_once': B(len(rd) == 1 and rd[0].args == (c.a_amount,)),
            'disabled_is_pass_through': implies(z3.Not(enabled), z3.And(B(len(ct) == 0), c.newf('_bytes_seen') == seen0)),
            'below_threshold_accumulates': implies(z3.And(enabled, seen0 + amt < thr),
                                                   z3.And(B(len(ct) == 0), c.newf('_bytes_seen') == seen0 + amt)),
            'at_threshold_consumes_before_reading': implies(
                z3.And(enabled, seen0 + amt >= thr),
                B(len(ct) == 1 and rd and index_of(c.trace, ct[0]) < index_of(c.trace, rd[0]))),
        }

    R.contract(
        f'{BLS}.read', props=['C13'], params=dict(amount=Int),
        requires=lambda c: [c.a_amount >= 0],
        checks=read_post,
        # the source's own exception, or -- while waiting for its turn -- the exception another thread recorded for the transfer
        raises={'Exception': only_propagates, '$stored': only_propagates},
        inline_callees=[],
    )


ROOTS = [f'{LB}.consume', f'{LB}.unschedule', f'{BLS}._consume_through_leaky_bucket', f'{BLS}.read']

MANIFEST = dict(
    category='proof',
    text=('Monitor invariant of LeakyBucket (total wait == sum of the scheduled shares, shares >= 0, tracked rate >= 0) '
          'and the case contract of consume() for an arbitrary invariant-satisfying state at lock acquisition: a '
          'scheduled request is granted on its first retry and exactly its share leaves the total; an unscheduled request '
          'is either admitted at once (only within the 1/alpha smoothing allowance) or refused with retry_time == sum of '
          'the shares now waiting including its own; the stream wrapper consumes once per threshold, raises the '
          'transfer error instead of sleeping again and leaves no abandoned token scheduled.'
          ' Also: the tracked rate stays finite (non-finite floats are modelled; the clock may return equal readings).'),
    note=('Floats are reals (A-REAL); clock non-decreasing (A-CLOCK-MONOTONE: equal readings allowed -- that is how F20 was found); '
          'two finite-sum lemmas are background axioms; the windowed rate bound over long histories and fairness in virtual time are '
          'not decided by contracts. The clauses "admitted only within the allowance" / "refused only when the projected rate exceeds '
          'the limit" are stated for a request that arrives strictly after the previous consumption: a fresh request in the very '
          'tick of the previous consumption is always refused once (its instantaneous rate is infinite) and waits its own share.'),
    technique='contract-based deductive verification: monitor invariant + case contracts over reals, z3',
)
LEVEL = 'proof'
TRUSTED = ['A-REAL', 'A-CLOCK-MONOTONE', 'A-LOCK',
           'finite-sum lemmas SUM-update / SUM-member-bound: proved in lean/FiniteSums.lean, model of the quantified axiom in lean/SumModel.lean; trusted: the by-inspection correspondence SMT statement <-> Lean statement']
ASSUMPTIONS = TRUSTED
EXPLANATION = 'leaky bucket monitor and stream wrapper contracts'


def extra_obligations(eng, R, tier):
    """The finite-sum lemmas (SUM-update / SUM-member-bound) are proved in Lean 4 / Mathlib (/verif/lean); the thorough tier re-checks them."""
    info = {'finite_sum_lemmas': {'statement_in_smt': 'background axioms / assumed instances in this module',
                                  'proved_in': ['FiniteSums.lean', 'SumModel.lean'], 'theorems': {'FiniteSums.lean': ['SUM_update', 'SUM_update_present', 'SUM_member_bound'], 'SumModel.lean': ['exists_SUM_model']},
                                  'status': 'proved in Lean (re-checked by the thorough tier); the correspondence between the '
                                            'SMT statement and the Lean statement is by inspection (dict = finite key set + value function)'}}
    if tier == 'thorough':
        from pyvc.lean import check_lean
        r = check_lean(['FiniteSums.lean', 'SumModel.lean'], {'FiniteSums.lean': ['SUM_update', 'SUM_update_present', 'SUM_member_bound'], 'SumModel.lean': ['exists_SUM_model']})
        info['finite_sum_lemmas']['recheck'] = r
        if r['status'] == 'failed':
            info['checker_errors'] = ['lean re-check of the finite-sum lemmas failed: ' + '; '.join(r['detail'])[:600]]
    return info


def bounded_checks(tier, seed):
    """B3: exhaustive short op sequences on the real LeakyBucket with a fake clock."""
    from pyvc.bounded import run_tool
    k = 4 if tier == 'quick' else 5
    return run_tool('C13', 'b3_leakybucket', 'b3_leakybucket.py', [k],
                    f'all sequences of <= {k} consume/unschedule ops over 2 tokens, 4 amounts, 3 time steps (0 = same clock tick)', 'failing_ops')
