"""C01 -- upload and copy produce a byte-exact destination object.

Composition (each link is a contract on the real code):
 window invariant of ReadFileChunk (a_windows) -> every read-to-EOF after a rewind yields exactly the window;
 part bodies tile the source (a_submit: per-iteration obligations on the real object graph of each body);
 each part task sends its body under its part number and returns the service's ETag (request task contracts);
 the complete task lists the part results in submission order (Task._get_all_main_kwargs, C05/C03)."""
import z3

from .a_submit import UP, CP, UT
from .a_tasks import T, TASK
from .a_windows import WINDOW_ROOTS
from .spec import is_ceil_div

UST = f'{UP}:UploadSubmissionTask'
CST = f'{CP}:CopySubmissionTask'


def lemma_windows_tile():
    """Spec-level tiling: for c > 0, size >= 0, n = ceil_div(size, c) the windows
    w_k = [c*k, min(c*(k+1), size)), k = 0..n-1 are consecutive, start at 0, end at size, and are
    non-empty for size > 0."""
    c, size, n, k = z3.Ints('c size n k')
    end = lambda j: z3.If(c * (j + 1) < size, c * (j + 1), size)
    hyp = z3.And(c > 0, size >= 0, is_ceil_div(n, size, c), k >= 0, k < n)
    return z3.Implies(hyp, z3.And(
        c * k < end(k),                                # non-empty
        z3.Implies(k + 1 < n, end(k) == c * (k + 1)),   # next window starts where this one ends
        z3.Implies(k == n - 1, end(k) == size),         # last ends at size
        c * 0 == 0))


def register(R):
    R.lemmas.append(('C01', 'lemma.part_windows_tile_the_source', lemma_windows_tile))


ROOTS = WINDOW_ROOTS + [
    f'{UST}._submit', f'{UST}._submit_upload_request', f'{UST}._submit_multipart_request',
    f'{UP}:PutObjectTask._main', f'{UP}:UploadPartTask._main', f'{T}:CompleteMultipartUploadTask._main',
    f'{CST}._submit', f'{CST}._submit_copy_request', f'{CST}._submit_multipart_request',
    f'{UT}:calculate_range_parameter', 's3transfer.compat:seekable', 's3transfer.compat:readable',
    f'{CP}:CopyObjectTask._main', f'{CP}:CopyPartTask._main',
]

MANIFEST = dict(
    category='proof',
    text=('The real submission code is executed symbolically with symbolic sizes / chunk sizes / stream contents for all '
          'three source kinds (generator bodies fused with the submitting loop): per iteration, the yielded body is the '
          'real ReadFileChunk object graph whose window is [c*(k-1), min(c*k, size)) of the user file, or a buffer of '
          'exactly the next unread bytes of the stream; one UploadPart/CopyPart task per part numbered 1..n in order, '
          'futures appended in order, one final complete task depending on the create task and on that list; window '
          'invariant of ReadFileChunk (reads never leave the window, seek(0) rewinds) for any number of rewinds; request '
          'tasks send exactly that body under that part number and return the response ETag (+ checksum).'
          ' Single-request uploads: the body is the whole file / the seekable stream from its current position / an in-memory copy of the non-seekable stream from its position at call time to EOF (streams may return short reads); part metadata lists the part checksum exactly when an algorithm is in use and S3 returned it. Legacy S3Transfer upload path (upload_file, _put_object, _multipart_upload, _upload_parts, _upload_one_part): part windows, numbering 1..n in list order, ETags of the responses.'
          " Also: compat.readable / seekable answer with the object's own verdict, else by capability probe; the legacy ReadFileChunk constructor establishes the window invariant its methods start from."),
    note=('A-FILE with full reads for user streams; the HTTP layer sends what read() returned between the last seek(0) and '
          'EOF (A-BOTO); S3 assembles parts by number; executor futures deliver results in submission order (A-EXECUTOR); '
          'no thread schedule is enumerated.'),
    technique='contract-based deductive verification: symbolic execution of the real code against per-iteration and trace contracts, z3',
)
LEVEL = 'proof'
TRUSTED = ['A-FILE full_reads', 'A-BOTO', 'A-EXECUTOR', 'A-IEEE (through the C14 lemma)']
ASSUMPTIONS = TRUSTED
EXPLANATION = 'byte exactness by composition of window, tiling, numbering and completion contracts'
