"""C12 -- semaphores: sliding-window semantics and permit conservation.

K2 monitor on SlidingWindowSemaphore._lock/_condition.  Abstract view per tag t:
issued(t) = _tag_sequences[t], low(t) = _lowest_sequence[t], pend(t) = _pending_release[t] (list held
in a map, modelled as element array + length).  Ghost CAP = configured count.
Invariant: _count == CAP - SUM_t (issued(t) - low(t)), with the finite-sum frame lemma instantiated
at each lock release for the one tag the critical section touched."""
import z3

from pyvc.contracts import (
    Any, Bool, Const, ExtSpec, ExtT, Int, ListOfT, LockT, LoopSpec, MapT, ObjT, OptT, Real, View,
)
from pyvc.engine import EngineError, ok
from pyvc.values import ExcV, Opaque, Opt, Ref, U, fresh_name, to_int_term

from .a_common import UT
from .a_tasks import calls, exts, index_of
from .spec import b2z, implies

B = z3.BoolVal
SWS = f'{UT}:SlidingWindowSemaphore'
TS = f'{UT}:TaskSemaphore'

PS = z3.ArraySort(U, z3.BoolSort())
IS = z3.ArraySort(U, z3.IntSort())
SUMW = z3.Function('SUMW', PS, IS, IS, z3.IntSort())   # sum over present tags of issued - low
CAP = z3.Function('capacity', U, z3.IntSort())          # ghost: configured count of a semaphore object
x_, i_, j_ = z3.Const('x_', U), z3.Int('i_'), z3.Int('j_')

FIELDS = dict(_count=Int, _tag_sequences=MapT('U', Int, default_int=True), _lowest_sequence=MapT('U', Int),
              _pending_release=MapT('U', ListOfT(Int)))


def maps(view, ref):
    sq = view.obj(view.f(ref, '_tag_sequences')).meta
    lw = view.obj(view.f(ref, '_lowest_sequence')).meta
    pd = view.obj(view.f(ref, '_pending_release')).meta
    return sq['present'], sq['vals'], lw['present'], lw['vals'], pd['present'], pd['vals']['arr'], pd['vals']['len']


def contrib(ps, sq, lw, k):
    return z3.If(z3.Select(ps, k), z3.Select(sq, k) - z3.Select(lw, k), 0)


def frame_lemma(ps0, sq0, lw0, ps1, sq1, lw1, k):
    """Finite-sum frame lemma: if only tag k changed, the sum changes by the change of k's term."""
    same = z3.ForAll([x_], z3.Implies(x_ != k, z3.And(
        z3.Select(ps0, x_) == z3.Select(ps1, x_),
        z3.Implies(z3.Select(ps0, x_), z3.And(z3.Select(sq0, x_) == z3.Select(sq1, x_), z3.Select(lw0, x_) == z3.Select(lw1, x_))))))
    return z3.Implies(same, SUMW(ps1, sq1, lw1) == SUMW(ps0, sq0, lw0) - contrib(ps0, sq0, lw0, k) + contrib(ps1, sq1, lw1, k))


def self_term(ref):
    return z3.Const(f'ref!{ref.oid}', U)


def tag_parts(ps, sq, pl, lw, pp, pa, pn, t):
    """Per-tag parts of the invariant for tag term t."""
    arr, n = z3.Select(pa, t), z3.Select(pn, t)
    return {
        'tag_known_to_both_maps_or_neither': z3.Select(ps, t) == z3.Select(pl, t),
        'lowest_between_zero_and_newest': z3.Implies(z3.Select(ps, t), z3.And(
            z3.Select(lw, t) >= 0, z3.Select(lw, t) <= z3.Select(sq, t), z3.Select(sq, t) >= 1)),
        'pending_only_for_known_tags': z3.Implies(z3.Select(pp, t), z3.And(z3.Select(ps, t), n >= 0)),
        # pending tokens lie strictly between lowest and newest ...
        'pending_tokens_inside_window': z3.Implies(z3.Select(pp, t), z3.ForAll([i_], z3.Implies(
            z3.And(i_ >= 0, i_ < n), z3.And(z3.Select(arr, i_) > z3.Select(lw, t), z3.Select(arr, i_) < z3.Select(sq, t))))),
        # ... and the list is sorted strictly descending (so its last element is the smallest)
        'pending_sorted_strictly_descending': z3.Implies(z3.Select(pp, t), z3.ForAll([i_, j_], z3.Implies(
            z3.And(i_ >= 0, i_ < j_, j_ < n), z3.Select(arr, i_) > z3.Select(arr, j_)))),
    }


def sem_inv(view, ref):
    ps, sq, pl, lw, pp, pa, pn = maps(view, ref)
    cnt = view.f(ref, '_count')
    out = {
        'count_never_negative': cnt >= 0,
        'free_capacity_is_count_minus_window_sizes': cnt + SUMW(ps, sq, lw) == CAP(self_term(ref)),
    }
    for nm, f in tag_parts(ps, sq, pl, lw, pp, pa, pn, x_).items():
        out[nm] = z3.ForAll([x_], f)
    return out


def on_release(eng, st, owner, old):
    """Instance of the frame lemma for the tag this critical section works on."""
    tag = st.env.get('tag')
    if old is None or tag is None:
        return
    ps0, sq0, pl0, lw0, *_ = maps(View(eng, old), owner)
    ps1, sq1, pl1, lw1, *_ = maps(View(eng, st), owner)
    st.assume(frame_lemma(ps0, sq0, lw0, ps1, sq1, lw1, tag.term))


def on_acquire(eng, st, owner):
    """Call-site fact (BoundedExecutor.submit attaches exactly one release per acquired token): a
    token that is still pending is not released again."""
    tag, tok = st.env.get('tag'), st.env.get('acquire_token')
    if tag is None or tok is None:
        return
    ps, sq, pl, lw, pp, pa, pn = maps(View(eng, st), owner)
    arr, n = z3.Select(pa, tag.term), z3.Select(pn, tag.term)
    st.assume(z3.Implies(z3.Select(pp, tag.term), z3.ForAll([i_], z3.Implies(z3.And(i_ >= 0, i_ < n), z3.Select(arr, i_) != tok))))


def _wait_havoc(l):
    """Condition.wait() in the loop body releases and re-acquires the lock: at the loop head the guarded
    state is whatever other threads left, up to the invariant."""
    st = l.st
    self = l.local('self')
    l.engine.monitor_enter(st.obj(self).fields['_lock'], st, l.node.lineno)


def register(R):
    R.add_fields(SWS, _lock=LockT(), _condition=LockT(kind='condition', of='_lock'), **FIELDS)
    R.monitor(SWS, lock='_lock', aliases=('_condition',), fields=FIELDS, invariant=sem_inv, props=['C12'],
              on_release=on_release, on_acquire=on_acquire)
    SH = ObjT(SWS, shared=True)

    # builtin contract of list.sort(reverse=True) on a list whose prefix (all but the last element) is
    # already sorted descending: the last element is inserted at its place
    def sort_model(eng, st, args, kwargs, line):
        slot = args[0]
        if kwargs.get('reverse') is not True:
            raise EngineError('list.sort model covers sort(reverse=True) only')
        arr, n = eng.list_as_array(slot, st)
        eng.oblige(st, f'sort.prefix_sorted_desc@{line}', z3.ForAll([i_, j_], z3.Implies(
            z3.And(i_ >= 0, i_ < j_, j_ < n - 1), z3.Select(arr, i_) >= z3.Select(arr, j_))), kind='pre', line=line)
        p = z3.Int(fresh_name('sort_pos'))
        new = z3.Array(fresh_name('sorted'), z3.IntSort(), z3.IntSort())
        last = z3.Select(arr, n - 1)
        st.assume(z3.And(p >= 0, p <= n - 1))
        st.assume(z3.ForAll([i_], z3.Implies(z3.And(i_ >= 0, i_ < p), z3.Select(new, i_) == z3.Select(arr, i_))))
        st.assume(z3.Select(new, p) == last)
        st.assume(z3.ForAll([i_], z3.Implies(z3.And(i_ > p, i_ < n), z3.Select(new, i_) == z3.Select(arr, i_ - 1))))
        st.assume(z3.Implies(p > 0, z3.Select(arr, p - 1) >= last))
        st.assume(z3.Implies(p < n - 1, last >= z3.Select(arr, p)))
        eng._slot_set(slot, new, n, st)
        return [ok(None, st)]

    R.builtin_models['list.sort'] = sort_model

    # ------------------------------------------------------------------ acquire
    def unchanged_except(c, k):
        ps0, sq0, pl0, lw0, pp0, pa0, pn0 = maps(c.old, c.self)
        ps1, sq1, pl1, lw1, pp1, pa1, pn1 = maps(c.new, c.self)
        return z3.ForAll([x_], z3.Implies(x_ != k, z3.And(
            z3.Select(ps0, x_) == z3.Select(ps1, x_), z3.Select(sq0, x_) == z3.Select(sq1, x_),
            z3.Select(pl0, x_) == z3.Select(pl1, x_), z3.Select(lw0, x_) == z3.Select(lw1, x_),
            z3.Select(pp0, x_) == z3.Select(pp1, x_), z3.Select(pa0, x_) == z3.Select(pa1, x_), z3.Select(pn0, x_) == z3.Select(pn1, x_))))

    def all_unchanged(c):
        ps0, sq0, pl0, lw0, pp0, pa0, pn0 = maps(c.old, c.self)
        ps1, sq1, pl1, lw1, pp1, pa1, pn1 = maps(c.new, c.self)
        return z3.And(c.newf('_count') == c.oldf('_count'),
                      z3.ForAll([x_], z3.And(
                          z3.Select(ps0, x_) == z3.Select(ps1, x_),
                          z3.Implies(z3.Select(ps0, x_), z3.And(z3.Select(sq0, x_) == z3.Select(sq1, x_), z3.Select(lw0, x_) == z3.Select(lw1, x_))),
                          z3.Select(pl0, x_) == z3.Select(pl1, x_),
                          z3.Select(pp0, x_) == z3.Select(pp1, x_),
                          z3.Implies(z3.Select(pp0, x_), z3.Select(pn0, x_) == z3.Select(pn1, x_)))))

    def acquire_post(c):
        ps0, sq0, pl0, lw0, *_ = maps(c.old, c.self)
        ps1, sq1, pl1, lw1, *_ = maps(c.new, c.self)
        k = c.a_tag.term
        issued0 = z3.If(z3.Select(ps0, k), z3.Select(sq0, k), 0)
        return {
            # tokens 0,1,2,... per tag in acquisition order
            'token_is_next_sequence_number_of_the_tag': c.result == issued0,
            'newest_token_advances_by_one': z3.And(z3.Select(ps1, k), z3.Select(sq1, k) == issued0 + 1),
            'takes_exactly_one_unit_of_capacity': c.newf('_count') == c.oldf('_count') - 1,
            'had_capacity': c.oldf('_count') > 0,
            'lowest_unreleased_kept': z3.Select(lw1, k) == z3.If(z3.Select(ps0, k), z3.Select(lw0, k), 0),
            'other_tags_untouched': unchanged_except(c, k),
        }

    R.contract(
        f'{SWS}.acquire', props=['C12', 'C11', 'C10', 'C04'], self_type=SH, old_at='acquire', top=True,
        params=dict(tag=ExtT('tag'), blocking=Bool),
        ensures=acquire_post,
        raises={f'{UT}:NoResourcesAvailable': lambda c: {
            'only_non_blocking_at_zero_capacity': z3.And(z3.Not(b2z(c.a_blocking)), c.oldf('_count') == 0),
            'state_unchanged': all_unchanged(c)}},
        raise_when={f'{UT}:NoResourcesAvailable': lambda c: z3.Not(b2z(c.a_blocking))},
        returns=Int,
        # a blocked acquire gives the lock up while it waits: every round of the wait loop goes through Condition.wait
        # (spinning on `_count` with the lock held would lock every releaser out for good -- C04)
        loops={0: LoopSpec(invariant=lambda l: {}, havoc_heap=_wait_havoc, iteration_checks=lambda l0, l1, evs: {
            'each_round_of_the_wait_loop_releases_the_lock_in_condition_wait': (z3.BoolVal(any(
                e.kind == 'ext' and e.name == 'condition.wait' for e in evs)), ['C04', 'C12'])})},
        twins=lambda c: {'capacity_not_consumed': c.newf('_count') == c.oldf('_count')},
    )

    # ------------------------------------------------------------------ release
    def release_post(c):
        ps0, sq0, pl0, lw0, pp0, pa0, pn0 = maps(c.old, c.self)
        ps1, sq1, pl1, lw1, pp1, pa1, pn1 = maps(c.new, c.self)
        k, s = c.a_tag.term, c.a_acquire_token
        low0, low1 = z3.Select(lw0, k), z3.Select(lw1, k)
        arr0, n0 = z3.Select(pa0, k), z3.If(z3.Select(pp0, k), z3.Select(pn0, k), 0)
        n1 = z3.If(z3.Select(pp1, k), z3.Select(pn1, k), 0)
        lowest = (s == low0)
        mid = z3.And(s > low0, s < z3.Select(sq0, k))
        return {
            'tag_was_known': z3.Select(ps0, k),
            'token_was_issued_and_unreleased': z3.Or(lowest, mid),
            # releasing the lowest token frees it and the maximal run of consecutive pending tokens
            'lowest_advances_over_released_run': implies(lowest, z3.And(
                low1 > low0, c.newf('_count') - c.oldf('_count') == low1 - low0,
                n1 == n0 - (low1 - low0 - 1),
                z3.ForAll([i_], z3.Implies(z3.And(i_ >= n1, i_ < n0), z3.Select(arr0, i_) == low0 + (n0 - i_))),
                z3.Or(n1 == 0, z3.Select(arr0, n1 - 1) != low1))),
            # releasing out of order frees nothing until all lower tokens are released
            'out_of_order_release_frees_nothing': implies(z3.And(z3.Not(lowest), mid), z3.And(
                c.newf('_count') == c.oldf('_count'), low1 == low0, n1 == n0 + 1)),
            'newest_token_untouched': z3.Select(sq1, k) == z3.Select(sq0, k),
            'other_tags_untouched': unchanged_except(c, k),
            # monitor wake-up rule (no lost wake-up, C04): a critical section that frees capacity -- the only thing a
            # blocked acquire waits for -- notifies the condition before it releases the lock
            'freed_capacity_is_signalled_to_waiters': (implies(c.newf('_count') > c.oldf('_count'), z3.BoolVal(any(
                e.kind == 'ext' and e.name == 'condition.notify' for e in c.trace))), ['C04', 'C12']),
        }

    R.contract(
        f'{SWS}.release', props=['C12', 'C10', 'C11', 'C04'], self_type=SH, old_at='acquire', top=True,
        params=dict(tag=ExtT('tag'), acquire_token=Int),
        # call-site precondition (BoundedExecutor.submit releases each token once): a token that is
        # still pending is not released a second time
        setup=lambda eng, st, args, self_val: None,
        ensures=release_post,
        raises={'ValueError': lambda c: {
            'rejected_only_for_unknown_tag_or_token': _rejected(c),
            'state_unchanged': all_unchanged(c)}},
        raise_when={'ValueError': lambda c: None},
        loops={0: LoopSpec(invariant=lambda l: _release_loop_inv(l), havoc_heap=_release_havoc,
                           local_types={})},
        twins=lambda c: {'always_frees_one': c.newf('_count') == c.oldf('_count') + 1},
    )

    R.contract(f'{SWS}.current_count', props=['C12'], self_type=SH, old_at='acquire', params={},
               ensures=lambda c: {'returns_free_capacity': c.result == c.oldf('_count'), 'state_unchanged': all_unchanged(c)},
               returns=Int)

    # __init__: ghost capacity := count
    def init_post(c):
        ok_maps = all(isinstance(c.newf(f), Ref) for f in ('_tag_sequences', '_lowest_sequence', '_pending_release'))
        return {'count_is_configured_capacity': b2z(c.newf('_count') is c.a_count),
                'starts_with_no_tags': B(ok_maps and c.new.obj(c.newf('_lowest_sequence')).items == {}
                                         and c.new.obj(c.newf('_pending_release')).items == {})}

    R.contract(f'{SWS}.__init__', props=['C12'], params=dict(count=Int),
               self_type=ObjT(SWS, _count=Const(None), _tag_sequences=Const(None), _lowest_sequence=Const(None),
                              _pending_release=Const(None), _lock=Const(None), _condition=Const(None)),
               checks=init_post)


def _rejected(c):
    ps0, sq0, pl0, lw0, pp0, pa0, pn0 = maps(c.old, c.self)
    k, s = c.a_tag.term, c.a_acquire_token
    return z3.Or(z3.Not(z3.Select(ps0, k)), s < z3.Select(lw0, k), s >= z3.Select(sq0, k))


def _release_havoc(l):
    st = l.st
    self = l.local('self')
    for f in ('_lowest_sequence', '_pending_release'):
        m = st.obj(st.obj(self).fields[f]).meta
        if f == '_pending_release':
            m['vals'] = {'arr': z3.Array(fresh_name('pa'), U, z3.ArraySort(z3.IntSort(), z3.IntSort())),
                         'len': z3.Array(fresh_name('pn'), U, z3.IntSort())}
        else:
            m['vals'] = z3.Array(fresh_name('lw'), U, z3.IntSort())
    l.havoc_field(self, '_count', Int)


def _release_loop_inv(l):
    """Inner loop of release(): the lowest token climbs over the consecutive pending tokens at the
    end of the (descending) list."""
    from pyvc.contracts import View
    self = l.local('self')
    k = l.local('tag').term
    ps0, sq0, pl0, lw0, pp0, pa0, pn0 = maps(View(l.engine, l.pre), self)
    ps1, sq1, pl1, lw1, pp1, pa1, pn1 = maps(View(l.engine, l.st), self)
    low0, low1 = z3.Select(lw0, k), z3.Select(lw1, k)
    n0, n1 = z3.Select(pn0, k), z3.Select(pn1, k)
    arr0 = z3.Select(pa0, k)
    popped = n0 - n1
    return {
        'only_this_tag_changes': z3.ForAll([x_], z3.Implies(x_ != k, z3.And(
            z3.Select(lw0, x_) == z3.Select(lw1, x_), z3.Select(pa0, x_) == z3.Select(pa1, x_), z3.Select(pn0, x_) == z3.Select(pn1, x_)))),
        'list_only_shrinks_from_the_end': z3.And(n1 >= 0, n1 <= n0, z3.Select(pa1, k) == arr0),
        'lowest_and_count_follow_pops': z3.And(low1 == low0 + popped, l.f(self, '_count') == l.pre_f(self, '_count') + popped),
        'popped_tokens_were_consecutive': z3.ForAll([i_], z3.Implies(z3.And(i_ >= n1, i_ < n0), z3.Select(arr0, i_) == low0 + (n0 - 1 - i_))),
        'remaining_tokens_not_below_lowest': z3.ForAll([i_], z3.Implies(z3.And(i_ >= 0, i_ < n1), z3.Select(arr0, i_) >= low1)),
        'list_sorted_strictly_descending': z3.ForAll([i_, j_], z3.Implies(z3.And(i_ >= 0, i_ < j_, j_ < n0), z3.Select(arr0, i_) > z3.Select(arr0, j_))),
        'tokens_below_newest': z3.ForAll([i_], z3.Implies(z3.And(i_ >= 0, i_ < n0), z3.Select(arr0, i_) < z3.Select(sq1, k))),
    }


ROOTS = [f'{SWS}.__init__', f'{SWS}.acquire', f'{SWS}.release', f'{SWS}.current_count']

MANIFEST = dict(
    category='proof',
    text=('Monitor invariant of the real SlidingWindowSemaphore -- free capacity == configured count minus the sum over '
          'tags of (newest token - lowest unreleased token), per-tag bookkeeping consistent, pending list sorted and '
          'inside the window -- preserved by every critical section (incl. across Condition.wait), plus case contracts: '
          'acquire hands out the next sequence number of the tag and takes one unit; non-blocking acquire at zero raises '
          'and changes nothing; release of the lowest token frees it and the maximal run of consecutive pending tokens; an '
          'out-of-order release frees nothing; unknown tag / never-issued token is rejected without changing state. '
          'Unbounded histories and all interleavings (monitor argument).'),
    note=('The sum over tags uses the finite-sum frame lemma (changing one tag changes the sum by that tag\'s term) as an '
          'instantiated assumption; list.sort(reverse=True) has a builtin contract; a still-pending token is assumed not '
          'to be released twice (call-site fact of BoundedExecutor.submit); fairness / no lost wake-up is NOT decided.'),
    technique='contract-based deductive verification: monitor invariant with quantified per-tag view + inner loop invariant, z3',
)
LEVEL = 'proof'
TRUSTED = ['finite-sum frame lemma SUMW: proved in lean/FiniteSums.lean (SUMW_frame); trusted: the by-inspection correspondence SMT instance <-> Lean statement', 'builtin contract of list.sort(reverse=True)', 'A-LOCK (Condition.wait releases and re-acquires)']
ASSUMPTIONS = TRUSTED
EXPLANATION = 'sliding window semaphore monitor'


def extra_obligations(eng, R, tier):
    """The finite-sum lemmas (SUMW frame lemma) are proved in Lean 4 / Mathlib (/verif/lean); the thorough tier re-checks them."""
    info = {'finite_sum_lemmas': {'statement_in_smt': 'background axioms / assumed instances in this module',
                                  'proved_in': ['FiniteSums.lean'], 'theorems': {'FiniteSums.lean': ['SUMW_frame']},
                                  'status': 'proved in Lean (re-checked by the thorough tier); the correspondence between the '
                                            'SMT statement and the Lean statement is by inspection (dict = finite key set + value function)'}}
    if tier == 'thorough':
        from pyvc.lean import check_lean
        r = check_lean(['FiniteSums.lean'], {'FiniteSums.lean': ['SUMW_frame']})
        info['finite_sum_lemmas']['recheck'] = r
        if r['status'] == 'failed':
            info['checker_errors'] = ['lean re-check of the finite-sum lemmas failed: ' + '; '.join(r['detail'])[:600]]
    return info


def bounded_checks(tier, seed):
    """B3: exhaustive acquire/release histories on the real semaphore against a reference model."""
    from pyvc.bounded import run_tool
    k = 4 if tier == 'quick' else 6
    return run_tool('C12', 'b3_semaphore', 'b3_semaphore.py', [k],
                    f'all sequences of <= {k} non-blocking acquire/release ops over 2 tags, tokens 0..3, capacities 1..3',
                    'failing_case')
