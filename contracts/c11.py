"""C11 -- in-memory buffering stays within the documented bounds."""
from .a_submit import CP, DL, UP, UT
from .a_common import F

UST, DST = f'{UP}:UploadSubmissionTask', f'{DL}:DownloadSubmissionTask'
ROOTS = [
    f'{UST}._submit', f'{UST}._submit_upload_request', f'{UST}._submit_multipart_request',
    f'{DST}._submit', f'{DST}._submit_download_request', f'{DST}._submit_ranged_download_request',
    f'{DL}:GetObjectTask._main', f'{F}:BoundedExecutor.submit', 's3transfer.manager:TransferManager.__init__',
    f'{UT}:SlidingWindowSemaphore.acquire', f'{UT}:SlidingWindowSemaphore.release',
    f'{UT}:ChunksizeAdjuster.adjust_chunksize',
]


def configure(eng):
    eng.ieee_checks = False


def register(R):
    pass


MANIFEST = dict(
    category='proof',
    text=('Tagging: every task whose body is an in-memory buffer is submitted with the in-memory upload tag and every '
          'GetObject task of a stream destination with the in-memory download tag, and a tagged submit takes its permit '
          'from the tag semaphore only (BoundedExecutor.submit). Sizes: each part buffer is at most the adjusted chunk '
          'size (and equals the configured one unless an S3 limit forces a change, C14), the probe buffer at most '
          'multipart_threshold, each download chunk at most io_chunksize. Count / window: a buffer is created before '
          'submit blocks on the tag semaphore (fused generator trace order yield -> submit), the semaphore sizes are '
          'the configured limits (wiring) and the sliding window invariant (C12) bounds how far parts run ahead.'),
    note=('The literal bound max(multipart_chunksize, multipart_threshold) is exceeded when S3 limits force a larger part '
          'size (known finding F7). High-water marks are derived from these contracts and the semaphore invariants, not '
          'observed at scheduling points.'),
    technique='contract-based deductive verification: tagging / size / order contracts + semaphore monitor',
)
LEVEL = 'proof'
TRUSTED = ['A-EXECUTOR', 'A-FILE', 'A-LOCK']
ASSUMPTIONS = TRUSTED
EXPLANATION = 'buffer tagging, sizes and window'
