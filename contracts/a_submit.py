"""Schemas and contracts of the orchestration layer (upload / download / copy / delete submission tasks
and the request tasks).  Checks are tagged with the properties they serve; each property module lists the
roots it needs in its ROOTS."""
import z3

from pyvc.contracts import (
    Any, Bool, BytesT, Const, DictT, ExtSpec, ExtT, Int, ListOfT, LockT, LoopSpec, MapT, ObjT, OptT, SetT, Str,
)
from pyvc.engine import EngineError, ok
from pyvc.state import Event
from pyvc.values import (
    BoundMethod, ClassRef, ExcV, ExtMethod, FStr, HObj, Opaque, Opt, PartialV, Ref, U, fresh_name, is_sym,
    to_int_term,
)

from .a_common import F, UT, is_none
from .a_tasks import T, TASK, TC, calls, exts, flat, index_of, trivial_loop, only_propagates
from .spec import MiB, GiB, TiB, TWO53, b2z, implies, is_ceil_div, range_header

B = z3.BoolVal
UP = 's3transfer.upload'
DL = 's3transfer.download'
CP = 's3transfer.copies'
DE = 's3transfer.delete'
MG = 's3transfer.manager'
EXTRA = MapT('Str', Any)

TF = f'{F}:TransferFuture'
META = f'{F}:TransferMeta'
CFG = f'{MG}:TransferConfig'
CARGS = f'{UT}:CallArgs'

CONFIG_FIELDS = dict(
    multipart_threshold=Int, multipart_chunksize=Int, max_request_concurrency=Int, max_submission_concurrency=Int,
    max_request_queue_size=Int, max_submission_queue_size=Int, max_io_queue_size=Int, io_chunksize=Int,
    num_download_attempts=Int, max_in_memory_upload_chunks=Int, max_in_memory_download_chunks=Int,
    max_bandwidth=OptT(Int))


def cfg_valid(view, ref):
    out = []
    for k, t in CONFIG_FIELDS.items():
        v = view.f(ref, k)
        out.append(v > 0 if t is Int else z3.Or(v.is_none, v.val > 0))
    return out


def optval(v):
    return v.val if isinstance(v, Opt) else v


def config_untouched(c, cfg):
    """C18 / C14: the manager's TransferConfig is shared by all its transfers: planning a transfer (e.g. adjusting the part size to
    S3's limits) never writes to it."""
    conj = []
    for k in CONFIG_FIELDS:
        a, b = c.old.f(cfg, k), c.new.f(cfg, k)
        if a is b:
            continue
        if isinstance(a, Opt) and isinstance(b, Opt):
            conj.append(z3.And(a.is_none == b.is_none, a.val == b.val))
        elif z3.is_expr(a) or z3.is_expr(b):
            conj.append(a == b)
        else:
            conj.append(z3.BoolVal(a == b))
    return {'the_shared_configuration_is_left_untouched': (z3.And(conj) if conj else z3.BoolVal(True), ['C18', 'C14'])}


def submits(trace):
    """TransferCoordinator.submit call events with their task objects."""
    return [e for e in trace if e.kind == 'call' and e.name == f'{TC}.submit']


def task_of(c, ev):
    """(class name, HObj) of the task object handed to coordinator.submit."""
    t = ev.extra['env']['task']
    h = c.new.obj(t)
    return h.cls.name, h


def task_main_kwargs(c, ev):
    name, h = task_of(c, ev)
    mk = h.fields['_main_kwargs']
    return c.new.obj(mk).items if isinstance(mk, Ref) else {}


def task_pending(c, ev):
    name, h = task_of(c, ev)
    pk = h.fields['_pending_main_kwargs']
    return c.new.obj(pk).items if isinstance(pk, Ref) else {}


def is_final(c, ev):
    return task_of(c, ev)[1].fields['_is_final'] is True


def register(R):
    # task tags: TaskTag namedtuples, only their identity matters
    for nm in ('IN_MEMORY_UPLOAD_TAG', 'IN_MEMORY_DOWNLOAD_TAG'):
        R.global_overrides[(F, nm)] = Opaque(nm, kind='tag')
    # ------------------------------------------------------------------ shared schemas
    R.add_fields(META, _call_args=ObjT(CARGS), _transfer_id=ExtT('id'), _size=OptT(Int), _user_context=ExtT('ctx'),
                 valid=lambda view, ref: [z3.Or(view.f(ref, '_size').is_none, view.f(ref, '_size').val >= 0)])
    R.add_fields(CARGS, fileobj=ExtT('fileobj_or_name'), bucket=ExtT('str'), key=ExtT('str'), extra_args=EXTRA,
                 subscribers=ListOfT(ExtT('subscriber')),
                 copy_source=DictT(Bucket=ExtT('str'), Key=ExtT('str')), source_client=ExtT('client'))
    R.add_fields(TF, _meta=ObjT(META), _coordinator=ObjT(TC, shared=True))
    R.add_fields(CFG, valid=cfg_valid, **CONFIG_FIELDS)
    R.mark_inline(f'{META}.provide_transfer_size', f'{TASK}.__init__')

    # coordinator.submit: the task goes to the given executor; a future comes back
    R.contract(f'{TC}.submit', props=[], self_type=ObjT(TC, shared=True),
               params=dict(executor=ExtT('bounded_executor'), task=Any, tag=OptT(ExtT('tag'))),
               returns=ExtT('future'), raise_when={'Exception': lambda c: None})

    # compat.readable / seekable: stable facts about the user's file object; probing must not move the stream
    def probe_post(c):
        g = c.new.st.ghost.get(('stream', c.a_fileobj.label))
        g0 = c.old.st.ghost.get(('stream', c.a_fileobj.label))
        moved = [e for e in c.trace if e.kind == 'ext' and e.name in ('fileobj_or_name.read', 'fileobj_or_name.write', 'fileobj_or_name.close')]
        return {'probing_leaves_the_stream_position_where_it_was': (
            z3.And(B(not moved), g['pos'] == g0['pos']) if g is not None and g0 is not None else B(not moved), ['C01', 'C02'])}

    def probe_answer(fn):
        """what the probe answers (C01 / C02 / C11 / C16: it selects the input / output manager): the object's own
        seekable() / readable() verdict when it has one, else -- seekable: whether a seek to the current position works on an
        object that has seek and tell; readable: whether it has read."""
        def chk(c):
            out = dict(probe_post(c))
            eng, fo, tr = c.engine, c.a_fileobj, c.trace
            own = [e for e in tr if e.kind == 'ext' and e.name == f'fileobj_or_name.{fn}']
            has_own = eng.opaque_pred(fo, 'hasattr_' + fn)
            from pyvc.values import to_z3_bool
            res = to_z3_bool(c.result) if c.result is not None else B(False)
            if fn == 'seekable':
                sk = [e for e in tr if e.kind == 'ext' and e.name == 'fileobj_or_name.seek']
                fallback = z3.And(eng.opaque_pred(fo, 'hasattr_seek'), eng.opaque_pred(fo, 'hasattr_tell'))
                sk_ok = B(len(sk) == 1 and sk[0].extra.get('raised') is None and tuple(sk[0].args) == (0, 1))
                want = z3.If(has_own, B(len(own) == 1) if not own else z3.And(B(len(own) == 1), res == to_z3_bool(own[0].result)),
                             z3.If(fallback, z3.And(B(len(own) == 0), res == sk_ok), z3.And(B(len(own) == 0 and len(sk) == 0), z3.Not(res))))
            else:
                want = z3.If(has_own, B(len(own) == 1) if not own else z3.And(B(len(own) == 1), res == to_z3_bool(own[0].result)),
                             z3.And(B(len(own) == 0), res == eng.opaque_pred(fo, 'hasattr_read')))
            out['answers_with_the_objects_own_verdict_else_by_capability'] = (want, ['C01', 'C02', 'C11', 'C16'])
            return out
        return chk

    for fn in ('readable', 'seekable'):
        R.contract(f's3transfer.compat:{fn}', props=['C01', 'C02', 'C11', 'C16'], params=dict(fileobj=ExtT('fileobj_or_name')), events=False,
                   setup=lambda eng, st, args, self_val: R.stream_state(st, args['fileobj']),
                   checks=probe_answer(fn), raises={'Exception': only_propagates},
                   returns=lambda c, st, fn=fn: c.engine.opaque_pred(c.a_fileobj, 'is_' + fn))

    # ------------------------------------------------------------------ user-supplied source stream
    # A-FILE: read() returns all remaining bytes of the ghost content `src`; read(n), n > 0, returns between 1 and
    # min(n, remaining) bytes (0 only at EOF) -- raw streams (pipes, sockets, unbuffered files) legally return short
    # reads -- and exactly min(n, remaining) when the per-stream ghost flag `full_reads` holds (buffered streams).
    # Byte-exactness (C01) is proved without the flag; the clauses about part sizes / the multipart decision for
    # streams of unknown length (C14, C11) are stated under it.  tell/seek as documented.
    def stream(st, recv):
        key = ('stream', recv.label)
        if key not in st.ghost:
            pos, ln = z3.Int(fresh_name('src_pos')), z3.Int(fresh_name('src_len'))
            st.assume(pos >= 0)
            st.assume(ln >= pos)
            st.ghost[key] = {'pos': pos, 'len': ln, 'pos0': pos, 'full_reads': z3.Bool(fresh_name('full_reads'))}
        else:
            st.ghost[key] = dict(st.ghost[key])
        return st.ghost[key]

    def src_read(eng, st, recv, args, kwargs):
        g = stream(st, recv)
        amount = args[0] if args else None
        rem = g['len'] - g['pos']
        if amount is None:
            n = rem
        else:
            if isinstance(amount, Opt):
                a = to_int_term(amount.val)
                whole = z3.Or(amount.is_none, a < 0)
            else:
                a = to_int_term(amount)
                whole = a < 0
            full = z3.If(whole, rem, z3.If(a < rem, a, rem))
            n = z3.Int(fresh_name('src_nread'))
            st.assume(z3.And(n >= 0, n <= full, z3.Implies(full > 0, n > 0),
                             z3.Implies(z3.Or(whole, g['full_reads']), n == full)))
        from pyvc.values import BytesV
        data = BytesV('src', g['pos'], z3.simplify(g['pos'] + n))
        g['pos'] = z3.simplify(g['pos'] + n)
        return data

    def src_tell(eng, st, recv, args, kwargs):
        return stream(st, recv)['pos']

    def src_seek_effect(eng, st, recv, args, kwargs, result):
        g = stream(st, recv)
        where = args[0]
        whence = args[1] if len(args) > 1 else kwargs.get('whence', 0)
        if whence == 0:
            g['pos'] = to_int_term(where)
        elif whence == 1:
            g['pos'] = g['pos'] + where
        elif whence == 2:
            g['pos'] = g['len'] + where
        else:
            raise EngineError('seek whence')

    R.external('fileobj_or_name',
               read=ExtSpec(returns=src_read, raises=('Exception',)),
               tell=ExtSpec(returns=src_tell, raises=('Exception',)),
               seek=ExtSpec(raises=('Exception', 'OSError'), effect=src_seek_effect),     # OSError listed: compat.seekable distinguishes it
               close=ExtSpec(raises=('Exception',)),
               write=ExtSpec(raises=('Exception',)),
               seekable=ExtSpec(returns=Bool, raises=('Exception',)), readable=ExtSpec(returns=Bool, raises=('Exception',)),
               signal_transferring=ExtSpec(raises=()), signal_not_transferring=ExtSpec(raises=()))
    R.stream_state = stream

    # ------------------------------------------------------------------ upload input managers
    UIM = f'{UP}:UploadInputManager'
    R.add_fields(UIM, _osutil=ObjT(f'{UT}:OSUtils'), _transfer_coordinator=ObjT(TC, shared=True),
                 _bandwidth_limiter=OptT(ObjT('s3transfer.bandwidth:BandwidthLimiter')))
    R.add_fields(f'{UP}:UploadNonSeekableInputManager', _initial_data=BytesT('src'))
    for cls in ('UploadFilenameInputManager', 'UploadSeekableInputManager', 'UploadNonSeekableInputManager'):
        R.mark_inline(f'{UP}:{cls}.is_compatible', f'{UP}:{cls}.stores_body_in_memory')
    R.mark_inline(f'{UIM}.__init__', f'{UP}:UploadNonSeekableInputManager.__init__')

    # interface contracts (every concrete manager is verified against its own, stronger, contract)
    R.contract(f'{UIM}.provide_transfer_size', params=dict(transfer_future=ObjT(TF)), raise_when={'Exception': lambda c: None})
    R.contract(f'{UIM}.requires_multipart_upload', params=dict(transfer_future=ObjT(TF), config=ObjT(CFG)),
               returns=Bool, raise_when={'Exception': lambda c: None})
    R.contract(f'{UIM}.stores_body_in_memory', params=dict(operation_name=Str), returns=Bool, events=True)
    R.contract(f'{UIM}.get_put_object_body', params=dict(transfer_future=ObjT(TF)), returns=ExtT('upload_body'),
               raise_when={'Exception': lambda c: None})

    def set_size(c, st, val):
        meta = st.obj(c.a_transfer_future).fields['_meta']
        st.obj(meta).fields['_size'] = val

    def meta_of(c, view=None):
        view = view or c.new
        return view.f(c.a_transfer_future, '_meta')

    def size_of(c, view=None):
        view = view or c.new
        return view.f(meta_of(c, view), '_size')

    # Filename manager
    FN = f'{UP}:UploadFilenameInputManager'
    R.contract(f'{UT}:OSUtils.get_file_size', params=dict(filename=ExtT('fileobj_or_name')), returns=Int,
               ensures=lambda c: {'nonneg': c.result >= 0}, raise_when={'OSError': lambda c: None})

    # ================================================================== upload submission
    UST = f'{UP}:UploadSubmissionTask'
    SK, NS = f'{UP}:UploadSeekableInputManager', f'{UP}:UploadNonSeekableInputManager'
    R.mark_inline(f'{UST}._get_upload_input_manager_cls', f'{FN}.provide_transfer_size', f'{SK}.provide_transfer_size',
                  f'{NS}.provide_transfer_size', f'{FN}.requires_multipart_upload', f'{NS}.requires_multipart_upload',
                  f'{NS}._read')
    # the two branches as seen from _submit
    SUBMIT_PARAMS = dict(client=ExtT('client'), config=ObjT(CFG), osutil=ObjT(f'{UT}:OSUtils'),
                         request_executor=ExtT('bounded_executor'), transfer_future=ObjT(TF))
    def size_known_unless_stream(c):
        mgr = c.args['upload_input_manager']
        cls = c.old.obj(mgr).cls.name
        size = c.old.f(c.old.f(c.a_transfer_future, '_meta'), '_size')
        if cls == 'UploadNonSeekableInputManager':
            return []
        return [('transfer_size_is_known', z3.Not(is_none(size)))]

    for q in ('_submit_upload_request', '_submit_multipart_request'):
        R.contract(f'{UST}.{q}', params=dict(SUBMIT_PARAMS, upload_input_manager=Any),
                   requires=size_known_unless_stream,
                   raise_when={'Exception': lambda c: None})

    def unsupported_target(c):
        """own RuntimeError of _submit: no input / output manager is compatible with the user's file object -- raised
        before any task was submitted (a download may already have asked for the object's size)"""
        return {'nothing_submitted_for_an_unsupported_target': (B(not submits(c.trace)), ['C03', 'C04'])}

    def up_submit_checks(c):
        tr = c.trace
        single = calls(tr, '_submit_upload_request')
        multi = calls(tr, '_submit_multipart_request')
        out = {'exactly_one_mode': (B(len(single) + len(multi) == 1), ['C14', 'C04'])}
        # C08: a size supplied by the user (e.g. during on_queued) -- also 0 -- suppresses the size discovery
        first_mode = min([index_of(tr, e) for e in single + multi] or [len(tr)])
        probes = [e for e in tr[:first_mode] if (e.kind == 'call' and e.name.endswith('OSUtils.get_file_size'))
                  or (e.kind == 'ext' and e.name in ('fileobj_or_name.seek', 'fileobj_or_name.tell'))]
        size0 = c.old.f(c.old.f(c.a_transfer_future, '_meta'), '_size')
        size_after = c.new.f(c.new.f(c.a_transfer_future, '_meta'), '_size')
        out['a_supplied_size_suppresses_the_size_discovery'] = (z3.Or(is_none(size0), B(not probes and size_after is size0)), ['C08'])
        fo = c.old.f(c.old.f(c.old.f(c.a_transfer_future, '_meta'), '_call_args'), 'fileobj')
        eng = c.engine
        is_str = eng.opaque_pred(fo, 'is_str')
        seekable = z3.And(eng.opaque_pred(fo, 'is_readable'), eng.opaque_pred(fo, 'is_seekable'))
        ev = (single + multi)
        if len(ev) == 1:
            mgr = ev[0].extra['env']['upload_input_manager']
            cls = c.new.obj(mgr).cls.name
            want = z3.If(is_str, B(cls == 'UploadFilenameInputManager'),
                         z3.If(seekable, B(cls == 'UploadSeekableInputManager'), B(cls == 'UploadNonSeekableInputManager')))
            out['input_manager_matches_source_kind'] = (want, ['C01', 'C11'])
            out['input_manager_gets_the_transfers_bandwidth_limiter'] = (B(c.new.obj(mgr).fields.get('_bandwidth_limiter') is c.a_bandwidth_limiter), ['C13'])
            # C14: multipart exactly when size >= threshold.  size = provided / discovered size, or for a
            # non-seekable stream of unknown length the bytes from the call position to EOF (full reads)
            thr = c.old.f(c.a_config, 'multipart_threshold')
            size = c.new.f(c.new.f(c.a_transfer_future, '_meta'), '_size')
            # (the source stream / probe buffer as they are when the request-submitting function takes over)
            at_call = ev[0].extra['pre']
            g = at_call.ghost.get(('stream', fo.label))
            if cls == 'UploadNonSeekableInputManager':
                known = z3.Not(is_none(c.old.f(c.old.f(c.a_transfer_future, '_meta'), '_size')))
                total = (g['len'] - g['pos0']) if g is not None else None
                size_term = z3.If(known, optval(size), total) if total is not None else optval(size)
            else:
                size_term = optval(size)
            # (for a stream of unknown length the decision rests on one probing read: stated for streams giving full reads)
            need_full = g['full_reads'] if (cls == 'UploadNonSeekableInputManager' and g is not None) else B(True)
            out['multipart_iff_size_at_least_threshold'] = (
                z3.Implies(need_full, (size_term >= thr) if multi else (size_term < thr)), ['C14'])
            if cls == 'UploadSeekableInputManager' and g is not None:
                # C01: a size the library discovers itself is the stream from its position at call time to EOF, and
                # discovering it leaves the stream where it was
                was_unknown = is_none(c.old.f(c.old.f(c.a_transfer_future, '_meta'), '_size'))
                out['discovered_size_is_position_to_eof_and_position_restored'] = (
                    z3.Implies(was_unknown, z3.And(optval(size) == g['len'] - g['pos0'], g['pos'] == g['pos0'])), ['C01'])
            if cls == 'UploadNonSeekableInputManager':
                d = at_call.obj(mgr).fields['_initial_data']
                out['probe_buffer_at_most_threshold_bytes'] = (
                    B(True) if isinstance(d, bytes) else (to_int_term(d.hi) - to_int_term(d.lo) <= thr), ['C11'])
        return out

    R.contract(
        f'{UST}._submit', props=['C14', 'C01', 'C04', 'C11', 'C13', 'C08'],
        params=dict(SUBMIT_PARAMS, bandwidth_limiter=OptT(ObjT('s3transfer.bandwidth:BandwidthLimiter'))),
        checks=up_submit_checks,
        raises={'RuntimeError': unsupported_target, 'Exception': only_propagates},
    )

    # ---- bodies: the real object graph ReadFileChunk(InterruptReader(DeferredOpenFile | BytesIO | stream))
    RFC, DOF, IRD = f'{UT}:ReadFileChunk', f'{UT}:DeferredOpenFile', f'{UP}:InterruptReader'
    R.mark_inline(
        f'{UT}:OSUtils.open_file_chunk_reader_from_fileobj', f'{RFC}.__init__', f'{RFC}._calculate_file_size',
        f'{DOF}.__init__', f'{DOF}.tell', f'{IRD}.__init__', f'{IRD}.tell',
        f'{UIM}._wrap_fileobj', f'{UIM}._get_progress_callbacks', f'{UIM}._get_close_callbacks',
        f'{UP}:AggregatedProgressCallback.__init__',
        f'{FN}.get_put_object_body', f'{FN}.yield_upload_part_bodies', f'{FN}._get_deferred_open_file',
        f'{FN}._get_put_object_fileobj_with_full_size', f'{FN}._get_upload_part_fileobj_with_full_size', f'{FN}._get_num_parts',
        f'{SK}._get_upload_part_fileobj_with_full_size', f'{SK}._get_put_object_fileobj_with_full_size',
        f'{NS}.get_put_object_body', f'{NS}.yield_upload_part_bodies', f'{NS}._wrap_data',
        f'{UST}._get_upload_task_tag', f'{UST}._extra_upload_part_args', f'{UST}._extra_complete_multipart_args',
        f'{UST}._extra_create_multipart_args', f'{UST}._extra_put_object_args',
    )
    BWL, BLS = 's3transfer.bandwidth:BandwidthLimiter', 's3transfer.bandwidth:BandwidthLimitedStream'
    R.add_fields(BWL, _leaky_bucket=ExtT('leaky_bucket'), _time_utils=ExtT('time_utils'))
    R.mark_inline(f'{BWL}.get_bandwith_limited_stream', f'{BLS}.__init__', f'{BLS}.tell',
                  f'{BLS}.disable_bandwidth_limiting', f'{BLS}.enable_bandwidth_limiting')
    R.add_fields(f'{UT}:OSUtils')

    MGR_ALTS = {'upload_input_manager': [('filename', ObjT(FN)), ('seekable', ObjT(SK)), ('nonseekable', ObjT(NS))]}

    def body_window(c, body):
        """(kind, start, size) of a ReadFileChunk body built by the real code."""
        h = c.new.obj(body)
        return h.cls.name, h.fields['_start_byte'], h.fields['_size']

    def single_checks(c):
        tr = c.trace
        sub = submits(tr)
        out = {'exactly_one_task_submitted_and_it_is_final': (
            B(len(sub) == 1 and task_of(c, sub[0])[0] == 'PutObjectTask' and is_final(c, sub[0])), ['C04', 'C01', 'C10'])}
        if len(sub) == 1:
            mk = task_main_kwargs(c, sub[0])
            env = sub[0].extra['env']
            out['goes_to_the_request_executor'] = (B(env['executor'] is c.a_request_executor), ['C10'])
            mgr_cls = c.new.obj(c.a_upload_input_manager).cls.name
            in_memory = mgr_cls == 'UploadNonSeekableInputManager'
            tag = env['tag']
            tagged = z3.Not(is_none(tag))
            out['in_memory_body_is_tagged'] = (tagged == B(in_memory), ['C11', 'C10'])
            out['bucket_and_key_are_the_users'] = (B(
                mk.get('bucket') is c.old.f(_cargs(c), 'bucket') and mk.get('key') is c.old.f(_cargs(c), 'key')
                and mk.get('client') is c.a_client), ['C01', 'C15'])
            # ---- C01: the single request's body is exactly the source: the file from 0, the seekable stream from its
            # current position, or (non-seekable) the bytes from the position at call time up to EOF
            body = mk.get('fileobj')
            st1 = c.new.st
            bh = st1.obj(body) if isinstance(body, Ref) and st1.obj(body).kind == 'obj' else None
            okb = bh is not None and bh.cls.name == 'ReadFileChunk'
            out['body_is_a_window_reader'] = (B(okb), ['C01'])
            if okb:
                out['body_starts_with_progress_reporting_off'] = (B(bh.fields.get('_callbacks_enabled') is False), ['C09'])
                cbs = bh.fields.get('_callbacks')
                cbs = cbs.val if isinstance(cbs, Opt) else cbs
                citems = st1.obj(cbs).items if isinstance(cbs, Ref) and st1.obj(cbs).kind == 'list' else None
                created = [oid for oid, hh in st1.heap.items() if oid not in c.old.st.heap and hh.kind == 'obj' and hh.cls is not None
                           and hh.cls.name == 'AggregatedProgressCallback']
                gcp = [e for e in tr if e.kind == 'call' and e.name.endswith('get_callbacks') and e.extra['env'].get('callback_type') == 'progress']
                if len(gcp) == 1 and isinstance(gcp[0].result, Ref) and st1.obj(gcp[0].result).kind == 'slist':
                    ncb = to_int_term(st1.obj(gcp[0].result).meta['len'])
                    out['progress_aggregator_exists_iff_there_are_progress_subscribers'] = (
                        (ncb > 0) == B(len(created) == 1) if len(created) <= 1 else B(False), ['C09'])
                    out['aggregator_reports_to_the_transfers_progress_subscribers'] = (B(all(
                        st1.heap[o].fields.get('_callbacks') is gcp[0].result for o in created)), ['C09'])
                out['body_reports_to_the_progress_aggregator_built_for_it'] = (B(
                    citems is not None and all(isinstance(x, Ref) for x in citems) and sorted(x.oid for x in citems) == sorted(created)), ['C09'])
                out['body_is_throttled_iff_a_limiter_is_configured'] = (limiter_clause(st1, c.a_upload_input_manager, bh.fields['_fileobj']), ['C13'])
                start, size = to_int_term(bh.fields['_start_byte']), to_int_term(bh.fields['_size'])
                total = size_val(st1, c.a_transfer_future)
                fo = fo_of(st1, c.a_transfer_future)
                rdr = reader_of(st1, tr, bh.fields['_fileobj'])
                inner_v = rdr.fields['_fileobj'] if rdr is not None else None
                inner = st1.obj(inner_v) if isinstance(inner_v, Ref) else None
                g = st1.ghost.get(('stream', fo.label))
                if mgr_cls == 'UploadFilenameInputManager':
                    out['body_window_is_the_whole_file'] = (z3.And(start == 0, size == total, B(
                        inner is not None and inner.kind == 'obj' and inner.cls.name == 'DeferredOpenFile' and inner.fields['_filename'] is fo)), ['C01'])
                elif mgr_cls == 'UploadSeekableInputManager':
                    out['body_window_is_the_stream_from_its_current_position'] = (z3.And(
                        B(rdr is not None and inner_v is fo and g is not None), start == g['pos'] if g is not None else B(False),
                        size == total), ['C01'])
                else:
                    okm = inner is not None and inner.kind == 'bytesio' and g is not None and not isinstance(inner.meta['data'], bytes)
                    out['body_is_an_in_memory_buffer'] = (B(okm), ['C01', 'C11'])
                    if okm:
                        d = inner.meta['data']
                        out['buffer_is_the_stream_from_its_position_at_call_time_to_eof'] = (z3.And(
                            B(d.base == 'src'), to_int_term(d.lo) == g['pos0'], to_int_term(d.hi) == g['len'], g['pos'] == g['len']), ['C01'])
                        out['window_covers_the_whole_buffer'] = (z3.And(start == 0, size == to_int_term(d.hi) - to_int_term(d.lo)), ['C01'])
        return out

    def zmin2(a, b):
        return z3.If(a < b, a, b)

    def _cargs(c):
        return c.old.f(c.old.f(c.a_transfer_future, '_meta'), '_call_args')

    def ns_setup(eng, st, args, self_val):
        """State in which _submit hands over to the two request-submitting functions: for a non-seekable source
        the manager holds the bytes read so far (src[pos0:pos]) as _initial_data."""
        mgr = args['upload_input_manager']
        h = st.obj(mgr)
        if h.cls.name == 'UploadNonSeekableInputManager':
            fo = st.obj(st.obj(st.obj(args['transfer_future']).fields['_meta']).fields['_call_args']).fields['fileobj']
            g = R.stream_state(st, fo)
            # the probe of requires_multipart_upload may already have consumed a prefix of the stream
            g['pos'] = z3.Int(fresh_name('src_pos_now'))
            st.assume(z3.And(g['pos'] >= g['pos0'], g['pos'] <= g['len']))
            d = h.fields['_initial_data']
            st.assume(to_int_term(d.lo) == g['pos0'])
            st.assume(to_int_term(d.hi) == g['pos'])

    R.contracts[f'{UST}._submit_upload_request'].setup = ns_setup
    R.contracts[f'{UST}._submit_upload_request'].checks = single_checks
    R.contracts[f'{UST}._submit_upload_request'].param_alternatives = MGR_ALTS
    R.contracts[f'{UST}._submit_upload_request'].raises = {'Exception': only_propagates}
    R.contracts[f'{UST}._submit_upload_request'].props = ('C01', 'C04', 'C09', 'C10', 'C11', 'C13', 'C15')

    # ---------------------------------------------------------------- multipart upload
    FUTS = ListOfT(ExtT('future'), name='part_futures')

    def fo_of(st, tf):
        return st.obj(st.obj(st.obj(tf).fields['_meta']).fields['_call_args']).fields['fileobj']

    def size_val(st, tf):
        return optval(st.obj(st.obj(tf).fields['_meta']).fields['_size'])

    def part_iteration_checks(kind):
        """Obligations for one arbitrary iteration of the (fused) part loop."""
        def chk(l0, l1, evs):
            eng = l1.engine
            st0, st1 = l0.st, l1.st
            outer0, outer1 = st0.stack[-1], st1.stack[-1]
            ys = [e for e in evs if e.kind == 'yield']
            sub = [e for e in evs if e.kind == 'call' and e.name == f'{TC}.submit']
            out = {}
            okshape = len(ys) == 1 and len(sub) == 1
            out['one_part_body_yielded_and_one_part_task_submitted'] = (B(okshape), ['C01', 'C05', 'C04'])
            if not okshape:
                return out
            pn, body = ys[0].args[0]
            task = st1.obj(sub[0].extra['env']['task'])
            mk = st1.obj(task.fields['_main_kwargs']).items
            pk = st1.obj(task.fields['_pending_main_kwargs']).items
            k = st0.stack[-1]['part_futures']
            n_before = st0.obj(k).meta['len'] if st0.obj(k).kind == 'slist' else len(st0.obj(k).items)
            # numbering 1..n in order: this part's number is (#parts submitted so far) + 1
            out['part_number_is_count_so_far_plus_one'] = (to_int_term(pn) == to_int_term(n_before) + 1, ['C01', 'C14'])
            out['task_is_an_upload_part_task_for_that_number_and_body'] = (B(
                task.cls.name == 'UploadPartTask' and mk.get('part_number') is pn and mk.get('fileobj') is body
                and task.fields['_is_final'] is False and sub[0].extra['env']['executor'] is outer1['request_executor']
                and mk.get('client') is outer1['client']), ['C01', 'C05', 'C10'])
            out['part_waits_for_the_upload_id_of_the_create_task'] = (B(
                set(pk) == {'upload_id'} and pk['upload_id'] is outer1['create_multipart_future']), ['C05', 'C04'])
            after = st1.obj(outer1['part_futures'])
            appended = [e for e in evs if e.kind == 'ghost' and e.name == 'append']
            out['part_future_appended_to_the_parts_list'] = (z3.And(
                to_int_term(after.meta['len']) == to_int_term(n_before) + 1,
                z3.Select(after.meta['arr'], to_int_term(n_before)) == sub[0].result.term), ['C01', 'C05'])
            tag = sub[0].extra['env']['tag']
            out['in_memory_part_is_tagged'] = (z3.Not(is_none(tag)) == B(kind != 'filename'), ['C11', 'C10'])
            # ---- the body's byte window
            bh = st1.obj(body)
            start, size = bh.fields['_start_byte'], bh.fields['_size']
            chunk = outer1['chunksize']
            # C09: every part body reports through its OWN aggregator (the bodies are read concurrently by different
            # request threads and AggregatedProgressCallback is not thread-safe: a shared one double-counts or loses bytes)
            cbs = bh.fields.get('_callbacks')
            cbs = cbs.val if isinstance(cbs, Opt) else cbs
            citems = st1.obj(cbs).items if isinstance(cbs, Ref) and st1.obj(cbs).kind == 'list' else None
            aggs = [x for x in (citems or []) if isinstance(x, Ref) and st1.obj(x).kind == 'obj' and st1.obj(x).cls.name == 'AggregatedProgressCallback']
            out['part_body_is_throttled_iff_a_limiter_is_configured'] = (limiter_clause(st1, outer1['upload_input_manager'], bh.fields['_fileobj']), ['C13'])
            # reporting starts switched off: botocore's request-created handlers switch it on when the body is sent
            out['part_body_starts_with_progress_reporting_off'] = (B(bh.fields.get('_callbacks_enabled') is False), ['C09'])
            created = [oid for oid, hh in st1.heap.items() if oid not in st0.heap and hh.kind == 'obj' and hh.cls is not None
                       and hh.cls.name == 'AggregatedProgressCallback']
            created = [oid for oid, hh in st1.heap.items() if oid not in st0.heap and hh.kind == 'obj' and hh.cls is not None
                       and hh.cls.name == 'AggregatedProgressCallback']
            # an aggregator exists exactly when the transfer has progress subscribers, and it reports to them
            gcp = [e for e in evs if e.kind == 'call' and e.name.endswith('get_callbacks') and e.extra['env'].get('callback_type') == 'progress']
            if len(gcp) == 1 and isinstance(gcp[0].result, Ref) and st1.obj(gcp[0].result).kind == 'slist':
                ncb = to_int_term(st1.obj(gcp[0].result).meta['len'])
                out['progress_aggregator_exists_iff_there_are_progress_subscribers'] = (
                    (ncb > 0) == B(len(created) == 1) if len(created) <= 1 else B(False), ['C09'])
                out['aggregator_reports_to_the_transfers_progress_subscribers'] = (B(all(
                    st1.heap[o].fields.get('_callbacks') is gcp[0].result for o in created)), ['C09'])
            out['part_body_has_its_own_progress_aggregator'] = (B(
                citems is not None and all(isinstance(x, Ref) for x in citems) and len(aggs) == len(citems)
                and all(a.oid not in st0.heap for a in aggs)
                # ... and the aggregator built for this part is the one the body reports to (not dropped on the way)
                and sorted(a.oid for a in aggs) == sorted(created)), ['C09'])
            if kind == 'filename':
                total = size_val(st1, outer1['transfer_future'])
                rdr = reader_of(st1, evs, bh.fields['_fileobj'])
                inner = st1.obj(rdr.fields['_fileobj']) if rdr is not None and isinstance(rdr.fields['_fileobj'], Ref) else None
                out['window_starts_at_chunksize_times_index'] = (to_int_term(start) == chunk * (to_int_term(pn) - 1), ['C01', 'C14'])
                out['window_size_is_chunk_or_remainder'] = (to_int_term(size) == z3.If(total - start < chunk, total - start, chunk), ['C01', 'C14'])
                out['window_reads_the_users_file'] = (B(
                    inner is not None and inner.cls.name == 'DeferredOpenFile'
                    and inner.fields['_filename'] is fo_of(st1, outer1['transfer_future'])
                    and inner.fields['_start_byte'] is start), ['C01'])
            else:
                # in-memory body: BytesIO over exactly the bytes consumed from the source in this iteration
                rd = reader_of(st1, evs, bh.fields['_fileobj'])
                bio = st1.obj(rd.fields['_fileobj']) if rd is not None and isinstance(rd.fields['_fileobj'], Ref) else None
                okb = bio is not None and bio.kind == 'bytesio'
                out['body_is_an_in_memory_buffer'] = (B(okb), ['C01', 'C11'])
                if okb:
                    d = bio.meta['data']
                    nxt0, nxt1 = next_unread(st0, outer0, l0), next_unread(st1, outer1, l1)
                    out['buffer_is_the_next_unread_bytes_of_the_source'] = (z3.And(
                        to_int_term(d.lo) == nxt0, to_int_term(d.hi) == nxt1, B(d.base == 'src')), ['C01'])
                    out['window_covers_the_whole_buffer'] = (z3.And(to_int_term(start) == 0, to_int_term(size) == to_int_term(d.hi) - to_int_term(d.lo)), ['C01'])
                    out['buffer_not_larger_than_chunksize'] = (to_int_term(d.hi) - to_int_term(d.lo) <= chunk, ['C11'])
                    if kind == 'seekable':
                        # ... and it is a whole chunk unless the source ends first (a source that answers reads in full: a
                        # part cut short -- e.g. an empty last part when the size is a multiple of the chunk size -- would
                        # leave the stored object short although every part "is the next unread bytes")
                        gs = st1.ghost[('stream', fo_of(st1, outer1['transfer_future']).label)]
                        left = gs['len'] - nxt0
                        out['a_part_holds_a_whole_chunk_unless_the_source_ends_first'] = (z3.Implies(
                            gs['full_reads'], to_int_term(d.hi) - to_int_term(d.lo) == z3.If(left < chunk, left, chunk)), ['C01', 'C14'])
                    cfg = st1.obj(outer1['config'])
                    cc, th = cfg.fields['multipart_chunksize'], cfg.fields['multipart_threshold']
                    out['buffer_within_the_documented_bound_max_of_chunksize_and_threshold'] = (
                        to_int_term(d.hi) - to_int_term(d.lo) <= z3.If(cc >= th, cc, th), ['C11'])
            return out
        return chk

    def limiter_clause(st, mgr_ref, body_fileobj):
        """C13: an upload body is read through the manager's shared leaky bucket exactly when a limiter is configured
        (created with limiting off: botocore's handlers switch it on while the body is being sent)."""
        lim = st.obj(mgr_ref).fields.get('_bandwidth_limiter')
        h = st.obj(body_fileobj) if isinstance(body_fileobj, Ref) and st.obj(body_fileobj).kind == 'obj' else None
        wrapped = h is not None and h.cls.name == 'BandwidthLimitedStream'
        okw = False
        if wrapped:
            lv = lim.val if isinstance(lim, Opt) else lim
            inner = h.fields.get('_fileobj')
            okw = isinstance(lv, Ref) and h.fields.get('_leaky_bucket') is st.obj(lv).fields.get('_leaky_bucket') \
                and h.fields.get('_transfer_coordinator') is st.obj(mgr_ref).fields.get('_transfer_coordinator') \
                and h.fields.get('_bandwidth_limiting_enabled') is False \
                and isinstance(inner, Ref) and st.obj(inner).kind == 'obj' and st.obj(inner).cls.name == 'InterruptReader'
        direct = h is not None and h.cls.name == 'InterruptReader'
        if isinstance(lim, Opt):
            return z3.If(lim.is_none, B(bool(direct)), B(bool(okw)))
        return B(bool(direct)) if lim is None else B(bool(okw))

    def reader_of(st, evs, v):
        """InterruptReader heap object under a body's _fileobj (possibly wrapped by the bandwidth limiter)."""
        if isinstance(v, Ref) and st.obj(v).kind == 'obj' and st.obj(v).cls.name == 'BandwidthLimitedStream':
            v = st.obj(v).fields['_fileobj']
        if isinstance(v, Ref):
            h = st.obj(v)
            if h.kind == 'obj' and h.cls.name == 'InterruptReader':
                return h
        return None

    def next_unread(st, outer, l):
        """Position in `src` of the next byte not yet handed out as a part body."""
        fo = fo_of(st, outer['transfer_future'])
        g = st.ghost[('stream', fo.label)]
        mgr = st.obj(outer['upload_input_manager'])
        if mgr.cls.name == 'UploadNonSeekableInputManager':
            d = mgr.fields['_initial_data']
            if isinstance(d, bytes):
                return g['pos']
            return z3.If(to_int_term(d.hi) - to_int_term(d.lo) > 0, to_int_term(d.lo), g['pos'])
        return g['pos']

    def havoc_stream(l):
        st = l.st
        outer = st.stack[-1]
        fo = fo_of(st, outer['transfer_future'])
        key = ('stream', fo.label)
        if key in st.ghost:
            g = dict(st.ghost[key])
            g['pos'] = z3.Int(fresh_name('src_pos'))
            st.ghost[key] = g
            st.assume(g['pos'] >= 0)
            st.assume(g['pos'] <= g['len'])
        mgr = st.obj(outer['upload_input_manager'])
        if mgr.cls.name == 'UploadNonSeekableInputManager':
            mgr.fields['_initial_data'] = l.engine.make_symbolic(BytesT('src'), 'initial_data', st)

    def parts_len(st):
        h = st.obj(st.stack[-1]['part_futures'])
        return to_int_term(h.meta['len']) if h.kind == 'slist' else z3.IntVal(len(h.items))

    def fn_inv(l):
        return {'one_future_per_yielded_part': parts_len(l.st) == to_int_term(l.index)}

    def ns_inv(l):
        st = l.st
        outer = st.stack[-1]
        fo = fo_of(st, outer['transfer_future'])
        g = st.ghost[('stream', fo.label)]
        d = st.obj(outer['upload_input_manager']).fields['_initial_data']
        adj = B(True) if isinstance(d, bytes) else z3.And(z3.Or(to_int_term(d.hi) == to_int_term(d.lo), to_int_term(d.hi) == g['pos']), to_int_term(d.lo) <= to_int_term(d.hi))
        return {'one_future_per_yielded_part': parts_len(st) == to_int_term(l.local('part_number')),
                'buffered_prefix_ends_at_stream_position': adj}

    GEN = {
        (f'{FN}.yield_upload_part_bodies', 0): lambda kind: LoopSpec(
            invariant=fn_inv, outer_local_types={'part_futures': FUTS}, havoc_heap=havoc_stream,
            iteration_checks=part_iteration_checks(kind)),
        (f'{NS}.yield_upload_part_bodies', 0): lambda kind: LoopSpec(
            invariant=ns_inv, outer_local_types={'part_futures': FUTS}, havoc_heap=havoc_stream,
            local_types={'part_number': Int, 'part_content': Any},
            iteration_checks=part_iteration_checks(kind)),
    }

    def multi_checks(c):
        tr = c.trace
        sub = submits(tr)
        loops = [e for e in tr if e.kind == 'loop' and any(x.kind == 'yield' for alt in e.alts for x in alt)]
        out = dict(config_untouched(c, c.a_config))
        okshape = len(sub) == 2 and len(loops) == 1 and index_of(tr, sub[0]) < index_of(tr, loops[0]) < index_of(tr, sub[1])
        out['create_then_parts_then_complete'] = (B(okshape), ['C05', 'C04', 'C01'])
        if not okshape:
            return out
        cr, cm = sub
        out['create_task_first_not_final'] = (B(task_of(c, cr)[0] == 'CreateMultipartUploadTask' and not is_final(c, cr)
                                                and cr.extra['env']['executor'] is c.a_request_executor), ['C05', 'C10'])
        pk = task_pending(c, cm)
        parts = pk.get('parts')
        out['complete_task_is_the_single_final_task'] = (B(task_of(c, cm)[0] == 'CompleteMultipartUploadTask' and is_final(c, cm)
                                                           and cm.extra['env']['executor'] is c.a_request_executor), ['C05', 'C04', 'C10'])
        out['complete_depends_on_create_and_on_every_part_in_order'] = (B(
            set(pk) == {'upload_id', 'parts'} and pk['upload_id'] is cr.result and parts is c.new.st.env['part_futures']), ['C05', 'C01', 'C04'])
        # number of parts / exhaustion of the source.  (C01 speaks about transfers that succeed: if the function itself saw the
        # transfer already finished -- failed or cancelled -- it may stop queueing parts; the code as it stands never looks)
        from .a_common import DONE as _DONE, status_in as _status_in
        seen_done = z3.Or([B(False)] + [_status_in(e.result, _DONE) for e in flat(tr) if e.kind == 'read' and e.name == '_status'])
        nparts = to_int_term(c.new.st.obj(c.new.st.env['part_futures']).meta['len'])
        chunk = c.new.st.env['chunksize']
        mgr_cls = c.new.obj(c.a_upload_input_manager).cls.name
        fo = fo_of(c.new.st, c.a_transfer_future)
        g = c.new.st.ghost.get(('stream', fo.label))
        if mgr_cls == 'UploadFilenameInputManager':
            out['number_of_parts_is_ceil_size_over_chunksize'] = (
                z3.Or(seen_done, is_ceil_div(nparts, size_val(c.new.st, c.a_transfer_future), chunk)), ['C01', 'C14'])
        elif mgr_cls == 'UploadSeekableInputManager':
            out['number_of_parts_is_ceil_size_over_chunksize'] = (
                z3.Or(seen_done, is_ceil_div(nparts, size_val(c.new.st, c.a_transfer_future), chunk)), ['C01', 'C14'])
        else:
            d = c.new.obj(c.a_upload_input_manager).fields['_initial_data']
            empty = B(True) if isinstance(d, bytes) else (to_int_term(d.hi) == to_int_term(d.lo))
            out['source_read_to_the_end'] = (z3.Or(seen_done, z3.And(g['pos'] == g['len'], empty)), ['C01'])
        out['at_most_10000_parts'] = (nparts <= 10000, ['C14'])
        # chunk size comes from the adjuster (C14) applied to the configured chunk size and the size
        adj = calls(tr, 'ChunksizeAdjuster.adjust_chunksize')
        out['chunksize_is_adjusted_configured_chunksize'] = (B(
            len(adj) == 1 and adj[0].extra['env']['current_chunksize'] is c.old.f(c.a_config, 'multipart_chunksize')
            and adj[0].result is c.new.st.env['chunksize']), ['C14', 'C11'])
        return out

    FULLN = ['ChecksumCRC32', 'ChecksumCRC32C', 'ChecksumCRC64NVME', 'ChecksumSHA1', 'ChecksumSHA256']
    kk_ = z3.String('kk_')
    str_as_U = z3.Function('str_as_U', z3.StringSort(), U)

    def extra_map(st, call_args):
        m = st.obj(st.obj(call_args).fields['extra_args']).meta
        return m['present'], m['vals']

    def checksum_rewrite(p0, v0, p, v, idx):
        """E' after visiting the first idx names of FULL_OBJECT_CHECKSUM_ARGS."""
        CT, CA = z3.StringVal('ChecksumType'), z3.StringVal('ChecksumAlgorithm')
        seen = [z3.And(z3.IntVal(j) < idx, z3.Select(p0, z3.StringVal(n))) for j, n in enumerate(FULLN)]
        any_seen = z3.Or(seen)
        return {
            'other_arguments_untouched': z3.ForAll([kk_], z3.Implies(z3.And(kk_ != CT, kk_ != CA), z3.And(
                z3.Select(p, kk_) == z3.Select(p0, kk_), z3.Select(v, kk_) == z3.Select(v0, kk_)))),
            'no_rewrite_without_full_object_checksum': z3.Implies(z3.Not(any_seen), z3.And(
                z3.Select(p, CT) == z3.Select(p0, CT), z3.Select(v, CT) == z3.Select(v0, CT),
                z3.Select(p, CA) == z3.Select(p0, CA), z3.Select(v, CA) == z3.Select(v0, CA))),
            'full_object_checksum_adds_type_and_matching_algorithm': z3.Implies(any_seen, z3.And(
                z3.Select(p, CT), z3.Select(v, CT) == str_as_U(z3.StringVal('FULL_OBJECT')), z3.Select(p, CA),
                z3.Or([z3.And(sj, z3.Select(v, CA) == str_as_U(z3.StringVal(n.replace('Checksum', ''))))
                       for sj, n in zip(seen, FULLN)]))),
        }

    def checksum_loop_inv(l):
        ca = l.local('call_args')
        p0, v0 = extra_map(l.pre, ca)
        p, v = extra_map(l.st, ca)
        return checksum_rewrite(p0, v0, p, v, to_int_term(l.index))

    def checksum_havoc(l):
        m = l.st.obj(l.st.obj(l.local('call_args')).fields['extra_args']).meta
        m['present'] = z3.Array(fresh_name('xp'), z3.StringSort(), z3.BoolSort())
        m['vals'] = z3.Array(fresh_name('xv'), z3.StringSort(), U)

    cmu = R.contracts[f'{UST}._submit_multipart_request']
    cmu.loops = {0: LoopSpec(invariant=checksum_loop_inv, havoc_heap=checksum_havoc, symbolic_iteration=True)}
    cmu.checks = multi_checks
    cmu.param_alternatives = MGR_ALTS
    cmu.raises = {'Exception': only_propagates}
    cmu.props = ('C01', 'C04', 'C05', 'C09', 'C10', 'C11', 'C13', 'C14', 'C15')

    def multi_setup(eng, st, args, self_val):
        ns_setup(eng, st, args, self_val)
        mgr = st.obj(args['upload_input_manager'])
        kind = {'UploadFilenameInputManager': 'filename', 'UploadSeekableInputManager': 'seekable',
                'UploadNonSeekableInputManager': 'nonseekable'}[mgr.cls.name]
        cmu.gen_loops = {k: mk(kind) for k, mk in GEN.items()}
        size = st.obj(st.obj(args['transfer_future']).fields['_meta']).fields['_size']
        # S3's object size limit (precondition of the planner, C14)
        st.assume(z3.Or(size.is_none, size.val <= 5 * TiB))
        st.assume(st.obj(args['config']).fields['multipart_chunksize'] < TWO53)   # IEEE domain of the planner (C14)
        if kind != 'nonseekable':
            st.assume(z3.Not(size.is_none))
        R.stream_state(st, fo_of(st, args['transfer_future']))

    cmu.setup = multi_setup

    # ================================================================== request tasks (_main)
    R.external(None, upper=ExtSpec(returns=ExtT('str'), pure=True))   # str methods on opaque argument values
    RFCq = f'{UT}:ReadFileChunk'

    def splat_is(ev, st, m):
        """the **kwargs of a client event is exactly the map value m (as it was at the call)."""
        sp = ev.extra.get('splat')
        if sp is None or not isinstance(m, Ref):
            return False
        mm = st.obj(m).meta
        return sp['present'].eq(mm['present']) and sp['vals'].eq(mm['vals'])

    def put_checks(c):
        ev = exts(c.trace, 'client.put_object')
        okk = len(ev) == 1 and set(k for k in ev[0].kwargs if k != '**') == {'Bucket', 'Key', 'Body'} \
            and ev[0].kwargs['Bucket'] is c.a_bucket and ev[0].kwargs['Key'] is c.a_key and ev[0].kwargs['Body'] is c.a_fileobj
        cl = calls(c.trace, 'ReadFileChunk.close')
        return {
            'one_put_object_with_the_body_bucket_key': (B(bool(okk)), ['C01', 'C10']),
            'extra_args_forwarded_unmodified': (B(bool(okk) and splat_is(ev[0], c.old.st, c.a_extra_args)), ['C15']),
            'no_other_request': (B(len([e for e in c.trace if e.kind == 'ext' and e.name.startswith('client.')]) == 1), ['C10', 'C15']),
            'body_closed_afterwards': (B(len(cl) == 1 and bool(ev) and index_of(c.trace, cl[0]) > index_of(c.trace, ev[0])), ['C09']),
        }

    R.contract(f'{UP}:PutObjectTask._main', props=['C01', 'C09', 'C10', 'C15'],
               params=dict(client=ExtT('client'), fileobj=ObjT(RFCq), bucket=ExtT('str'), key=ExtT('str'), extra_args=EXTRA),
               checks=put_checks, raises={'Exception': only_propagates}, raise_when={'Exception': lambda c: None})

    from .c05 import resp_get

    def checksum_member_clause(c, res, alg_in_use):
        """C01: the part is listed with the part checksum S3 returned exactly when a checksum algorithm is in use and the
        response carries that member; the value is the response's."""
        ins = [e for e in c.trace if e.kind == 'read' and e.name == 'respdict.__contains__']
        extra = [k for k in res if k not in ('ETag', 'PartNumber')]
        if not ins:
            return {'part_checksum_listed_iff_algorithm_in_use_and_returned_by_s3': (z3.Not(alg_in_use) if not extra else B(False), ['C01'])}
        asked = ins[-1]
        out = {'part_checksum_listed_iff_algorithm_in_use_and_returned_by_s3': (
            B(len(extra) == 1) == z3.And(alg_in_use, asked.result), ['C01'])}
        if len(extra) == 1:
            v = res[extra[0]]
            from .c05 import resp_get_u
            want = resp_get_u(asked.recv.term, c.engine.as_u_term(asked.args[0], c.new.st))
            out['listed_part_checksum_is_the_value_s3_returned'] = (B(isinstance(v, Opaque) and z3.eq(z3.simplify(v.term), z3.simplify(want))), ['C01'])
        return out

    def part_checks(c):
        ev = exts(c.trace, 'client.upload_part')
        okk = len(ev) == 1 and ev[0].extra.get('raised') is None and \
            set(k for k in ev[0].kwargs if k != '**') == {'Bucket', 'Key', 'UploadId', 'PartNumber', 'Body'} \
            and ev[0].kwargs['Bucket'] is c.a_bucket and ev[0].kwargs['Key'] is c.a_key and ev[0].kwargs['Body'] is c.a_fileobj \
            and ev[0].kwargs['UploadId'] is c.a_upload_id and ev[0].kwargs['PartNumber'] is c.a_part_number
        res = c.new.obj(c.result).items if isinstance(c.result, Ref) else {}
        etag_ok = okk and isinstance(res.get('ETag'), Opaque) and z3.eq(res['ETag'].term, resp_get(ev[0].result.term, z3.StringVal('ETag')))
        extra_keys = set(res) - {'ETag', 'PartNumber'}
        pres, _ = _mapmeta(c.old.st, c.a_extra_args)
        has_alg = z3.Select(pres, z3.StringVal('ChecksumAlgorithm'))
        return {
            'one_upload_part_for_this_part_number_and_body': (B(bool(okk)), ['C01', 'C05', 'C10']),
            'extra_args_forwarded_unmodified': (B(bool(okk) and splat_is(ev[0], c.old.st, c.a_extra_args)), ['C15']),
            'returns_etag_of_the_response_and_the_part_number': (B(bool(etag_ok) and res.get('PartNumber') is c.a_part_number), ['C01']),
            'part_checksum_only_with_an_algorithm_in_use': (implies(B(len(extra_keys) > 0), has_alg), ['C01']),
            'at_most_one_checksum_member': (B(len(extra_keys) <= 1), ['C01']),
            **checksum_member_clause(c, res, has_alg),
        }

    def _mapmeta(st, m):
        mm = st.obj(m).meta
        return mm['present'], mm['vals']

    R.contract(f'{UP}:UploadPartTask._main', props=['C01', 'C05', 'C10', 'C15'],
               params=dict(client=ExtT('client'), fileobj=ObjT(RFCq), bucket=ExtT('str'), key=ExtT('str'),
                           upload_id=ExtT('upload_id'), part_number=Int, extra_args=EXTRA),
               checks=part_checks, raises={'Exception': only_propagates}, raise_when={'Exception': lambda c: None},
               returns=ExtT('part'))

    # ================================================================== copy
    CST = f'{CP}:CopySubmissionTask'
    CP_PARAMS = dict(client=ExtT('client'), config=ObjT(CFG), osutil=Any, request_executor=ExtT('bounded_executor'),
                     transfer_future=ObjT(TF))
    R.mark_inline(f'{CST}._get_head_object_request_from_copy_source', f'{CST}._extra_upload_part_args',
                  f'{CST}._extra_complete_multipart_args', f'{CST}._get_transfer_size')
    for q in ('_submit_copy_request', '_submit_multipart_request'):
        R.contract(f'{CST}.{q}', params=dict(CP_PARAMS), raise_when={'Exception': lambda c: None},
                   requires=lambda c: [('transfer_size_is_known', z3.Not(is_none(c.old.f(c.old.f(c.a_transfer_future, '_meta'), '_size'))))])

    def map_arrays(eng, st, v):
        """(present, vals) of a str-keyed map value: symbolic map or concrete dict with str keys."""
        h = st.obj(v)
        if h.kind == 'smap':
            return h.meta['present'], h.meta['vals']
        pres = z3.K(z3.StringSort(), z3.BoolVal(False))
        vals = z3.K(z3.StringSort(), z3.Const('absent_val', U))
        for k, x in h.items.items():
            pres = z3.Store(pres, z3.StringVal(k), True)
            vals = z3.Store(vals, z3.StringVal(k), eng.as_u_term(x, st))
        return pres, vals

    def head_map_inv(l):
        eng = l.engine
        mapping = eng.class_attr(eng.repo.cls(CST), 'EXTRA_ARGS_TO_HEAD_ARGS_MAPPING', l.st)[0].val
        mapping = dict(l.st.obj(mapping).items)
        ep, ev_ = l.ghost['present0'], l.ghost['vals0']
        pos, idx = l.ghost['pos'], to_int_term(l.index)
        hp, hv = map_arrays(eng, l.st, l.local('head_object_request'))
        h0p, h0v = map_arrays(eng, l.pre, l.pre_local('head_object_request'))
        dsts = sorted(set(mapping.values()))
        out = {}
        for src, dst in sorted(mapping.items()):
            s_, d_ = z3.StringVal(src), z3.StringVal(dst)
            visited = z3.And(z3.Select(ep, s_), pos(s_) < idx)
            out[f'{src}_mapped_to_{dst}'] = z3.And(
                z3.Select(hp, d_) == z3.Or(visited, z3.Select(h0p, d_)),
                z3.Implies(visited, z3.Select(hv, d_) == z3.Select(ev_, s_)))
        out['nothing_else_added'] = z3.ForAll([kk_], z3.Implies(z3.And([kk_ != z3.StringVal(d) for d in dsts]), z3.And(
            z3.Select(hp, kk_) == z3.Select(h0p, kk_), z3.Select(hv, kk_) == z3.Select(h0v, kk_))))
        # C15 / C18: the mapped conditions are written into a request of the task's own, never into the caller's copy_source
        # (which is also what CopyObject / UploadPartCopy send as CopySource, and what a later copy of the same source reuses)
        cur = l.st.env.get('head_object_request')
        cs = l.st.env.get('call_args')
        user_cs = l.st.obj(cs).fields.get('copy_source') if isinstance(cs, Ref) else None
        out['head_request_is_not_the_callers_copy_source'] = B(not (isinstance(cur, Ref) and isinstance(user_cs, Ref) and cur.oid == user_cs.oid))
        return out

    def cp_submit_checks(c):
        tr = c.trace
        single, multi = calls(tr, '_submit_copy_request'), calls(tr, '_submit_multipart_request')
        head = exts(tr, 'client.head_object')
        size0 = c.old.f(c.old.f(c.a_transfer_future, '_meta'), '_size')
        size1 = optval(c.new.f(c.new.f(c.a_transfer_future, '_meta'), '_size'))
        thr = c.old.f(c.a_config, 'multipart_threshold')
        out = {
            'exactly_one_mode': (B(len(single) + len(multi) == 1), ['C14', 'C04']),
            # a size supplied by the user (e.g. during on_queued) suppresses the size-discovery request
            'head_object_iff_size_unknown': (z3.If(is_none(size0), B(len(head) == 1), B(len(head) == 0)), ['C08', 'C10']),
            'multipart_iff_size_at_least_threshold': ((size1 >= thr) if multi else (size1 < thr), ['C14']),
        }
        if head:
            cargs = c.old.f(c.old.f(c.a_transfer_future, '_meta'), '_call_args')
            out['head_object_goes_to_the_source_client'] = (B(head[0].recv is c.old.f(cargs, 'source_client')), ['C15'])
            sp = head[0].extra.get('splat')
            # C15: HeadObject receives Bucket/Key of the copy source plus exactly the mapped conditions / keys
            eng = c.engine
            mapping = dict(c.new.st.obj(eng.class_attr(eng.repo.cls(CST), 'EXTRA_ARGS_TO_HEAD_ARGS_MAPPING', c.new.st)[0].val).items)
            ep, ev_ = map_arrays(eng, c.old.st, c.old.f(cargs, 'extra_args'))
            cs = c.old.st.obj(c.old.f(cargs, 'copy_source')).items
            if sp is not None:
                conj = []
                for src, dst in mapping.items():
                    conj.append(z3.Select(sp['present'], z3.StringVal(dst)) == z3.Select(ep, z3.StringVal(src)))
                    conj.append(z3.Implies(z3.Select(ep, z3.StringVal(src)), z3.Select(sp['vals'], z3.StringVal(dst)) == z3.Select(ev_, z3.StringVal(src))))
                for k_, v_ in cs.items():
                    conj.append(z3.And(z3.Select(sp['present'], z3.StringVal(k_)), z3.Select(sp['vals'], z3.StringVal(k_)) == eng.as_u_term(v_, c.new.st)))
                names = [z3.StringVal(d) for d in set(mapping.values()) | set(cs)]
                conj.append(z3.ForAll([kk_], z3.Implies(z3.And([kk_ != n for n in names]), z3.Not(z3.Select(sp['present'], kk_)))))
                out['head_object_gets_source_bucket_key_and_mapped_arguments_only'] = (z3.And(conj), ['C15'])
            else:
                out['head_object_gets_source_bucket_key_and_mapped_arguments_only'] = (B(False), ['C15'])
        return out

    R.contract(
        f'{CST}._submit', props=['C14', 'C15', 'C08', 'C04', 'C10', 'C18'], params=dict(CP_PARAMS),
        checks=cp_submit_checks, raises={'Exception': only_propagates},
        loops={0: LoopSpec(invariant=head_map_inv, local_types={'head_object_request': EXTRA})},
    )

    def cp_single_checks(c):
        sub = submits(c.trace)
        okk = len(sub) == 1 and task_of(c, sub[0])[0] == 'CopyObjectTask' and is_final(c, sub[0]) \
            and sub[0].extra['env']['executor'] is c.a_request_executor and is_none(sub[0].extra['env']['tag']) is not None
        out = {'exactly_one_final_copy_object_task_to_the_request_executor': (B(bool(okk)), ['C04', 'C01', 'C10'])}
        if len(sub) == 1:
            mk = task_main_kwargs(c, sub[0])
            cargs = c.old.f(c.old.f(c.a_transfer_future, '_meta'), '_call_args')
            out['copies_the_users_source_to_the_users_destination'] = (B(
                mk.get('copy_source') is c.old.f(cargs, 'copy_source') and mk.get('bucket') is c.old.f(cargs, 'bucket')
                and mk.get('key') is c.old.f(cargs, 'key') and mk.get('client') is c.a_client
                and mk.get('extra_args') is c.old.f(cargs, 'extra_args')), ['C01', 'C15'])
            out['reports_the_whole_size'] = (B(mk.get('size') is c.old.f(c.old.f(c.a_transfer_future, '_meta'), '_size')), ['C09'])
        return out

    ccs = R.contracts[f'{CST}._submit_copy_request']
    ccs.checks, ccs.raises, ccs.props = cp_single_checks, {'Exception': only_propagates}, ('C01', 'C04', 'C09', 'C10', 'C15')
    ccs.setup = lambda eng, st, args, self_val: st.assume(z3.Not(st.obj(st.obj(args['transfer_future']).fields['_meta']).fields['_size'].is_none))

    # ---- multipart copy
    def cp_create_filter_inv(l):
        eng = l.engine
        bl = eng.class_attr(eng.repo.cls(CST), 'CREATE_MULTIPART_ARGS_BLACKLIST', l.st)[0].val
        bl = list(l.st.obj(bl).items)
        ep, ev_ = l.ghost['present0'], l.ghost['vals0']
        pos, e, idx = l.ghost['pos'], l.ghost['enum'], to_int_term(l.index)
        fp, fv = map_arrays(eng, l.st, l.local('create_multipart_extra_args'))
        allowed = lambda k: z3.And([k != z3.StringVal(b) for b in bl])
        return {
            'kept_entries_are_unblocked_originals': z3.ForAll([kk_], z3.Implies(z3.Select(fp, kk_), z3.And(
                z3.Select(ep, kk_), allowed(kk_), z3.Select(fv, kk_) == z3.Select(ev_, kk_), pos(kk_) < idx))),
            'every_visited_unblocked_key_is_kept': z3.ForAll([jj_], z3.Implies(
                z3.And(jj_ >= 0, jj_ < idx, allowed(z3.Select(e, jj_))), z3.Select(fp, z3.Select(e, jj_)))),
        }

    def cp_part_iteration(l0, l1, evs):
        st1 = l1.st
        env = st1.env
        sub = [e for e in evs if e.kind == 'call' and e.name == f'{TC}.submit']
        out = {'one_copy_part_task_per_part': (B(len(sub) == 1), ['C01', 'C05', 'C04'])}
        if len(sub) != 1:
            return out
        task = st1.obj(sub[0].extra['env']['task'])
        mk = st1.obj(task.fields['_main_kwargs']).items
        pk = st1.obj(task.fields['_pending_main_kwargs']).items
        pn = env['part_number']
        k0 = l0.st.obj(l0.st.env['part_futures'])
        n_before = to_int_term(k0.meta['len']) if k0.kind == 'slist' else z3.IntVal(len(k0.items))
        size, ps = optval(st1.obj(st1.obj(env['transfer_future']).fields['_meta']).fields['_size']), env['part_size']
        after = st1.obj(env['part_futures'])
        out['part_number_is_count_so_far_plus_one'] = (to_int_term(pn) == n_before + 1, ['C01', 'C14'])
        out['task_is_a_copy_part_task_not_final_waiting_for_the_upload_id'] = (B(
            task.cls.name == 'CopyPartTask' and mk.get('part_number') is pn and task.fields['_is_final'] is False
            and set(pk) == {'upload_id'} and pk['upload_id'] is env['create_multipart_future']
            and sub[0].extra['env']['executor'] is env['request_executor']
            and mk.get('copy_source') is st1.obj(env['call_args']).fields['copy_source']), ['C01', 'C05', 'C10'])
        out['part_future_appended_to_the_parts_list'] = (z3.And(
            to_int_term(after.meta['len']) == n_before + 1, z3.Select(after.meta['arr'], n_before) == sub[0].result.term), ['C01', 'C05'])
        # byte range of the part: [c(k-1), min(ck, size)) as a closed CopySourceRange; reported size == its length
        xp, xv = map_arrays(l1.engine, st1, mk['extra_args'])
        from .c14 import range_term
        lo = ps * (to_int_term(pn) - 1)
        hi = z3.If(lo + ps < size, lo + ps, size)
        out['copy_source_range_is_the_parts_window'] = (z3.And(
            z3.Select(xp, z3.StringVal('CopySourceRange')),
            z3.Select(xv, z3.StringVal('CopySourceRange')) == range_term(l1.engine, lo, hi - 1)), ['C01', 'C14'])
        out['reported_part_size_is_the_range_length'] = (to_int_term(mk['size']) == hi - lo, ['C09', 'C01'])
        return out

    def cp_parts_inv(l):
        h = l.st.obj(l.local('part_futures'))
        n = to_int_term(h.meta['len']) if h.kind == 'slist' else z3.IntVal(len(h.items))
        return {'one_future_per_part': n == to_int_term(l.index)}

    def cp_multi_checks(c):
        tr = c.trace
        sub = submits(tr)
        loops = [e for e in tr if e.kind == 'loop' and e.items and not isinstance(e.items[0], tuple)]
        out = dict(config_untouched(c, c.a_config))
        okshape = len(sub) == 2 and len(loops) >= 1 and index_of(tr, sub[0]) < index_of(tr, loops[-1]) < index_of(tr, sub[1])
        out['create_then_parts_then_complete'] = (B(bool(okshape)), ['C05', 'C04', 'C01'])
        if not okshape:
            return out
        cr, cm = sub
        env = c.new.st.env
        out['create_task_first_not_final'] = (B(task_of(c, cr)[0] == 'CreateMultipartUploadTask' and not is_final(c, cr)), ['C05'])
        pk = task_pending(c, cm)
        out['complete_task_is_the_single_final_task'] = (B(task_of(c, cm)[0] == 'CompleteMultipartUploadTask' and is_final(c, cm)
                                                           and cm.extra['env']['executor'] is c.a_request_executor), ['C05', 'C04', 'C10'])
        out['complete_depends_on_create_and_on_every_part_in_order'] = (B(
            set(pk) == {'upload_id', 'parts'} and pk['upload_id'] is cr.result and pk['parts'] is env['part_futures']), ['C05', 'C01', 'C04'])
        size = optval(c.new.f(c.new.f(c.a_transfer_future, '_meta'), '_size'))
        out['number_of_parts_is_ceil_size_over_part_size'] = (is_ceil_div(env['num_parts'], size, env['part_size']), ['C14', 'C01'])
        adj = calls(tr, 'ChunksizeAdjuster.adjust_chunksize')
        out['part_size_is_adjusted_configured_chunksize'] = (B(
            len(adj) == 1 and adj[0].extra['env']['current_chunksize'] is c.old.f(c.a_config, 'multipart_chunksize')
            and adj[0].result is env['part_size']), ['C14'])
        # C15 wiring: create gets the unblocked arguments
        eng = c.engine
        cargs = c.old.f(c.old.f(c.a_transfer_future, '_meta'), '_call_args')
        ep, ev_ = map_arrays(eng, c.old.st, c.old.f(cargs, 'extra_args'))
        bl = list(c.new.st.obj(eng.class_attr(eng.repo.cls(CST), 'CREATE_MULTIPART_ARGS_BLACKLIST', c.new.st)[0].val).items)
        fp, fv = map_arrays(eng, c.new.st, task_main_kwargs(c, cr)['extra_args'])
        out['create_gets_exactly_the_unblocked_arguments'] = (z3.ForAll([kk_], z3.And(
            z3.Select(fp, kk_) == z3.And(z3.Select(ep, kk_), z3.And([kk_ != z3.StringVal(b) for b in bl])),
            z3.Implies(z3.Select(fp, kk_), z3.Select(fv, kk_) == z3.Select(ev_, kk_)))), ['C15'])
        return out

    jj_ = z3.Int('jj_')
    ccm = R.contracts[f'{CST}._submit_multipart_request']
    ccm.checks, ccm.raises = cp_multi_checks, {'Exception': only_propagates}
    ccm.props = ('C01', 'C04', 'C05', 'C09', 'C10', 'C14', 'C15', 'C18')
    ccm.loops = {
        0: LoopSpec(invariant=cp_create_filter_inv, local_types={'create_multipart_extra_args': EXTRA}),
        1: LoopSpec(invariant=cp_parts_inv, local_types={'part_futures': FUTS}, iteration_checks=cp_part_iteration),
    }

    def cp_multi_setup(eng, st, args, self_val):
        size = st.obj(st.obj(args['transfer_future']).fields['_meta']).fields['_size']
        st.assume(z3.Not(size.is_none))
        st.assume(size.val <= 5 * TiB)
        st.assume(st.obj(args['config']).fields['multipart_chunksize'] < TWO53)
    ccm.setup = cp_multi_setup

    # ================================================================== download: GetObjectTask
    DOM = f'{DL}:DownloadOutputManager'
    DFN, DSK, DNS, DSP = (f'{DL}:DownloadFilenameOutputManager', f'{DL}:DownloadSeekableOutputManager',
                          f'{DL}:DownloadNonSeekableOutputManager', f'{DL}:DownloadSpecialFilenameOutputManager')
    R.add_fields(DOM, _osutil=ObjT(f'{UT}:OSUtils'), _transfer_coordinator=ObjT(TC, shared=True), _io_executor=ExtT('bounded_executor'))
    R.add_fields(DFN, _final_filename=OptT(ExtT('fileobj_or_name')), _temp_filename=OptT(ExtT('str')), _temp_fileobj=OptT(ExtT('destfile')))
    R.add_fields(DNS, _defer_queue=ObjT(f'{DL}:DeferQueue'), _io_submit_lock=LockT())
    R.add_fields(DSP, _fileobj=OptT(ExtT('destfile')))
    MGR_DL = {'download_output_manager': [('filename', ObjT(DFN)), ('seekable', ObjT(DSK)), ('nonseekable', ObjT(DNS)), ('special', ObjT(DSP))]}

    def dl_len(d):
        return to_int_term(d.hi) - to_int_term(d.lo)

    def streamed(st, fileobj):
        key = ('streamed', getattr(fileobj, 'label', str(fileobj)))
        if key not in st.ghost:
            v = z3.Int(fresh_name('streamed'))
            st.assume(v >= 0)
            st.ghost[key] = v
        return st.ghost[key]
    R.streamed = streamed

    DATA_AT_OFFSET = lambda c: [('data_is_the_objects_bytes_at_that_offset',
                                 z3.And(B(c.a_data.base == 'obj'), to_int_term(c.a_data.lo) == to_int_term(c.a_offset)), ['C02', 'C16'])]
    IO_PARAMS = dict(fileobj=ExtT('destfile'), data=BytesT('obj'), offset=Int)
    # offset-addressed destinations: a write puts data at its offset (idempotent when repeated)
    R.contract(f'{DOM}.queue_file_io_task', params=dict(IO_PARAMS), requires=DATA_AT_OFFSET,
               raise_when={'Exception': lambda c: None})
    R.contract(f'{DOM}.get_io_write_task', params=dict(IO_PARAMS), requires=DATA_AT_OFFSET, returns=ExtT('io_task'))
    R.external('io_task', **{'()': ExtSpec(raises=())})   # Task.__call__ never propagates (C03)

    # streaming destinations: the write task appends
    def ns_write_effects(c, st):
        key = ('streamed', c.a_fileobj.label)
        cur = streamed(st, c.a_fileobj)
        st.ghost[key] = z3.simplify(cur + dl_len(c.a_data))
        return Opaque(fresh_name('io_task'), kind='io_task')

    R.contract(f'{DNS}.get_io_write_task', params=dict(IO_PARAMS),
               requires=lambda c: [('appended_data_is_the_next_unwritten_bytes_of_the_object', z3.And(
                   B(c.a_data.base == 'obj'), to_int_term(c.a_data.lo) == streamed(c.old.st, c.a_fileobj)), ['C02', 'C16'])],
               effects=ns_write_effects)

    # immediate writes of streaming destinations go through the defer queue (each byte once, in order)
    R.mark_inline(f'{DOM}.get_io_write_tasks')
    TASKS_T = ListOfT(ExtT('io_task'), name='io_tasks')

    def released_eq_streamed(view, mgr, fileobj):
        q = view.obj(view.f(mgr, '_defer_queue'))
        return to_int_term(q.fields['_next_offset']) == streamed(view.st, fileobj)

    def ns_tasks_loop_inv(l):
        from .c16 import writes_view
        st = l.st
        n, off, lo, hi = writes_view(st, l.local('writes'))
        idx = to_int_term(l.index)
        nxt0 = l.ghost.setdefault('nxt0', streamed(l.pre, l.local('fileobj')))
        th = st.obj(l.local('tasks'))
        tl = to_int_term(th.meta['len']) if th.kind == 'slist' else z3.IntVal(len(th.items))
        return {
            'stream_position_follows_the_released_writes': streamed(st, l.local('fileobj')) == z3.If(idx == 0, nxt0, hi(idx - 1)),
            'one_task_per_released_write': tl == idx,
        }

    def ns_tasks_havoc(l):
        fo = l.local('fileobj')
        l.st.ghost[('streamed', fo.label)] = z3.Int(fresh_name('streamed'))

    def ns_tasks_post(c):
        return {
            'everything_released_is_written_in_order': released_eq_streamed(c.new, c.self, c.a_fileobj),
            'stream_only_grows': streamed(c.new.st, c.a_fileobj) >= streamed(c.old.st, c.a_fileobj),
        }

    def ns_tasks_effects(c, st):
        key = ('streamed', c.a_fileobj.label)
        st.ghost[key] = z3.Int(fresh_name('streamed'))
        q = st.obj(st.obj(c.self).fields['_defer_queue'])
        q.fields['_next_offset'] = z3.Int(fresh_name('next_offset'))
        return c.engine.make_symbolic(TASKS_T, 'io_tasks', st)

    R.contract(
        f'{DNS}.get_io_write_tasks', props=['C02', 'C16'], params=dict(IO_PARAMS),
        requires=lambda c: DATA_AT_OFFSET(c) + [('released_so_far_is_what_was_written', released_eq_streamed(c.old, c.self, c.a_fileobj), ['C02', 'C16'])],
        setup=lambda eng, st, args, self_val: streamed(st, args['fileobj']),
        ensures=ns_tasks_post, effects=ns_tasks_effects, raises={},
        loops={0: LoopSpec(invariant=ns_tasks_loop_inv, havoc_heap=ns_tasks_havoc, local_types={'tasks': TASKS_T})},
    )
    # immediate writes: every write task that was built is run, once, right away
    R.contract(f'{DL}:ImmediatelyWriteIOGetObjectTask._handle_io', params={}, inline=True, loops={0: LoopSpec(
        invariant=lambda l: {}, iteration_checks=lambda l0, l1, evs: {'each_write_task_is_run_exactly_once': (B(
            len([e for e in evs if e.kind == 'ext' and e.name == 'io_task.()']) == 1), ['C02', 'C16'])})})

    # queued writes of streaming destinations: the defer queue releases what is next, and the released writes are
    # handed to the single-threaded IO executor INSIDE the critical section that released them -- otherwise two request
    # threads could submit their releases in the wrong order (C10: writes performed in the order they were queued)
    def ns_queue_loop_inv(l):
        from .c16 import writes_view
        st = l.st
        n, off, lo, hi = writes_view(st, l.local('writes'))
        idx = to_int_term(l.index)
        nxt0 = l.ghost.setdefault('nxt0', streamed(l.pre, l.local('fileobj')))
        return {'stream_position_follows_the_released_writes': streamed(st, l.local('fileobj')) == z3.If(idx == 0, nxt0, hi(idx - 1))}

    def ns_queue_iteration(l0, l1, evs):
        sub = [e for e in evs if e.kind == 'call' and e.name == f'{TC}.submit']
        lk = l1.st.obj(l1.st.env['$self']).fields['_io_submit_lock']
        okk = len(sub) == 1 and sub[0].extra['env']['executor'] is l1.st.obj(l1.st.env['$self']).fields['_io_executor']
        return {
            'one_write_task_per_released_write_to_the_io_executor': (B(bool(okk)), ['C10', 'C02']),
            'submitted_while_holding_the_io_submit_lock': (B(all(lk.oid in e.held for e in sub)), ['C10', 'C16', 'C02']),
        }

    def ns_queue_checks(c):
        tr = c.trace
        lk = c.oldf('_io_submit_lock')
        locks = [e for e in tr if e.kind == 'lock' and e.recv is not None and getattr(e.recv, 'oid', None) == lk.oid]
        unlocks = [e for e in tr if e.kind == 'unlock' and e.recv is not None and getattr(e.recv, 'oid', None) == lk.oid]
        rw = calls(tr, 'DeferQueue.request_writes')
        loops = [e for e in tr if e.kind == 'loop']
        return {'release_and_submission_form_one_critical_section': (B(
            len(locks) == 1 and len(unlocks) == 1 and len(rw) == 1 and len(loops) == 1
            and index_of(tr, locks[0]) < index_of(tr, rw[0]) < index_of(tr, loops[0]) < index_of(tr, unlocks[0])), ['C10', 'C16', 'C02'])}

    def ns_queue_effects(c, st):
        st.ghost[('streamed', c.a_fileobj.label)] = z3.Int(fresh_name('streamed'))
        q = st.obj(st.obj(c.self).fields['_defer_queue'])
        q.fields['_next_offset'] = z3.Int(fresh_name('next_offset'))
        return None

    R.contract(
        f'{DNS}.queue_file_io_task', props=['C02', 'C10', 'C16'], params=dict(IO_PARAMS),
        requires=lambda c: DATA_AT_OFFSET(c) + [('released_so_far_is_what_was_written', released_eq_streamed(c.old, c.self, c.a_fileobj), ['C02', 'C16'])],
        setup=lambda eng, st, args, self_val: streamed(st, args['fileobj']),
        ensures=ns_tasks_post, checks=ns_queue_checks, effects=ns_queue_effects,
        raises={'Exception': only_propagates}, raise_when={'Exception': lambda c: None},
        raise_effects={'Exception': lambda c, st, exc: (ns_queue_effects(c, st), exc)[1]},
        inline_callees=[f'{DOM}.queue_file_io_task'],
        loops={0: LoopSpec(invariant=ns_queue_loop_inv, havoc_heap=ns_tasks_havoc, iteration_checks=ns_queue_iteration,
                           local_types={'data': BytesT('obj')})},
    )

    # the response body of one GetObject attempt: obj[start : start+blen], read in pieces of ANY size
    RETRYABLE = ('socket.timeout', 'botocore.exceptions.IncompleteReadError')

    def body_state(st, recv):
        key = ('body', recv.label)
        if key not in st.ghost:
            ln = z3.Int(fresh_name('body_len'))
            st.assume(ln >= 0)
            st.ghost[key] = {'pos': z3.IntVal(0), 'len': ln, 'start': st.ghost['get_object_start']}
        else:
            st.ghost[key] = dict(st.ghost[key])
        return st.ghost[key]
    R.body_state = body_state

    def body_read(eng, st, recv, args, kwargs):
        g = body_state(st, recv)
        amt = to_int_term(args[0])
        n = z3.Int(fresh_name('nread'))
        rem = g['len'] - g['pos']
        # network reads return anything from 1 byte to the requested amount; 0 only at the end of the body
        st.assume(z3.And(n >= 0, n <= amt, n <= rem, z3.Implies(z3.And(rem > 0, amt > 0), n > 0)))
        from pyvc.values import BytesV
        d = BytesV('obj', z3.simplify(g['start'] + g['pos']), z3.simplify(g['start'] + g['pos'] + n))
        g['pos'] = z3.simplify(g['pos'] + n)
        return d

    R.external('respdict', read=ExtSpec(returns=body_read, raises=RETRYABLE + ('Exception',)))
    R.add_fields(f'{UT}:StreamReaderProgress', _stream=ExtT('respdict'), _callbacks=ListOfT(ExtT('progress_cb')))
    R.add_fields(f'{DL}:DownloadChunkIterator', _body=ObjT(f'{UT}:StreamReaderProgress'), _chunksize=Int, _num_reads=Int)
    R.mark_inline(f'{UT}:StreamReaderProgress.__init__', f'{UT}:StreamReaderProgress.read',
                  f'{DL}:DownloadChunkIterator.__init__', f'{DL}:DownloadChunkIterator.__iter__',
                  f'{DL}:DownloadChunkIterator.__next__', f'{DL}:GetObjectTask._handle_io')
    R.contract('s3transfer.bandwidth:BandwidthLimitedStream.read', params=dict(amount=Int), returns=BytesT('obj'),
               raise_when={'Exception': lambda c: None}, inline=True)

    GOT = f'{DL}:GetObjectTask'
    DCI = f'{DL}:DownloadChunkIterator'

    def dci_setup(eng, st, args, self_val):
        st.ghost['get_object_start'] = z3.IntVal(0)
        st.assume(st.obj(self_val).fields['_num_reads'] >= 0)
        st.assume(st.obj(self_val).fields['_chunksize'] > 0)

    R.contract(
        f'{DCI}.__next__', props=['C02'], params={}, inline=True, setup=dci_setup,
        ensures=lambda c: {
            'one_more_read': c.newf('_num_reads') == c.oldf('_num_reads') + 1,
            # even an empty object delivers one (empty) chunk, so that its destination gets created
            'yields_data_or_the_single_empty_chunk_of_an_empty_object': z3.Or(
                dl_len(c.result) > 0, c.newf('_num_reads') == 1),
        },
        raises={'StopIteration': lambda c: {'only_after_the_first_read_and_at_end_of_body': c.newf('_num_reads') > 1},
                'Exception': only_propagates, 'socket.timeout': lambda c: {}},
    )

    def body_of_attempt(st):
        keys = [k for k in st.ghost if isinstance(k, tuple) and k[0] == 'body']
        return st.ghost[keys[-1]] if keys else None

    def ensure_body(l):
        """The ghost of the current attempt's body exists from the moment the iterator is built."""
        st = l.st
        sb = st.env['streaming_body']
        if isinstance(sb, Ref) and st.obj(sb).kind == 'obj' and st.obj(sb).cls.name == 'BandwidthLimitedStream':
            sb = st.obj(sb).fields['_fileobj']      # the limiter's wrapper around the response body reader
        stream = st.obj(sb).fields['_stream'] if isinstance(sb, Ref) and st.obj(sb).kind == 'obj' else None
        if isinstance(stream, Opaque):
            body_state(st, stream)
            if l.pre is not None and ('body', stream.label) not in l.pre.ghost:
                l.pre.ghost[('body', stream.label)] = dict(st.ghost[('body', stream.label)])

    def got_inner_inv(l):
        if body_of_attempt(l.st) is None:
            ensure_body(l)
        g = body_of_attempt(l.st)
        out = {'write_position_tracks_body_position': to_int_term(l.local('current_index')) == to_int_term(l.local('start_index')) + g['pos'],
               'body_position_in_range': z3.And(g['pos'] >= 0, g['pos'] <= g['len']),
               # C09: the running progress total of this download task equals the bytes delivered in this attempt
               'progress_total_equals_bytes_delivered_in_this_attempt': to_int_term(l.st.ghost['reported']) == g['pos']}
        out.update(stream_link(l.st))
        return out

    def got_inner_havoc(l):
        keys = [k for k in l.st.ghost if isinstance(k, tuple) and k[0] == 'body']
        g = dict(l.st.ghost[keys[-1]])
        g['pos'] = z3.Int(fresh_name('body_pos'))
        l.st.ghost[keys[-1]] = g
        havoc_stream_link(l)
        it = l.ghost.get('iterator')
        if it is not None:
            l.st.obj(it).fields['_num_reads'] = z3.Int(fresh_name('num_reads'))

    def got_inner_iteration(l0, l1, evs):
        g0, g1 = body_of_attempt(l0.st), body_of_attempt(l1.st)
        io = [e for e in evs if e.kind == 'call' and (e.name.endswith('queue_file_io_task') or e.name.endswith('get_io_write_task'))]
        io_any = [e for e in evs if e.kind == 'call' and e.name.endswith(('queue_file_io_task', 'get_io_write_task', 'get_io_write_tasks'))]
        rd = [e for e in evs if e.kind == 'ext' and e.name == 'respdict.read']
        # immediate mode: the write tasks built for this chunk are run right here (concretely built ones; the symbolic
        # list of a streaming destination is covered by the loop contract of _handle_io)
        built = [e.result for e in evs if e.kind == 'call' and e.name.endswith('get_io_write_task') and isinstance(e.result, Opaque)]
        ran = [e.recv for e in evs if e.kind == 'ext' and e.name == 'io_task.()']
        immediate = l1.st.obj(l1.st.env['$self']).cls.name == 'ImmediatelyWriteIOGetObjectTask' if '$self' in l1.st.env else False
        out = {'one_network_read_per_chunk': (B(len(rd) == 1), ['C02']),
               'immediate_write_tasks_are_run_once_each': (B((not immediate) or all(sum(1 for r in ran if r is t) == 1 for t in built)), ['C02', 'C16']),
               # a completed iteration is one whose chunk was accepted (the transfer was not done): it is handed to IO
               'every_accepted_chunk_is_handed_to_io_exactly_once': (B(len(io_any) == 1), ['C02', 'C16']),
               # C10 / C16: "the writes to any one destination are performed by one thread at a time in the order they were
               # queued": except in the immediate-write task (a single GetObject feeds the destination) a request thread
               # never runs a write task itself -- the chunk goes to the IO executor
               'a_queued_download_never_writes_in_the_request_thread': (B(immediate or not [
                   e for e in flat(evs) if e.kind == 'ext' and e.name in ('io_task.()', 'destfile.write', 'destfile.seek')]), ['C10', 'C16', 'C02'])}
        if len(io) == 1:
            env = io[0].extra['env']
            d = env['data']
            out['chunk_goes_to_io_at_start_index_plus_prefix_delivered'] = (z3.And(
                to_int_term(env['offset']) == to_int_term(l0.st.env['start_index']) + g0['pos'],
                to_int_term(d.lo) == g0['start'] + g0['pos'], to_int_term(d.hi) == g1['start'] + g1['pos'],
                B(env['fileobj'] is l1.st.env['fileobj'])), ['C02', 'C16'])
        # C09: progress reported in this iteration == bytes read
        from .a_windows import reported
        out['progress_reported_equals_bytes_read'] = (reported(evs) == g1['pos'] - g0['pos'], ['C09'])
        ipc = [e for e in evs if e.kind == 'call' and e.name.endswith('invoke_progress_callbacks')]
        out['progress_goes_to_the_transfers_own_callbacks'] = (B(bool(ipc) and all(e.extra['env']['callbacks'] is l1.st.env['callbacks'] for e in ipc)), ['C09'])
        out['at_most_one_io_request_per_chunk'] = (B(len(io) <= 1), ['C02'])
        out['chunk_not_larger_than_io_chunksize'] = (g1['pos'] - g0['pos'] <= to_int_term(l1.st.env['io_chunksize']), ['C11'])
        return out

    def got_outer_iteration(l0, l1, evs):
        """A completed outer iteration is one attempt that ended in a retryable stream error."""
        from .a_windows import reported
        go = [e for e in flat(evs) if e.kind == 'ext' and e.name == 'client.get_object']
        rb = [e for e in evs if e.kind == 'call' and e.name.endswith('invoke_progress_callbacks')]
        return {
            **retry_clauses(l1.engine, evs, ['C03']),
            'one_get_object_per_attempt': (B(len(go) == 1), ['C03', 'C02']),
            # progress of the abandoned attempt is taken back: exactly start_index - current_index
            'abandoned_attempt_progress_is_taken_back': (B(len(rb) >= 1) if not rb else (
                to_int_term(rb[-1].extra['env']['bytes_transferred']) ==
                to_int_term(l1.st.env['start_index']) - to_int_term(l1.st.env['current_index'])), ['C09']),
        }

    STREAM_ERRORS = ('socket.timeout', 'ConnectionError', 'botocore.exceptions.ReadTimeoutError',
                     'botocore.exceptions.IncompleteReadError', 'botocore.exceptions.ResponseStreamingError')

    def is_stream_error(eng, exc):
        return any(eng.exc_is_subclass(exc.cls, b) for b in STREAM_ERRORS)
    R.is_stream_error = is_stream_error

    def retry_clauses(eng, evs, props):
        """C03, for a completed iteration of a retry loop (= an attempt that was abandoned and is retried): every
        exception that ended it is a stream-level error -- never e.g. a file-system OSError of the destination or an
        error of a user callback.  One clause per exception class seen."""
        out = {}
        for e in flat(evs):
            x = e.extra.get('raised') if e.kind in ('ext', 'call') else None
            if x is not None and x.cls != '$stored':
                # (an exception of unknown class re-raised from the coordinator is retried only on the path where the
                # handler's class test matched it, i.e. where it IS of a retryable class)
                out[f'only_retryable_stream_errors_are_retried.{x.cls}'] = (B(is_stream_error(eng, x)), props)
        return out
    R.retry_clauses = retry_clauses

    def budget_clause(c, bound, props):
        """C03: the retry loop runs over range(<attempt budget>): at most that many attempts / requests."""
        loops = [e for e in c.trace if e.kind == 'loop']
        okk = False
        goal = B(False)
        if loops and isinstance(loops[0].iterable, Ref):
            h = c.new.obj(loops[0].iterable)
            if h.kind == 'range':
                goal = z3.And(to_int_term(h.meta['lo']) == 0, to_int_term(h.meta['hi']) == to_int_term(bound))
        return {'attempts_bounded_by_the_configured_budget': (goal, props)}
    R.budget_clause = budget_clause

    def got_outer_havoc(l):
        havoc_stream_link(l)

    def is_streaming(st, mgr):
        return isinstance(mgr, Ref) and st.obj(mgr).kind == 'obj' and st.obj(mgr).cls.name in (
            'DownloadNonSeekableOutputManager', 'DownloadSpecialFilenameOutputManager')

    def stream_link(st):
        """For streaming destinations: what the defer queue released is what the stream received."""
        mgr = st.env.get('download_output_manager')
        if not is_streaming(st, mgr):
            return {}
        from pyvc.contracts import View
        return {'released_by_the_queue_is_what_the_stream_received': released_eq_streamed(View(None, st), mgr, st.env['fileobj'])}

    def havoc_stream_link(l):
        st = l.st
        mgr = st.env.get('download_output_manager')
        if is_streaming(st, mgr):
            st.ghost[('streamed', st.env['fileobj'].label)] = z3.Int(fresh_name('streamed'))
            q = st.obj(st.obj(mgr).fields['_defer_queue'])
            q.fields['_next_offset'] = z3.Int(fresh_name('next_offset'))

    def got_setup(eng, st, args, self_val):
        st.ghost['reported'] = z3.IntVal(0)
        streamed(st, args['fileobj'])
        mgr = args['download_output_manager']
        if is_streaming(st, mgr):
            from pyvc.contracts import View
            st.assume(released_eq_streamed(View(eng, st), mgr, args['fileobj']))
        st.ghost['get_object_start'] = to_int_term(args['start_index'])
        st.assume(args['start_index'] >= 0)
        st.assume(args['max_attempts'] > 0)
        st.assume(args['io_chunksize'] > 0)

    def got_checks(c):
        tr = c.trace
        done_reads = [e for e in flat(tr) if e.kind == 'read' and e.name == '_status']
        g = body_of_attempt(c.new.st)
        from .a_common import DONE, status_in
        stopped_by_done = z3.Or([status_in(e.result, DONE) for e in done_reads[-1:]]) if done_reads else B(False)
        out = {
            # success (normal return) either because the transfer was already done elsewhere, or the last
            # attempt delivered its whole body
            'normal_return_means_whole_body_delivered_or_transfer_done': (
                z3.Or(stopped_by_done, g['pos'] == g['len']) if g is not None else B(False), ['C02', 'C03']),
            'successful_part_reported_exactly_its_size': (
                z3.Or(stopped_by_done, to_int_term(c.new.st.ghost['reported']) == g['len']) if g is not None else B(False), ['C09']),
        }
        out.update(budget_clause(c, c.a_max_attempts, ['C03']))
        # C13: with a bandwidth limiter the body is read through the manager's shared leaky bucket (limiting on, tied to this
        # transfer's coordinator so a cancelled transfer stops waiting); without one it is read directly
        ch = c.new.st.env.get('chunks')
        if isinstance(ch, Ref) and c.new.obj(ch).kind == 'obj':
            body = c.new.obj(ch).fields.get('_body')
            bh = c.new.obj(body) if isinstance(body, Ref) and c.new.obj(body).kind == 'obj' else None
            lim = c.a_bandwidth_limiter
            if lim is None:
                out['unlimited_download_reads_the_response_body_directly'] = (B(bh is not None and bh.cls.name == 'StreamReaderProgress'), ['C13', 'C02'])
            else:
                okl = bh is not None and bh.cls.name == 'BandwidthLimitedStream' and bh.fields.get('_leaky_bucket') is c.new.obj(lim).fields.get('_leaky_bucket') \
                    and bh.fields.get('_transfer_coordinator') is c.oldf('_transfer_coordinator') and bh.fields.get('_bandwidth_limiting_enabled') is True \
                    and isinstance(bh.fields.get('_fileobj'), Ref) and c.new.obj(bh.fields['_fileobj']).cls.name == 'StreamReaderProgress'
                out['limited_download_reads_through_the_shared_leaky_bucket'] = (B(bool(okl)), ['C13'])
        return out

    def got_raises_retries(c):
        loops = [e for e in c.trace if e.kind == 'loop']
        return {'only_after_the_attempt_budget_is_used_up': (B(
            len(loops) >= 1 and c.trace and c.trace[-1].kind == 'raise'), ['C03']),
            'wraps_the_last_stream_error': (B('last_exception' in c.exc.attrs), ['C03']),
            **budget_clause(c, c.a_max_attempts, ['C03'])}

    R.contract(
        f'{GOT}._main', props=['C02', 'C03', 'C09', 'C16', 'C10', 'C13', 'C15'],
        params=dict(client=ExtT('client'), bucket=ExtT('str'), key=ExtT('str'), fileobj=ExtT('destfile'), extra_args=EXTRA,
                    callbacks=ListOfT(ExtT('progress_cb')), max_attempts=Int, download_output_manager=Any, io_chunksize=Int,
                    start_index=Int, bandwidth_limiter=Const(None)),
        param_alternatives=dict(MGR_DL, self=[('queued', ObjT(GOT)), ('immediate', ObjT(f'{DL}:ImmediatelyWriteIOGetObjectTask'))],
                                bandwidth_limiter=[('unlimited', Const(None)), ('limited', ObjT('s3transfer.bandwidth:BandwidthLimiter'))]),
        inline_callees=['s3transfer.bandwidth:BandwidthLimitedStream.read'],
        setup=got_setup, checks=got_checks,
        # ($stored: a throttled read re-raises the exception another thread recorded for the transfer)
        raises={'s3transfer.exceptions:RetriesExceededError': got_raises_retries, 'Exception': only_propagates, '$stored': only_propagates},
        raise_when={'Exception': lambda c: None},
        loops={0: LoopSpec(invariant=lambda l: dict(stream_link(l.st), abandoned_attempts_net_to_zero_progress=to_int_term(l.st.ghost['reported']) == 0),
                           iteration_checks=got_outer_iteration, havoc_heap=got_outer_havoc,
                           local_types={'last_exception': OptT(ExtT('exception')), 'current_index': Int}),
               1: LoopSpec(invariant=got_inner_inv, havoc_heap=got_inner_havoc, iteration_checks=got_inner_iteration)},
    )

    # ================================================================== download submission
    DST = f'{DL}:DownloadSubmissionTask'
    OSU = f'{UT}:OSUtils'
    DL_PARAMS = dict(client=ExtT('client'), config=ObjT(CFG), osutil=ObjT(OSU), request_executor=ExtT('bounded_executor'),
                     io_executor=ExtT('bounded_executor'), transfer_future=ObjT(TF))
    BWL_T = OptT(ObjT('s3transfer.bandwidth:BandwidthLimiter'))
    R.contract(f'{OSU}.is_special_file', params=dict(filename=ExtT('fileobj_or_name')), events=False,
               returns=lambda c, st: c.engine.opaque_pred(c.a_filename, 'is_special_file'))
    R.contract(f'{OSU}.get_temp_filename', params=dict(filename=ExtT('fileobj_or_name')),
               returns=lambda c, st: Opaque(z3.Function('temp_name_of', U, U)(c.a_filename.term), kind='str', label='temp(' + c.a_filename.label + ')'))
    for cls in (DFN, DSK, DNS, DSP):
        R.mark_inline(f'{cls}.is_compatible', f'{cls}.__init__', f'{cls}.get_fileobj_for_io_writes', f'{cls}.get_final_io_task',
                      f'{cls}.get_download_task_tag')
    R.mark_inline(f'{DOM}.__init__', f'{DOM}.get_download_task_tag', f'{DOM}._get_fileobj_from_filename', f'{DFN}._get_temp_fileobj',
                  f'{DST}._get_download_output_manager_cls', f'{DST}._get_final_io_task_submission_callback',
                  f'{DL}:CompleteDownloadNOOPTask.__init__')
    for q in ('_submit_download_request', '_submit_ranged_download_request'):
        R.contract(f'{DST}.{q}', params=dict(DL_PARAMS, download_output_manager=Any, bandwidth_limiter=BWL_T),
                   requires=lambda c: [('transfer_size_is_known', z3.Not(is_none(c.old.f(c.old.f(c.a_transfer_future, '_meta'), '_size'))))],
                   raise_when={'Exception': lambda c: None})

    def dl_submit_checks(c):
        tr = c.trace
        single, multi = calls(tr, '_submit_download_request'), calls(tr, '_submit_ranged_download_request')
        head = exts(tr, 'client.head_object')
        meta0 = c.old.f(c.a_transfer_future, '_meta')
        cargs = c.old.f(meta0, '_call_args')
        size0 = c.old.f(meta0, '_size')
        size1 = optval(c.new.f(c.new.f(c.a_transfer_future, '_meta'), '_size'))
        thr = c.old.f(c.a_config, 'multipart_threshold')
        fo = c.old.f(cargs, 'fileobj')
        eng = c.engine
        out = {
            'exactly_one_mode': (B(len(single) + len(multi) == 1), ['C14', 'C04']),
            'head_object_iff_size_unknown': (z3.If(is_none(size0), B(len(head) == 1), B(len(head) == 0)), ['C08', 'C10']),
            'ranged_iff_size_at_least_threshold': ((size1 >= thr) if multi else (size1 < thr), ['C14']),
        }
        if head:
            sp = head[0].extra.get('splat')
            m = c.old.st.obj(c.old.f(cargs, 'extra_args')).meta
            out['head_object_gets_bucket_key_and_the_users_extra_args'] = (B(
                head[0].recv is c.a_client and head[0].kwargs.get('Bucket') is c.old.f(cargs, 'bucket')
                and head[0].kwargs.get('Key') is c.old.f(cargs, 'key') and sp is not None
                and sp['present'].eq(m['present']) and sp['vals'].eq(m['vals'])), ['C15'])
        ev = single + multi
        if len(ev) == 1:
            cls = c.new.obj(ev[0].extra['env']['download_output_manager']).cls.name
            is_str = eng.opaque_pred(fo, 'is_str')
            special = z3.And(is_str, eng.opaque_pred(fo, 'is_special_file'))
            want = z3.If(special, B(cls == 'DownloadSpecialFilenameOutputManager'),
                         z3.If(is_str, B(cls == 'DownloadFilenameOutputManager'),
                               z3.If(eng.opaque_pred(fo, 'is_seekable'), B(cls == 'DownloadSeekableOutputManager'),
                                     B(cls == 'DownloadNonSeekableOutputManager'))))
            out['output_manager_matches_destination_kind'] = (want, ['C02', 'C06', 'C11'])
        return out

    R.contract(
        f'{DST}._submit', props=['C14', 'C15', 'C08', 'C04', 'C10', 'C02', 'C06', 'C11'],
        params=dict(DL_PARAMS, bandwidth_limiter=BWL_T), checks=dl_submit_checks,
        inline_callees=[f'{DL}:DeferQueue.__init__'],
        raises={'RuntimeError': unsupported_target, 'Exception': only_propagates},
    )

    # ---- single GET
    def final_task_facts(c, view, task):
        """(class name, is_final) of a final IO task object."""
        h = view.obj(task)
        return h.cls.name, h.fields['_is_final'] is True

    def cleanup_regs(tr):
        return calls(tr, 'TransferCoordinator.add_failure_cleanup')

    def temp_file_facts(c, mgr_cls, tr, fileobj, cargs):
        """C06: path destinations write to a temp file next to the final name; close + remove are registered
        as failure cleanups before anything can touch the file."""
        out = {}
        regs = cleanup_regs(tr)
        if fileobj is None:                        # a path on which no output file object was obtained at all
            out['output_file_object_obtained_from_the_output_manager'] = (B(False), ['C06', 'C04'])
            return out
        if mgr_cls == 'DownloadFilenameOutputManager':
            fh = c.new.obj(fileobj)
            final = c.old.f(cargs, 'fileobj')
            tmp = fh.fields.get('_filename')
            ok_tmp = fh.cls.name == 'DeferredOpenFile' and isinstance(tmp, Opaque) and z3.eq(
                tmp.term, z3.Function('temp_name_of', U, U)(final.term)) and fh.fields.get('_mode') == 'wb'
            out['writes_go_to_the_temp_file_of_the_destination'] = (B(bool(ok_tmp)), ['C06'])
            fns = [r.extra['env']['function'] for r in regs]
            okc = len(regs) == 2 and isinstance(fns[0], BoundMethod) and fns[0].self_val == fileobj and fns[0].finfo.name == 'close' \
                and isinstance(fns[1], BoundMethod) and fns[1].finfo.name == 'remove_file' and regs[1].extra['env']['args'] == (tmp,)
            out['close_and_remove_temp_registered_as_failure_cleanups'] = (B(bool(okc)), ['C06', 'C05'])
        elif mgr_cls == 'DownloadSpecialFilenameOutputManager':
            fns = [r.extra['env']['function'] for r in regs]
            out['close_registered_as_failure_cleanup'] = (B(len(regs) == 1 and isinstance(fns[0], BoundMethod) and fns[0].finfo.name == 'close'), ['C06'])
        else:
            out['no_files_created_for_stream_destinations'] = (B(len(regs) == 0), ['C06'])
        return out

    def expected_final(mgr_cls):
        return {'DownloadFilenameOutputManager': 'IORenameFileTask', 'DownloadSeekableOutputManager': 'CompleteDownloadNOOPTask',
                'DownloadNonSeekableOutputManager': 'CompleteDownloadNOOPTask', 'DownloadSpecialFilenameOutputManager': 'IOCloseTask'}[mgr_cls]

    def dl_single_checks(c):
        tr = c.trace
        sub = submits(tr)
        out = {'exactly_one_get_object_task_submitted': (B(len(sub) == 1), ['C04', 'C02', 'C10'])}
        if len(sub) != 1:
            return out
        name, th = task_of(c, sub[0])
        mk = task_main_kwargs(c, sub[0])
        cargs = c.old.f(c.old.f(c.a_transfer_future, '_meta'), '_call_args')
        mgr_cls = c.new.obj(c.a_download_output_manager).cls.name
        dcb = th.fields['_done_callbacks']
        dcbs = c.new.obj(dcb).items if isinstance(dcb, Ref) else []
        out['immediate_write_task_to_the_request_executor_not_final'] = (B(
            name == 'ImmediatelyWriteIOGetObjectTask' and th.fields['_is_final'] is False
            and sub[0].extra['env']['executor'] is c.a_request_executor), ['C10', 'C04'])
        okf = len(dcbs) == 1 and isinstance(dcbs[0], Ref)
        if okf:
            fname, ffinal = final_task_facts(c, c.new, dcbs[0])
            okf = ffinal and fname == expected_final(mgr_cls)
        out['single_final_io_task_runs_when_the_get_object_task_is_done'] = (B(bool(okf)), ['C04', 'C06', 'C08'])
        out['requests_the_users_object_with_the_users_extra_args'] = (B(
            mk.get('bucket') is c.old.f(cargs, 'bucket') and mk.get('key') is c.old.f(cargs, 'key') and mk.get('client') is c.a_client
            and mk.get('extra_args') is c.old.f(cargs, 'extra_args')), ['C02', 'C15'])
        out['attempt_budget_and_chunk_size_from_config'] = (B(
            mk.get('max_attempts') is c.old.f(c.a_config, 'num_download_attempts') and mk.get('io_chunksize') is c.old.f(c.a_config, 'io_chunksize')
            and 'start_index' not in mk and mk.get('download_output_manager') is c.a_download_output_manager), ['C03', 'C02', 'C11'])
        out['get_object_task_gets_the_transfers_bandwidth_limiter'] = (B(mk.get('bandwidth_limiter') is c.a_bandwidth_limiter), ['C13'])
        tag = sub[0].extra['env']['tag']
        streaming = mgr_cls in ('DownloadNonSeekableOutputManager', 'DownloadSpecialFilenameOutputManager')
        out['stream_destinations_use_the_in_memory_download_tag'] = (z3.Not(is_none(tag)) == B(streaming), ['C11', 'C10'])
        out.update(temp_file_facts(c, mgr_cls, tr, mk.get('fileobj'), cargs))
        regs = cleanup_regs(tr)
        out['cleanups_registered_before_the_task_is_submitted'] = (B(all(index_of(tr, r) < index_of(tr, sub[0]) for r in regs)), ['C06'])
        if okf and mgr_cls == 'DownloadFilenameOutputManager':
            fmk = c.new.obj(c.new.obj(dcbs[0]).fields['_main_kwargs']).items
            out['rename_targets_the_destination_from_the_temp_file'] = (B(
                fmk.get('fileobj') is mk.get('fileobj') and fmk.get('final_filename') is c.old.f(cargs, 'fileobj')), ['C06'])
        return out

    cds = R.contracts[f'{DST}._submit_download_request']
    cds.checks, cds.raises = dl_single_checks, {'Exception': only_propagates}
    cds.param_alternatives = MGR_DL
    cds.props = ('C02', 'C03', 'C04', 'C06', 'C08', 'C10', 'C11', 'C13', 'C15', 'C05')
    cds.setup = lambda eng, st, args, self_val: st.assume(z3.Not(st.obj(st.obj(args['transfer_future']).fields['_meta']).fields['_size'].is_none))

    # ---- ranged download
    CCIq = f'{UT}:CountCallbackInvoker'
    R.mark_inline(f'{CCIq}.__init__')

    def dl_ranged_iteration(l0, l1, evs):
        st1 = l1.st
        env = st1.env
        sub = [e for e in evs if e.kind == 'call' and e.name == f'{TC}.submit']
        inc = [e for e in evs if e.kind == 'call' and e.name == f'{CCIq}.increment']
        out = {'one_get_object_task_and_one_increment_per_part': (B(len(sub) == 1 and len(inc) == 1
                                                                    and index_of(evs, inc[0]) < index_of(evs, sub[0])), ['C02', 'C04'])}
        if len(sub) != 1:
            return out
        task = st1.obj(sub[0].extra['env']['task'])
        mk = st1.obj(task.fields['_main_kwargs']).items
        i = to_int_term(l0.index)
        ps, n = env['part_size'], env['num_parts']
        dcbs = st1.obj(task.fields['_done_callbacks']).items
        out['task_is_a_get_object_task_not_final_to_the_request_executor'] = (B(
            task.cls.name == 'GetObjectTask' and task.fields['_is_final'] is False
            and sub[0].extra['env']['executor'] is env['request_executor']), ['C10', 'C04'])
        out['done_callback_decrements_the_invoker'] = (B(
            len(dcbs) == 1 and isinstance(dcbs[0], BoundMethod) and dcbs[0].finfo.name == 'decrement'
            and dcbs[0].self_val == env['finalize_download_invoker']), ['C04', 'C06'])
        out['writes_start_at_part_index_times_part_size'] = (to_int_term(mk['start_index']) == i * ps, ['C02', 'C14'])
        # Range header of part i: closed for inner parts, open-ended for the last
        xp, xv = map_arrays(l1.engine, st1, mk['extra_args'])
        from .c14 import range_term
        want = z3.If(i == to_int_term(n) - 1, range_term(l1.engine, i * ps), range_term(l1.engine, i * ps, (i + 1) * ps - 1))
        up, uv = map_arrays(l1.engine, st1, st1.obj(env['call_args']).fields['extra_args'])
        R_ = z3.StringVal('Range')
        out['range_header_is_the_parts_window'] = (z3.And(z3.Select(xp, R_), z3.Select(xv, R_) == want), ['C02', 'C14'])
        out['users_extra_args_forwarded_next_to_the_range'] = (z3.ForAll([kk_], z3.Implies(kk_ != R_, z3.And(
            z3.Select(xp, kk_) == z3.Select(up, kk_), z3.Implies(z3.Select(up, kk_), z3.Select(xv, kk_) == z3.Select(uv, kk_))))), ['C15', 'C02'])
        out['same_object_budget_and_chunk_size'] = (B(
            mk.get('bucket') is st1.obj(env['call_args']).fields['bucket'] and mk.get('key') is st1.obj(env['call_args']).fields['key']
            and mk.get('client') is env['client'] and mk.get('fileobj') is env['fileobj']
            and mk.get('max_attempts') is st1.obj(env['config']).fields['num_download_attempts']
            and mk.get('io_chunksize') is st1.obj(env['config']).fields['io_chunksize']
            and mk.get('download_output_manager') is env['download_output_manager']), ['C02', 'C03', 'C11'])
        out['get_object_task_gets_the_transfers_bandwidth_limiter'] = (B(mk.get('bandwidth_limiter') is env['bandwidth_limiter']), ['C13'])
        tag = sub[0].extra['env']['tag']
        mgr_cls = st1.obj(env['download_output_manager']).cls.name
        out['stream_destinations_use_the_in_memory_download_tag'] = (
            z3.Not(is_none(tag)) == B(mgr_cls in ('DownloadNonSeekableOutputManager', 'DownloadSpecialFilenameOutputManager')), ['C11', 'C10'])
        return out

    def dl_ranged_checks(c):
        tr = c.trace
        env = c.new.st.env
        loops = [e for e in tr if e.kind == 'loop']
        fin = calls(tr, 'CountCallbackInvoker.finalize')
        cargs = c.old.f(c.old.f(c.a_transfer_future, '_meta'), '_call_args')
        mgr_cls = c.new.obj(c.a_download_output_manager).cls.name
        out = {
            'no_task_submitted_outside_the_part_loop': (B(len(submits(tr)) == 0), ['C04', 'C10']),
            'invoker_finalized_once_after_all_parts': (B(len(loops) == 1 and len(fin) == 1 and index_of(tr, fin[0]) > index_of(tr, loops[0])), ['C04', 'C06']),
            **config_untouched(c, c.a_config),
        }
        size = optval(c.new.f(c.new.f(c.a_transfer_future, '_meta'), '_size'))
        out['number_of_parts_is_ceil_size_over_chunksize'] = (B('num_parts' in env) if 'num_parts' not in env else z3.And(
            is_ceil_div(env['num_parts'], size, env['part_size']), B(env['part_size'] is c.old.f(c.a_config, 'multipart_chunksize'))), ['C14', 'C02'])
        # the invoker's callback submits the single final IO task to the IO executor
        inv = env.get('finalize_download_invoker')
        okcb = False
        if isinstance(inv, Ref):
            cb = c.new.obj(inv).fields.get('_callback')
            if isinstance(cb, Ref) and c.new.obj(cb).cls.name == 'FunctionContainer':
                fc = c.new.obj(cb)
                a = fc.fields['_args']
                fn = fc.fields['_func']
                okcb = isinstance(fn, BoundMethod) and fn.finfo.name == 'submit' and len(a) == 2 and a[0] is c.a_io_executor \
                    and isinstance(a[1], Ref) and final_task_facts(c, c.new, a[1]) == (expected_final(mgr_cls), True)
        out['when_all_parts_are_done_the_single_final_io_task_goes_to_the_io_executor'] = (B(bool(okcb)), ['C04', 'C06', 'C10'])
        out.update(temp_file_facts(c, mgr_cls, tr, env.get('fileobj'), cargs))
        regs = cleanup_regs(tr)
        out['cleanups_registered_before_any_part_is_submitted'] = (B(all(index_of(tr, r) < index_of(tr, loops[0]) for r in regs) if loops else False), ['C06'])
        return out

    def dl_ranged_setup(eng, st, args, self_val):
        meta = st.obj(st.obj(args['transfer_future']).fields['_meta'])
        st.assume(z3.Not(meta.fields['_size'].is_none))
        st.assume(meta.fields['_size'].val < TWO53)
        st.assume(st.obj(args['config']).fields['multipart_chunksize'] < TWO53)
        # validated by TransferManager.download: 'Range' is not a user argument
        m = st.obj(st.obj(meta.fields['_call_args']).fields['extra_args']).meta
        st.assume(z3.Not(z3.Select(m['present'], z3.StringVal('Range'))))

    cdr = R.contracts[f'{DST}._submit_ranged_download_request']
    cdr.checks, cdr.raises = dl_ranged_checks, {'Exception': only_propagates}
    cdr.param_alternatives = MGR_DL
    cdr.props = ('C02', 'C03', 'C04', 'C06', 'C10', 'C11', 'C13', 'C14', 'C15', 'C05')
    cdr.setup = dl_ranged_setup
    cdr.loops = {0: LoopSpec(invariant=lambda l: {}, iteration_checks=dl_ranged_iteration)}

    # ================================================================== IO tasks and OS utilities (C06, C02)
    def os_call(name, raises=('OSError',), returns=None):
        def model(eng, st, args, kwargs, line):
            from pyvc.engine import rs
            out = []
            for ecls in raises:
                s2 = st.fork()
                exc = ExcV(ecls, (), tag=fresh_name('os_exc'))
                s2.trace.append(Event('ext', name, None, args, kwargs, None, line, s2.held, extra={'raised': exc}))
                out.append(rs(exc, s2))
            val = returns(eng, st, args) if returns else None
            st.trace.append(Event('ext', name, None, args, kwargs, val, line, st.held))
            out.append(ok(val, st))
            return out
        return model
    R.builtin_models['os.remove'] = os_call('os.remove')
    R.builtin_models['os.rename'] = os_call('os.rename')
    # other file-system operations a changed function might reach for: each leaves an event (so "exactly one atomic rename",
    # "only the temp file is removed" ... see them) and may fail with OSError
    for nm in ('os.replace', 'os.unlink', 'os.truncate', 'os.link', 'os.symlink', 'shutil.move', 'shutil.copy', 'shutil.copy2',
               'shutil.copyfile', 'shutil.rmtree'):
        R.builtin_models[nm] = os_call(nm)

    def os_events(tr, name):
        return [e for e in tr if e.kind == 'ext' and e.name == name]

    R.contract(f'{OSU}.remove_file', props=['C06'], params=dict(filename=ExtT('str')),
               checks=lambda c: {'removes_that_file_once': B(len(os_events(c.trace, 'os.remove')) == 1 and os_events(c.trace, 'os.remove')[0].args == (c.a_filename,))},
               raises={})   # a missing file is not an error
    R.contract(f'{OSU}.rename_file', props=['C06'], params=dict(current_filename=ExtT('str'), new_filename=ExtT('fileobj_or_name')),
               checks=lambda c: {'one_atomic_rename_to_the_new_name': B(
                   len(os_events(c.trace, 'os.rename')) == 1 and os_events(c.trace, 'os.rename')[0].args == (c.a_current_filename, c.a_new_filename)
                   and len([e for e in c.trace if e.kind == 'ext']) == 1)},
               raises={'OSError': lambda c: {}}, raise_when={'OSError': lambda c: None})

    DOFq = f'{UT}:DeferredOpenFile'
    R.add_fields(DOFq, _filename=ExtT('str'), _fileobj=OptT(ExtT('destfile')), _start_byte=Int, _mode=Str, _open_function=ExtT('open_fn'))
    # (OSError is enumerated: it is THE failure class of file operations -- disk full, EIO, EPIPE at the flush in close() --
    #  and the one a handler would name)
    R.external('destfile', write=ExtSpec(raises=('Exception', 'OSError')), seek=ExtSpec(raises=('Exception', 'OSError')),
               close=ExtSpec(raises=('Exception', 'OSError')), read=ExtSpec(returns=ExtT('bytes'), raises=('Exception', 'OSError')),
               tell=ExtSpec(returns=Int, raises=('Exception', 'OSError')))

    def no_failure_swallowed(c):
        """C03: a destination open / seek / write / close (or any other step) that raised is not swallowed: the function
        returns normally only if nothing it called raised."""
        return {'returns_normally_only_if_no_step_raised': (B(not any(
            e.extra.get('raised') is not None for e in flat(c.trace) if e.kind in ('ext', 'call'))), ['C03', 'C06', 'C02'])}
    R.external('open_fn', **{'()': ExtSpec(returns=ExtT('destfile'), raises=('OSError',))})
    R.mark_inline(f'{DOFq}.close', f'{DOFq}.name', f'{DOFq}._open_if_needed', f'{DOFq}.write', f'{DOFq}.seek')

    def rename_checks(c):
        tr = c.trace
        cl = exts(tr, 'destfile.close')
        rn = calls(tr, 'OSUtils.rename_file')
        opened = z3.Not(is_none(c.old.f(c.a_fileobj, '_fileobj')))
        okr = len(rn) == 1 and rn[0].extra['env']['current_filename'] is c.old.f(c.a_fileobj, '_filename') \
            and rn[0].extra['env']['new_filename'] is c.a_final_filename
        return {
            **no_failure_swallowed(c),
            'temp_file_closed_before_the_rename': z3.If(opened, B(len(cl) == 1 and bool(rn) and index_of(tr, cl[0]) < index_of(tr, rn[0])), B(len(cl) == 0)),
            'publishes_by_one_rename_of_the_temp_file_to_the_destination': B(bool(okr)),
            'touches_the_destination_name_only_through_the_rename': B(all(e is rn[0] or e in cl for e in tr if e.kind in ('ext', 'call')) if rn else False),
        }

    R.contract(f'{DL}:IORenameFileTask._main', props=['C06', 'C03'],
               params=dict(fileobj=ObjT(DOFq), final_filename=ExtT('fileobj_or_name'), osutil=ObjT(OSU)),
               checks=rename_checks, raises={'Exception': lambda c: {'destination_untouched_unless_renamed': B(True)}},
               raise_when={'Exception': lambda c: None})
    R.contract(f'{DL}:IOCloseTask._main', props=['C06', 'C03'], params=dict(fileobj=ObjT(DOFq)),
               checks=lambda c: {'closes_the_file_if_it_was_opened': z3.If(z3.Not(is_none(c.old.f(c.a_fileobj, '_fileobj'))),
                                                                           B(len(exts(c.trace, 'destfile.close')) == 1), B(len(exts(c.trace, 'destfile.close')) == 0)),
                                 **no_failure_swallowed(c)},
               raises={'Exception': only_propagates}, raise_when={'Exception': lambda c: None})

    def iowrite_checks(c):
        tr = [e for e in c.trace if e.kind == 'ext']
        okk = len(tr) == 2 and tr[0].name == 'destfile.seek' and tr[0].args == (c.a_offset,) and tr[1].name == 'destfile.write' and tr[1].args == (c.a_data,)
        return {'seeks_to_the_offset_then_writes_the_data': B(okk), **no_failure_swallowed(c)}

    R.contract(f'{DL}:IOWriteTask._main', props=['C02', 'C06', 'C03'], params=dict(fileobj=ExtT('destfile'), data=BytesT('obj'), offset=Int),
               checks=iowrite_checks, raises={'Exception': only_propagates}, raise_when={'Exception': lambda c: None})
    R.contract(f'{DL}:IOStreamingWriteTask._main', props=['C02', 'C16', 'C03'], params=dict(fileobj=ExtT('destfile'), data=BytesT('obj')),
               checks=lambda c: {'appends_the_data_without_seeking': B(
                   [(e.name, e.args) for e in c.trace if e.kind == 'ext'] == [('destfile.write', (c.a_data,))]), **no_failure_swallowed(c)},
               raises={'Exception': only_propagates}, raise_when={'Exception': lambda c: None})

    # ================================================================== delete
    DET = f'{DE}:DeleteSubmissionTask'

    def del_checks(c):
        sub = submits(c.trace)
        okk = len(sub) == 1 and task_of(c, sub[0])[0] == 'DeleteObjectTask' and is_final(c, sub[0]) and sub[0].extra['env']['executor'] is c.a_request_executor
        out = {'exactly_one_final_delete_task_to_the_request_executor': (B(bool(okk)), ['C04', 'C10'])}
        if len(sub) == 1:
            mk = task_main_kwargs(c, sub[0])
            cargs = c.old.f(c.old.f(c.a_transfer_future, '_meta'), '_call_args')
            out['deletes_the_users_object_with_the_users_extra_args'] = (B(
                mk.get('bucket') is c.old.f(cargs, 'bucket') and mk.get('key') is c.old.f(cargs, 'key')
                and mk.get('extra_args') is c.old.f(cargs, 'extra_args') and mk.get('client') is c.a_client), ['C15'])
        return out

    R.contract(f'{DET}._submit', props=['C04', 'C10', 'C15'],
               params=dict(client=ExtT('client'), request_executor=ExtT('bounded_executor'), transfer_future=ObjT(TF)),
               checks=del_checks, raises={'Exception': only_propagates})

    def simple_op_checks(op, fixed):
        def chk(c):
            ev = exts(c.trace, f'client.{op}')
            okk = len(ev) == 1 and set(k for k in ev[0].kwargs if k != '**') == set(fixed) and all(
                ev[0].kwargs[k] is c.args[v] for k, v in fixed.items())
            return {
                f'one_{op}_request_for_the_object': (B(bool(okk)), ['C10', 'C01']),
                'extra_args_forwarded_unmodified': (B(bool(okk) and splat_is(ev[0], c.old.st, c.a_extra_args)), ['C15']),
                'no_other_request': (B(len([e for e in flat(c.trace) if e.kind == 'ext' and e.name.startswith('client.')]) == 1), ['C10', 'C15']),
            }
        return chk

    R.contract(f'{DE}:DeleteObjectTask._main', props=['C10', 'C15'],
               params=dict(client=ExtT('client'), bucket=ExtT('str'), key=ExtT('str'), extra_args=EXTRA),
               checks=simple_op_checks('delete_object', {'Bucket': 'bucket', 'Key': 'key'}),
               raises={'Exception': only_propagates}, raise_when={'Exception': lambda c: None})

    def copy_obj_checks(c):
        from .a_windows import reported
        out = simple_op_checks('copy_object', {'CopySource': 'copy_source', 'Bucket': 'bucket', 'Key': 'key'})(c)
        ev = exts(c.trace, 'client.copy_object')
        loops = [e for e in c.trace if e.kind == 'loop']
        okp = len(loops) == 1 and bool(ev) and index_of(c.trace, loops[0]) > index_of(c.trace, ev[0]) and all(
            len([x for x in alt if x.kind == 'ext']) == 1 and [x for x in alt if x.kind == 'ext'][0].kwargs.get('bytes_transferred') is c.a_size
            for alt in loops[0].alts)
        out['each_progress_callback_gets_the_whole_size_after_the_copy_returned'] = (B(bool(okp)), ['C09'])
        return out

    R.contract(f'{CP}:CopyObjectTask._main', props=['C01', 'C09', 'C10', 'C15'],
               params=dict(client=ExtT('client'), copy_source=Any, bucket=ExtT('str'), key=ExtT('str'), extra_args=EXTRA,
                           callbacks=ListOfT(ExtT('progress_cb')), size=Int),
               checks=copy_obj_checks, raises={'Exception': only_propagates}, raise_when={'Exception': lambda c: None},
               loops={0: trivial_loop()})

    def copy_part_checks(c):
        ev = exts(c.trace, 'client.upload_part_copy')
        fixed = {'CopySource': 'copy_source', 'Bucket': 'bucket', 'Key': 'key', 'UploadId': 'upload_id', 'PartNumber': 'part_number'}
        okk = len(ev) == 1 and ev[0].extra.get('raised') is None and set(k for k in ev[0].kwargs if k != '**') == set(fixed) and all(
            ev[0].kwargs[k] is c.args[v] for k, v in fixed.items())
        res = c.new.obj(c.result).items if isinstance(c.result, Ref) else {}
        loops = [e for e in c.trace if e.kind == 'loop']
        okp = len(loops) == 1 and bool(ev) and index_of(c.trace, loops[0]) > index_of(c.trace, ev[0]) and all(
            len([x for x in alt if x.kind == 'ext']) == 1 and [x for x in alt if x.kind == 'ext'][0].kwargs.get('bytes_transferred') is c.a_size
            for alt in loops[0].alts)
        return {
            'one_upload_part_copy_for_this_part': (B(bool(okk)), ['C01', 'C05', 'C10']),
            'extra_args_forwarded_unmodified': (B(bool(okk) and splat_is(ev[0], c.old.st, c.a_extra_args)), ['C15']),
            'returns_etag_of_the_copy_result_and_the_part_number': (B(
                bool(okk) and res.get('PartNumber') is c.a_part_number and isinstance(res.get('ETag'), Opaque)
                and len(set(res) - {'ETag', 'PartNumber'}) <= 1), ['C01']),
            'part_checksum_only_with_an_algorithm_in_use': (implies(B(len(set(res) - {'ETag', 'PartNumber'}) > 0),
                                                                    b2z(c.engine.truthy(c.a_checksum_algorithm, c.new.st))), ['C01']),
            'each_progress_callback_gets_the_part_size_after_the_request_returned': (B(bool(okp)), ['C09']),
            **checksum_member_clause(c, res, b2z(c.engine.truthy(c.a_checksum_algorithm, c.new.st))),
        }

    R.contract(f'{CP}:CopyPartTask._main', props=['C01', 'C05', 'C09', 'C10', 'C15'],
               params=dict(client=ExtT('client'), copy_source=Any, bucket=ExtT('str'), key=ExtT('str'), upload_id=ExtT('upload_id'),
                           part_number=Int, extra_args=EXTRA, callbacks=ListOfT(ExtT('progress_cb')), size=Int,
                           checksum_algorithm=OptT(ExtT('argval'))),
               checks=copy_part_checks, raises={'Exception': only_propagates}, raise_when={'Exception': lambda c: None},
               loops={0: trivial_loop()}, returns=ExtT('part'))
    R.external('argval', upper=ExtSpec(returns=ExtT('str'), pure=True))
    R.external('progress_cb', **{'()': ExtSpec(raises=('Exception', 'OSError'), user_code=True)})


SUBMIT_ROOTS = []
