"""C03 -- a future never reports success unless every step succeeded (K3 event-trace contracts).

Every call site forks on each exception class its callee's contract allows, so 'on every path,
also when step k raises' is one obligation per path."""
import z3

from pyvc.contracts import Any, Bool, ExtT, Int, ListOfT, LoopSpec, ObjT, OptT, Str
from pyvc.values import ExcV

from .a_common import F
from .a_tasks import T, TASK, TC, calls, exts, flat, index_of, trivial_loop
from .spec import b2z, implies

B = z3.BoolVal


def raised_events(trace):
    return [e for e in trace if e.kind in ('call', 'ext') and e.extra.get('raised') is not None]


def _not_done_before(tr, ev):
    from .a_common import DONE, status_in
    reads = [e for e in tr[:index_of(tr, ev)] if e.kind == 'read' and e.name == '_status']
    if not reads:
        return B(False)
    return z3.Not(status_in(reads[-1].result, DONE))


def register(R):
    # ------------------------------------------------------------------ Task.__call__
    def call_checks(c):
        tr = c.trace
        em = calls(tr, 'Task._execute_main')
        se = calls(tr, 'TransferCoordinator.set_exception')
        ann = calls(tr, 'TransferCoordinator.announce_done')
        failed = [e for e in raised_events(tr)]
        is_final = b2z(c.oldf('_is_final'))
        loops = [e for e in tr if e.kind == 'loop']
        out = {
            # a failure of waiting / gathering kwargs / _main is recorded, with that very exception
            'every_failure_is_recorded': B(all(
                any(s.extra['env']['exception'] is f.extra['raised'] and index_of(tr, s) > index_of(tr, f) for s in se)
                for f in failed)),
            'no_spurious_set_exception': B(len(se) == len(failed)),
            # a task's failure never overrides an outcome recorded earlier (first failure / cancellation wins, C17 / C07):
            # it is recorded without `override`, also by the final task
            'task_failure_never_overrides_an_earlier_outcome': (B(all(
                s.extra['env'].get('override') in (False, None) or (isinstance(s.extra['env'].get('override'), tuple) and s.extra['env']['override'][0] == '$default')
                for s in se)), ['C17', 'C07', 'C03']),
            'main_runs_at_most_once': B(len(em) <= 1),
            # a task (in particular the final one, which announces done and so triggers the cleanups / abort)
            # first waits for every future it depends on, on every path
            'waits_for_its_dependencies_first_on_every_path': (B(
                len(calls(tr, 'Task._wait_on_dependent_futures')) == 1
                and index_of(tr, calls(tr, 'Task._wait_on_dependent_futures')[0]) == min(
                    [index_of(tr, e) for e in tr if e.kind in ('call', 'ext')] or [0])), ['C05', 'C04', 'C08', 'C03', 'C07']),
            # _main is not invoked for a transfer that was already done (failed / cancelled) when checked
            'main_only_if_not_done_at_the_check': z3.And([B(True)] + [
                _not_done_before(tr, e) for e in em]),
            # ... and that check comes after the dependencies were waited for and their results gathered, so a
            # failure recorded by any dependency is seen (a failed part must keep the final step from running), and a
            # cancellation that lands while the task is waiting keeps its request from being issued (C07)
            'done_check_follows_waiting_and_gathering': B(all(
                [r for r in tr[:index_of(tr, e)] if r.kind == 'read' and r.name == '_status'] and
                index_of(tr, [r for r in tr[:index_of(tr, e)] if r.kind == 'read' and r.name == '_status'][-1]) >
                max([index_of(tr, x) for x in calls(tr, 'Task._get_all_main_kwargs') + calls(tr, 'Task._wait_on_dependent_futures')] or [-1])
                and len(calls(tr, 'Task._get_all_main_kwargs')) == 1 for e in em)),
            'done_callbacks_always_run': B(len(loops) == 1 and loops[0].iterable is c.oldf('_done_callbacks')),
            # each of the task's done callbacks is invoked, exactly once, in list order (they release the final IO task /
            # count down the invoker / resubmit: a skipped one leaves the transfer hanging)
            'each_done_callback_invoked_exactly_once': (B(all(
                len([x for x in alt if x.kind == 'ext']) == 1 and [x for x in alt if x.kind == 'ext'][0].recv is item
                for lp in loops for alt, item in zip(lp.alts, lp.items))), ['C04', 'C03', 'C08', 'C06']),
            'announce_iff_final': z3.If(is_final, B(len(ann) == 1), B(len(ann) == 0)),
            'announce_is_last': B(all(index_of(tr, a) == len(tr) - 1 for a in ann)),
            'callbacks_before_announce': B(all(index_of(tr, a) > index_of(tr, loops[0]) for a in ann) if loops else False),
        }
        return out

    R.contract(
        f'{TASK}.__call__', props=['C03', 'C04', 'C05', 'C07', 'C08', 'C17'], params=dict(ctx=ExtT('ctx')),
        checks=call_checks,
        raises={},  # never propagates an Exception of the task body
        loops={0: trivial_loop()},
        returns=ExtT('main_result'),
    )

    # ------------------------------------------------------------------ Task._execute_main
    def exec_checks(c):
        tr = c.trace
        main = calls(tr, 'Task._main')
        sr = calls(tr, 'TransferCoordinator.set_result')
        is_final = b2z(c.oldf('_is_final'))
        return {
            'main_called_once': B(len(main) == 1 and main[0].extra.get('raised') is None),
            'success_recorded_iff_final': z3.If(is_final, B(len(sr) == 1), B(len(sr) == 0)),
            'success_recorded_after_main_returned': B(all(index_of(tr, s) > index_of(tr, main[0]) for s in sr) if main else False),
            'result_is_mains_return_value': B(all(s.extra['env']['result'] is main[0].result for s in sr) if main else False),
        }

    def exec_raises(c):
        tr = c.trace
        return {
            'no_success_recorded_when_main_raised': B(len(calls(tr, 'TransferCoordinator.set_result')) == 0),
            'exception_is_mains': B(any(e.extra.get('raised') is c.exc for e in calls(tr, 'Task._main'))),
        }

    R.contract(
        f'{TASK}._execute_main', props=['C03'], params=dict(kwargs=ExtT('kwargs')),
        checks=exec_checks, raises={'Exception': exec_raises},
        returns=ExtT('main_result'), raise_when={'Exception': lambda c: None},
    )

    # ------------------------------------------------------------------ SubmissionTask._main
    def sub_checks(c):
        tr = c.trace
        failed = raised_events(tr)
        se = calls(tr, 'TransferCoordinator.set_exception')
        wait = calls(tr, '_wait_for_all_submitted_futures_to_complete')
        ann = calls(tr, 'TransferCoordinator.announce_done')
        sub = calls(tr, 'SubmissionTask._submit')
        q = calls(tr, 'set_status_to_queued')
        r = calls(tr, 'set_status_to_running')
        ok_sub = [s for s in sub]
        out = {
            'at_most_one_failure_per_path': B(len(failed) <= 1),
            'failure_recorded_then_wait_then_announce': B(
                (len(failed) == 0 and not se and not wait and not ann) or
                (len(failed) == 1 and len(se) == 1 and len(wait) == 1 and len(ann) == 1
                 and se[0].extra['env']['exception'] is failed[0].extra['raised']
                 and index_of(tr, failed[0]) < index_of(tr, se[0]) < index_of(tr, wait[0]) < index_of(tr, ann[0]))),
            # ... and recorded WITHOUT override: a cancellation or a part failure recorded earlier stays the reported outcome
            'submission_failure_never_overrides_an_earlier_outcome': (B(all(
                s.extra['env'].get('override') in (False, None) or (isinstance(s.extra['env'].get('override'), tuple) and s.extra['env']['override'][0] == '$default')
                for s in se)), ['C17', 'C07', 'C03']),
            'submit_only_after_both_transitions': B(all(
                len(q) == 1 and len(r) == 1 and q[0].extra.get('raised') is None and r[0].extra.get('raised') is None
                and index_of(tr, q[0]) < index_of(tr, r[0]) < index_of(tr, s) for s in sub)),
            'submit_at_most_once': B(len(sub) <= 1),
            # the submission body runs exactly once unless a step before it failed (else nothing would ever finish the transfer)
            'transfer_is_submitted_unless_an_earlier_step_failed': (B(
                len(sub) == 1 or (len(failed) == 1 and not sub)), ['C04', 'C03', 'C08']),
            'submit_gets_the_transfer_future': (B(all(s.extra['env'].get('transfer_future') is c.a_transfer_future for s in sub)), ['C03', 'C08']),
        }
        return out

    def queued_iteration(l0, l1, evs):
        # "if any ... user on_queued callback raises, result() raises": an iteration that goes on to the next subscriber has
        # not swallowed an exception of this one; and each subscriber's callback is invoked exactly once (C08)
        cbs = [e for e in evs if e.kind == 'ext']
        return {'a_raising_on_queued_callback_is_not_swallowed': (B(not any(e.extra.get('raised') is not None for e in evs if e.kind in ('ext', 'call'))), ['C03', 'C08']),
                'each_on_queued_callback_invoked_once': (B(len(cbs) == 1), ['C08'])}

    R.contract(
        f'{T}:SubmissionTask._main', props=['C03', 'C04', 'C07', 'C08', 'C17'],
        params=dict(transfer_future=ObjT(f'{F}:TransferFuture')),
        checks=sub_checks, raises={}, loops={0: LoopSpec(invariant=lambda l: {}, iteration_checks=queued_iteration)},
    )


ROOTS = [f'{TASK}.__call__', f'{TASK}._execute_main', f'{T}:SubmissionTask._main',
         # retry budget / only stream errors are retried
         's3transfer.download:GetObjectTask._main', 's3transfer.processpool:GetObjectWorker._do_get_object',
         's3transfer:MultipartDownloader._download_range']

MANIFEST = dict(
    category='proof',
    text=('Path-complete ghost-trace contracts on the real Task.__call__, Task._execute_main and '
          'SubmissionTask._main: on every path, including every exceptional exit of every callee (each call site '
          'forks on every exception class the callee contract allows), a failure is recorded with set_exception '
          'before anything else, success is recorded only after _main returned normally in the final task, and the '
          'task never propagates. Coordinator first-writer-wins (C17) then gives: result() returns normally only if '
          'the final step returned normally.'
          ' Retry loops (GetObjectTask._main, process-pool worker, legacy _get_object / _download_range): one request per attempt, attempts bounded by the configured budget, only stream-level errors are retried.'
          " Also: no step's failure is swallowed -- the single-request task bodies, the IO tasks and the callback loops (on_progress, on_queued) return / go on only if nothing they called raised; a submission failure is recorded without override; NonThreadedExecutor.submit (use_threads=False) captures the task's Exception in a done future and lets an interrupt through; legacy IO thread / ranged download return normally only if both threads finished without an exception."),
    note=('Abstract steps (_main, _submit, user callbacks) are assumed to raise any Exception (or KeyboardInterrupt '
          'for user code) or return; executor semantics (A-EXECUTOR) and the absence of asynchronous exceptions in '
          'worker threads are assumed; the cross-thread claim that all tasks have finished when result() unblocks is '
          'not decided here.'),
    technique='contract-based deductive verification: ghost event-trace postconditions over all paths of the real functions',
)
LEVEL = 'proof'
TRUSTED = ['A-EXECUTOR', 'A-DONE-CB-NORAISE', 'A-NO-ASYNC-EXC']
ASSUMPTIONS = TRUSTED
EXPLANATION = 'K3 trace contracts; every exceptional exit of every call site enumerated'
