"""C08 -- subscriber callbacks: exactly once, in order, after the work."""
import z3

from pyvc.contracts import Any, Bool, ExtT, Int, ListOfT, LoopSpec, ObjT, OptT, Str
from pyvc.values import Opaque, Ref

from .a_common import F, S
from .a_tasks import T, TASK, TC, calls, exts, flat, index_of, trivial_loop
from .spec import b2z, implies

B = z3.BoolVal
SHARED = ObjT(TC, shared=True)


def lock_unheld(c, lockfield='_lock'):
    ref = c.old.f(c.self, lockfield)
    return B(ref.oid not in c.old.st.held)


def lock_events(tr, label_suffix):
    return [e for e in tr if e.kind in ('lock', 'unlock') and e.name.endswith(label_suffix)]


def register(R):
    # locks guarding the callback lists (invariants are trivial: the lists are unconstrained; what
    # matters is that run-and-clear happens in ONE critical section)
    R.monitor(TC, lock='_done_callbacks_lock',
              fields=dict(_done_callbacks=ListOfT(ExtT('done_callback'), name='done_callbacks')),
              invariant=lambda v, ref: {}, props=['C08'])
    R.monitor(TC, lock='_failure_cleanups_lock',
              fields=dict(_failure_cleanups=ListOfT(ExtT('cleanup'), name='failure_cleanups')),
              invariant=lambda v, ref: {}, props=['C05'])

    USER_UNHELD = lambda c: [('coordinator_lock_not_held', lock_unheld(c), ['C04'])]

    # ------------------------------------------------------------------ _run_callback
    def run_callback_checks(c):
        tr = c.trace
        cb = [e for e in tr if e.kind == 'ext' and e.name.endswith('.()')]
        return {
            'callback_invoked_exactly_once': B(len(cb) == 1 and cb[0].recv is c.a_callback),
        }

    R.contract(
        f'{TC}._run_callback', props=['C08', 'C05', 'C04', 'C06'], self_type=SHARED,
        params=dict(callback=ExtT('done_callback')),
        requires=USER_UNHELD,
        checks=run_callback_checks,
        raises={},  # an Exception raised by the callback does not escape
    )

    # ------------------------------------------------------------------ _run_callbacks
    def run_callbacks_checks(c):
        tr = c.trace
        loops = [e for e in tr if e.kind == 'loop']
        ok_ = len(loops) == 1 and len(tr) == 1 and loops[0].iterable is c.a_callbacks
        each = ok_ and len(loops[0].alts) >= 1 and all(
            len(calls(alt, '_run_callback')) == 1 and calls(alt, '_run_callback')[0].extra['env']['callback'] is item
            for alt, item in zip(loops[0].alts, loops[0].items))
        return {
            'iterates_over_the_whole_list': B(ok_),
            'each_callback_run_once_in_list_order': B(each),
        }

    R.contract(
        f'{TC}._run_callbacks', props=['C08', 'C05', 'C04', 'C06'], self_type=SHARED,
        params=dict(callbacks=ListOfT(ExtT('done_callback'))),
        requires=USER_UNHELD,
        checks=run_callbacks_checks, raises={}, loops={0: trivial_loop()},
    )

    # ------------------------------------------------------------------ run-and-clear
    def run_and_clear(field, lockname, listkind):
        def checks(c):
            tr = c.trace
            le = lock_events(tr, lockname)
            rc = calls(tr, '_run_callbacks')
            newv = c.newf(field)
            cleared = isinstance(newv, Ref) and c.new.obj(newv).kind == 'list' and len(c.new.obj(newv).items) == 0
            # (whether the guarded runner is called before or after the lock is dropped is not a listed property: what matters is
            #  that the list is taken and replaced under the lock -- so that no callback runs twice -- and run exactly once)
            one_cs = (len(le) == 2 and le[0].kind == 'lock' and le[1].kind == 'unlock' and len(rc) == 1
                      and index_of(tr, le[0]) < index_of(tr, rc[0]))
            # the list handed to _run_callbacks is the one found when the lock was acquired
            old = c.engine and c.new.st.ghost.get(('mon_old', c.self.oid))
            same_list = one_cs and old is not None and rc[0].extra['env']['callbacks'] == old.obj(c.self).fields[field]
            return {
                'list_taken_under_the_lock_and_run_exactly_once_by_the_guarded_runner': B(one_cs),
                'runs_the_list_found_under_the_lock': B(bool(same_list)),
                'list_emptied_before_release': B(cleared),
            }
        return checks

    R.contract(
        f'{TC}._run_done_callbacks', props=['C08', 'C04'], self_type=SHARED, params={},
        requires=USER_UNHELD,
        checks=run_and_clear('_done_callbacks', '_done_callbacks_lock', 'done_callback'), raises={},
    )
    R.contract(
        f'{TC}._run_failure_cleanups', props=['C05', 'C08', 'C04', 'C06'], self_type=SHARED, params={},
        requires=USER_UNHELD,
        checks=run_and_clear('_failure_cleanups', '_failure_cleanups_lock', 'cleanup'), raises={},
    )

    # ------------------------------------------------------------------ announce_done
    def announce_checks(c):
        tr = c.trace
        reads = [e for e in tr if e.kind == 'read' and e.name == '_status']
        fc = calls(tr, '_run_failure_cleanups')
        dc = calls(tr, '_run_done_callbacks')
        ev = [e for e in tr if e.kind == 'ext' and e.name == 'event.set']
        status = S(reads[0].result) if reads else None
        return {
            'status_read_once': B(len(reads) == 1),
            'cleanups_run_iff_not_success': (z3.If(status != z3.StringVal('success'), B(len(fc) == 1), B(len(fc) == 0))
                                             if reads else B(False)),
            'result_unblocked_exactly_once': B(len(ev) == 1),
            'done_callbacks_run_exactly_once': B(len(dc) == 1),
            'cleanups_before_unblocking_result': B(all(index_of(tr, f) < index_of(tr, ev[0]) for f in fc) if ev else False),
            'on_done_only_after_result_unblocked': B(len(ev) == 1 and len(dc) == 1 and index_of(tr, ev[0]) < index_of(tr, dc[0])),
        }

    # (call-site contract with the C04 precondition is registered in a_common; here the body)
    c0 = R.contracts[f'{TC}.announce_done']
    c0.checks = announce_checks
    c0.raises = {}

    # ------------------------------------------------------------------ registration
    def add_checks(field, lockname):
        def checks(c):
            tr = c.trace
            le = lock_events(tr, lockname)
            old = c.new.st.ghost.get(('mon_old', c.self.oid))
            newl = c.new.obj(c.newf(field))
            oldl = old.obj(old.obj(c.self).fields[field]) if old is not None else None
            n_old = oldl.meta['len'] if oldl is not None else None
            appended = oldl is not None and newl.kind == 'slist'
            f = {
                'under_the_list_lock': B(len(le) == 2),
            }
            if appended:
                k = z3.Int('k_frame')
                f['appended_at_the_end'] = newl.meta['len'] == n_old + 1
                f['earlier_entries_kept'] = z3.ForAll([k], z3.Implies(z3.And(k >= 0, k < n_old),
                                                                      z3.Select(newl.meta['arr'], k) == z3.Select(oldl.meta['arr'], k)))
                refs = newl.meta.get('refs', {})
                fc = [r for r in refs.values()]
                okfc = len(fc) == 1 and c.new.obj(fc[0]).kind == 'obj' and c.new.obj(fc[0]).cls.name == 'FunctionContainer' \
                    and c.new.obj(fc[0]).fields.get('_func') is c.a_function
                f['new_entry_calls_the_given_function'] = B(bool(okfc))
                if okfc:
                    f['new_entry_is_last'] = z3.Select(newl.meta['arr'], n_old) == z3.Const(f'ref!{fc[0].oid}', z3.DeclareSort('U'))
            else:
                f['appended_at_the_end'] = B(False)
            return f
        return checks

    R.contract(f'{TC}.add_done_callback', props=['C08'], self_type=SHARED,
               params=dict(function=ExtT('fn')), checks=add_checks('_done_callbacks', '_done_callbacks_lock'), raises={})
    R.contract(f'{TC}.add_failure_cleanup', props=['C05', 'C06'], self_type=SHARED,
               params=dict(function=ExtT('fn')), checks=add_checks('_failure_cleanups', '_failure_cleanups_lock'), raises={})
    R.mark_inline('s3transfer.utils:FunctionContainer.__init__', 's3transfer.utils:FunctionContainer.__call__')

    # ------------------------------------------------------------------ on_queued (SubmissionTask._main)
    def queued_checks(c):
        tr = c.trace
        q = calls(tr, 'set_status_to_queued')
        r = calls(tr, 'set_status_to_running')
        sub = calls(tr, 'SubmissionTask._submit')
        gc = calls(tr, 'get_callbacks')
        loops = [e for e in tr if e.kind == 'loop']
        okq = True
        if loops:
            lp = loops[0]
            okq = (len(q) == 1 and index_of(tr, q[0]) < index_of(tr, lp)
                   and len(gc) == 1 and gc[0].extra['env']['callback_type'] == 'queued' and lp.iterable is gc[0].result
                   and all(len([e for e in alt if e.kind == 'ext' and e.name == 'on_queued_cb.()']) == 1
                           and [e for e in alt if e.kind == 'ext'][0].recv is item
                           for alt, item in zip(lp.alts, lp.items))
                   and all(index_of(tr, x) > index_of(tr, lp) for x in r + sub))
        return {
            'on_queued_each_once_in_order_after_queued_before_running_and_submit': B(bool(okq)),
            'no_on_queued_without_queued_transition': B(all(len(q) == 1 and q[0].extra.get('raised') is None for _ in loops)),
            'submit_implies_callbacks_completed': B(all(len(loops) == 1 for _ in sub)),
        }

    R.contracts[f'{T}:SubmissionTask._main'].checks_c08 = queued_checks


ROOTS = [f'{TC}._run_callback', f'{TC}._run_callbacks', f'{TC}._run_done_callbacks', f'{TC}._run_failure_cleanups',
         f'{TC}.announce_done', f'{TC}.add_done_callback', f'{TC}.add_failure_cleanup', f'{T}:SubmissionTask._main',
         # a size supplied during on_queued suppresses the size-discovery request
         's3transfer.download:DownloadSubmissionTask._submit', 's3transfer.copies:CopySubmissionTask._submit']


def configure(eng):
    # SubmissionTask._main carries C03's trace checks; add the C08 ones
    c = eng.registry.contracts[f'{T}:SubmissionTask._main']
    base = c.checks
    extra = c.checks_c08
    if not getattr(c, '_c08_merged', False):
        c.checks = lambda ctx: {**base(ctx), **extra(ctx)}
        c._c08_merged = True


MANIFEST = dict(
    category='proof',
    text=('Event-order contracts on the real announce_done / _run_done_callbacks / _run_failure_cleanups / '
          '_run_callbacks / _run_callback / add_* and SubmissionTask._main: cleanups -> done event -> on_done, each '
          'callback of the list exactly once in list order even if earlier ones raise, run-and-clear inside one '
          'critical section of the list lock (monitor: the list found under the lock is arbitrary, so two racing '
          'announcers still run every callback once), on_queued once in order after queued and before running/_submit.'),
    note=('User callbacks may raise any Exception (KeyboardInterrupt additionally for on_queued); cross-thread ordering '
          '(on_done after all requests returned, no on_progress after on_done began) needs the scheduling argument of '
          'C04 and is not decided here; registration-before-submission is checked in manager._submit_transfer.'),
    technique='contract-based deductive verification: ghost event-trace + monitor contracts on the real functions',
)
LEVEL = 'proof'
TRUSTED = ['A-LOCK', 'A-EXECUTOR', 'user callbacks raise only Exception (KeyboardInterrupt also for on_queued)']
ASSUMPTIONS = TRUSTED
EXPLANATION = 'K3 trace and K2 monitor contracts for callback delivery'
