"""C03 -- "if any request ... raises, result() raises": the bodies of the single-request tasks have no legitimate reason to
catch anything, so each returns normally only if nothing it called raised (a swallowed request failure would let the
final task report success).  Added to the existing contracts of those task bodies (registered last)."""
import z3

from .a_tasks import flat

B = z3.BoolVal

TASKS = ['s3transfer.upload:PutObjectTask._main', 's3transfer.upload:UploadPartTask._main',
         's3transfer.delete:DeleteObjectTask._main', 's3transfer.copies:CopyObjectTask._main',
         's3transfer.copies:CopyPartTask._main', 's3transfer.tasks:CreateMultipartUploadTask._main',
         's3transfer.tasks:CompleteMultipartUploadTask._main']


def register(R):
    for t in TASKS:
        c = R.contracts[t]
        old = c.checks

        def checks(ctx, old=old):
            out = dict(old(ctx))
            out['returns_normally_only_if_no_step_raised'] = (B(not any(
                e.extra.get('raised') is not None for e in flat(ctx.trace) if e.kind in ('ext', 'call'))), ['C03'])
            return out
        c.checks = checks
        if 'C03' not in c.props:
            c.props = tuple(c.props) + ('C03',)


ROOTS = []
