"""Field schemas, monitors, assumed external interfaces and inline lists shared by all properties."""
import z3

from pyvc.contracts import (
    Any, Bool, Const, ExtSpec, ExtT, Int, ListOfT, LockT, MapT, ObjT, OptT, Real, SetT, Str,
)
from pyvc.values import ExcV, FStr, Opaque, Opt, U, fresh_name, is_sym

F = 's3transfer.futures'
UT = 's3transfer.utils'

STATUSES = ['not-started', 'queued', 'running', 'failed', 'cancelled', 'success']
DONE = ['failed', 'cancelled', 'success']

# uninterpreted constructor of exception objects: exc_type(msg)
mk_exc = z3.Function('mk_exc', U, U, U)


def S(v):
    """status / string value as z3 String term."""
    if isinstance(v, str):
        return z3.StringVal(v)
    return v


def status_in(v, names):
    v = S(v)
    return z3.Or([v == z3.StringVal(n) for n in names])


def is_none(v):
    if v is None:
        return z3.BoolVal(True)
    if isinstance(v, Opt):
        return v.is_none
    return z3.BoolVal(False)


def same_value(eng, st, a, b):
    r = eng.value_eq(a, b, st)
    return z3.BoolVal(r) if isinstance(r, bool) else r


def opt_eq(eng, st, a, b):
    """Equality of two possibly-None values (Opt / None / value)."""
    na, nb = is_none(a), is_none(b)
    va = a.val if isinstance(a, Opt) else a
    vb = b.val if isinstance(b, Opt) else b
    if va is None or vb is None:
        return z3.And(na, nb) if (va is None and vb is None) else z3.And(na, nb)
    return z3.Or(z3.And(na, nb), z3.And(z3.Not(na), z3.Not(nb), same_value(eng, st, va, vb)))


def term_of(v):
    if isinstance(v, Opaque):
        return v.term
    if isinstance(v, ExcV):
        if 'term' in v.attrs:
            return v.attrs['term']
        return z3.Const('exc_' + v.tag, U)
    raise TypeError(v)


def register(R):
    # ------------------------------------------------------------------ TransferCoordinator
    R.add_fields(
        f'{F}:TransferCoordinator',
        transfer_id=ExtT('id'),
        _status=Str,
        _result=ExtT('result'),
        _exception=OptT(ExtT('exception')),
        _associated_futures=SetT('U'),
        _failure_cleanups=ListOfT(ExtT('cleanup'), name='failure_cleanups'),
        _done_callbacks=ListOfT(ExtT('done_callback'), name='done_callbacks'),
        _done_event=LockT(kind='event'),
        _lock=LockT(),
        _associated_futures_lock=LockT(),
        _done_callbacks_lock=LockT(),
        _failure_cleanups_lock=LockT(),
    )

    def coord_inv(v, ref):
        st, exc = S(v.f(ref, '_status')), v.f(ref, '_exception')
        return {
            'status_is_one_of_the_six': status_in(st, STATUSES),
            'exception_stored_iff_failed_or_cancelled':
                status_in(st, ['failed', 'cancelled']) == z3.Not(is_none(exc)),
        }

    def coord_guar(old, new, ref):
        return {
            'done_is_monotone': z3.Implies(status_in(old.f(ref, '_status'), DONE),
                                           status_in(new.f(ref, '_status'), DONE)),
        }

    R.monitor(
        f'{F}:TransferCoordinator', lock='_lock',
        fields=dict(_status=Str, _result=ExtT('result'), _exception=OptT(ExtT('exception'))),
        invariant=coord_inv, guarantee=coord_guar, props=['C17'],
    )

    R.mark_inline(f'{F}:TransferCoordinator.done', f'{F}:TransferFuture.done')

    # exception classes as values: calling one builds an exception object
    def call_excclass(eng, st, recv, args, kwargs):
        msg = args[0] if args else Opaque('no_msg')
        if isinstance(msg, str):
            msg = Opaque('str_' + ''.join(ch if ch.isalnum() else '_' for ch in msg), kind='str')
        if isinstance(msg, FStr):
            msg = Opaque(fresh_name('fstr'), kind='str')
        if is_sym(msg) and z3.is_string(msg):
            f = z3.Function('str_as_U', z3.StringSort(), U)
            msg = Opaque(f(msg), kind='str')
        t = mk_exc(recv.term, msg.term)
        return Opaque(t, kind='exception', label=f'{recv.label}({msg.label})')

    R.external('excclass', **{'()': ExtSpec(returns=call_excclass, pure=True)})
    R.external('logger', **{'*': ExtSpec(pure=True)})

    # ------------------------------------------------------------------ announce_done (call-site view)
    def lock_unheld(c, lockfield):
        ref = c.old.f(c.self, lockfield)
        return z3.BoolVal(ref.oid not in c.old.st.held)

    R.contract(
        f'{F}:TransferCoordinator.announce_done', props=['C05', 'C08', 'C04'],
        self_type=ObjT(f'{F}:TransferCoordinator', shared=True), params={},
        requires=lambda c: [
            ('coordinator_lock_not_held', lock_unheld(c, '_lock'), ['C04']),
        ],
    )
