"""C05 -- no orphaned or doubly-finished multipart uploads."""
import z3

from pyvc.contracts import Any, Bool, ExtSpec, ExtT, Int, ListOfT, LoopSpec, MapT, ObjT, OptT, Str
from pyvc.values import ExtMethod, Opaque, Ref, U

from .a_common import F
from .a_tasks import T, TASK, TC, calls, exts, flat, index_of, trivial_loop
from .spec import b2z, implies

B = z3.BoolVal
LEGACY_EXTRA = MapT('Str', Any)
resp_get = z3.Function('resp_get', U, z3.StringSort(), U)


resp_get_u = z3.Function('resp_get_u', U, U, U)


def resp_item(eng, st, recv, args, kwargs):
    k = args[0]
    if k == 'ContentLength':
        v = z3.Function('resp_content_length', U, z3.IntSort())(recv.term)
        st.assume(v >= 0)
        return v
    if isinstance(k, str):
        return Opaque(resp_get(recv.term, z3.StringVal(k)), kind='respdict', label=f'{recv.label}[{k!r}]')
    # computed member name (e.g. 'Checksum' + algorithm.upper())
    return Opaque(resp_get_u(recv.term, eng.as_u_term(k, st)), kind='respdict', label=f'{recv.label}[<computed>]')


def _map_view(st, v):
    h = st.obj(v)
    return h.meta['present'], h.meta['vals']


def same_term(a, b):
    return isinstance(a, Opaque) and isinstance(b, Opaque) and z3.eq(a.term, b.term)


def register(R):
    # assumed contract of a botocore S3 client: any operation returns a response mapping or raises;
    # the service may have applied the call although it raised (fault after effect)
    R.external('client', **{'*': ExtSpec(returns=ExtT('respdict'), raises=('Exception',), effect_on_raise=False),
                            # the request itself can fail with a retryable connection / timeout error
                            'get_object': ExtSpec(returns=ExtT('respdict'), raises=('Exception', 'socket.timeout', 'OSError'))})
    R.external('respdict', **{'[]': ExtSpec(returns=resp_item, pure=True)})

    # ------------------------------------------------------------------ CreateMultipartUploadTask
    def create_checks(c):
        tr = c.trace
        cr = exts(tr, 'client.create_multipart_upload')
        reg = calls(tr, 'TransferCoordinator.add_failure_cleanup')
        ok_reg = False
        if len(cr) == 1 and len(reg) == 1:
            env = reg[0].extra['env']
            fn = env['function']
            kw = c.new.obj(env['kwargs']).items
            uid = kw.get('UploadId')
            ok_reg = (isinstance(fn, ExtMethod) and fn.self_val is c.a_client and fn.name == 'abort_multipart_upload'
                      and kw.get('Bucket') is c.a_bucket and kw.get('Key') is c.a_key
                      and isinstance(uid, Opaque) and z3.eq(uid.term, resp_get(cr[0].result.term, z3.StringVal('UploadId')))
                      and {'Bucket', 'Key', 'UploadId'} <= set(kw) <= {'Bucket', 'Key', 'UploadId', 'RequestPayer', 'ExpectedBucketOwner'}
                      and env['args'] == () and index_of(tr, cr[0]) < index_of(tr, reg[0]))
            # C15: the abort carries exactly the user's RequestPayer / ExpectedBucketOwner
            pres, vals = _map_view(c.old.st, c.a_extra_args)
            fwd = []
            for name in ('RequestPayer', 'ExpectedBucketOwner'):
                has = z3.Select(pres, z3.StringVal(name))
                if name in kw:
                    fwd.append(z3.And(has, kw[name].term == z3.Select(vals, z3.StringVal(name))))
                else:
                    fwd.append(z3.Not(has))
            abort_args = z3.And(fwd)
        return {
            'abort_carries_the_users_request_payer_and_bucket_owner': (abort_args if (len(cr) == 1 and len(reg) == 1) else B(False), ['C15', 'C05']),
            'one_create_request': B(len(cr) == 1 and cr[0].kwargs.get('Bucket') is c.a_bucket and cr[0].kwargs.get('Key') is c.a_key),
            'abort_registered_for_the_received_id_before_return': B(bool(ok_reg)),
            'returns_the_received_id': B(isinstance(c.result, Opaque) and len(cr) == 1 and z3.eq(
                c.result.term, resp_get(cr[0].result.term, z3.StringVal('UploadId')))),
        }

    R.contract(
        f'{T}:CreateMultipartUploadTask._main', props=['C05', 'C15'],
        params=dict(client=ExtT('client'), bucket=ExtT('str'), key=ExtT('str'), extra_args=MapT('Str', Any)),
        checks=create_checks,
        raises={'Exception': lambda c: {
            # the only way out by exception is a failing create request: no id was received
            'only_the_create_request_failed': B(
                len([e for e in c.trace if e.kind in ('ext', 'call')]) == 1
                and c.trace[-1].name == 'client.create_multipart_upload' and c.trace[-1].extra.get('raised') is c.exc)}},
        returns=ExtT('upload_id'), raise_when={'Exception': lambda c: None},
    )

    # ------------------------------------------------------------------ CompleteMultipartUploadTask
    def complete_checks(c):
        tr = c.trace
        cm = exts(tr, 'client.complete_multipart_upload')
        okc = False
        if len(cm) == 1:
            kw = cm[0].kwargs
            mp = kw.get('MultipartUpload')
            okc = (kw.get('Bucket') is c.a_bucket and kw.get('Key') is c.a_key and kw.get('UploadId') is c.a_upload_id
                   and isinstance(mp, Ref) and c.new.obj(mp).items == {'Parts': c.a_parts})
        return {'exactly_one_complete_for_this_upload_with_the_given_parts': B(bool(okc)),
                'no_other_request': B(len([e for e in tr if e.kind == 'ext']) == 1)}

    R.contract(
        f'{T}:CompleteMultipartUploadTask._main', props=['C05', 'C01', 'C15'],
        params=dict(client=ExtT('client'), bucket=ExtT('str'), key=ExtT('str'), upload_id=ExtT('upload_id'),
                    parts=ExtT('parts'), extra_args=ExtT('kwargs')),
        checks=complete_checks,
        raises={'Exception': lambda c: {'at_most_one_complete_attempt': B(len(exts(c.trace, 'client.complete_multipart_upload')) == 1)}},
        raise_when={'Exception': lambda c: None},
    )

    # ------------------------------------------------------------------ legacy uploader
    L = 's3transfer:MultipartUploader'
    R.add_fields(L, _client=ExtT('client'), _config=ObjT('s3transfer:TransferConfig'), _os=ObjT('s3transfer:OSUtils'), _executor_cls=ExtT('legacy_executor_cls'))
    # (MultipartUploader._upload_parts: verified contract in b_legacy.py)

    def legacy_common(c):
        tr = c.trace
        cr = exts(tr, 'client.create_multipart_upload')
        ab = exts(tr, 'client.abort_multipart_upload')
        cm = exts(tr, 'client.complete_multipart_upload')
        got_id = len(cr) == 1 and cr[0].extra.get('raised') is None
        return tr, cr, ab, cm, got_id

    def filtered_as(c, ev, name):
        """the **kwargs of client event ev are the user's extra_args restricted to the class constant `name`."""
        from .b_legacy import legacy_const
        from .c15 import map_view
        allowed = legacy_const(c.engine, name)
        ep, evs = map_view(c.old.st, c.a_extra_args)
        sp = ev.extra.get('splat')
        kk = z3.String('kk_')
        if sp is None:
            return z3.ForAll([kk], z3.Not(z3.And(z3.Select(ep, kk), z3.Or([kk == z3.StringVal(a) for a in allowed] + [B(False)]))))
        return z3.ForAll([kk], z3.And(
            z3.Select(sp['present'], kk) == z3.And(z3.Select(ep, kk), z3.Or([kk == z3.StringVal(a) for a in allowed] + [B(False)])),
            z3.Implies(z3.Select(sp['present'], kk), z3.Select(sp['vals'], kk) == z3.Select(evs, kk))))

    def legacy_arg_checks(c, cr, ab, cm):
        from .b_legacy import splat_has
        up = calls(c.trace, 'MultipartUploader._upload_parts')
        out = {
            'create_gets_the_users_extra_args': (B(len(cr) == 1 and splat_has(cr[0], c.old.st, c.a_extra_args)), ['C15']),
            'part_uploads_get_the_users_extra_args': (B(all(e.extra['env']['extra_args'] is c.a_extra_args for e in up)), ['C15']),
        }
        for i, e in enumerate(cm):
            out[f'complete_gets_exactly_COMPLETE_MULTIPART_ARGS_of_the_users_extra_args.{i}'] = (filtered_as(c, e, 'COMPLETE_MULTIPART_ARGS'), ['C15'])
        for i, e in enumerate(ab):
            out[f'abort_gets_exactly_ABORT_MULTIPART_ARGS_of_the_users_extra_args.{i}'] = (filtered_as(c, e, 'ABORT_MULTIPART_ARGS'), ['C15'])
        return out

    def legacy_checks(c):
        tr, cr, ab, cm, got_id = legacy_common(c)
        return {
            **legacy_arg_checks(c, cr, ab, cm),
            'success_means_completed_once_never_aborted': B(got_id and len(cm) == 1 and cm[0].extra.get('raised') is None and not ab),
            'complete_uses_received_id': B(len(cm) == 1 and len(cr) == 1 and isinstance(cm[0].kwargs.get('UploadId'), Opaque)
                                           and z3.eq(cm[0].kwargs['UploadId'].term, resp_get(cr[0].result.term, z3.StringVal('UploadId')))),
        }

    def legacy_raises(c):
        tr, cr, ab, cm, got_id = legacy_common(c)
        completed = [e for e in cm if e.extra.get('raised') is None]
        return {
            **legacy_arg_checks(c, cr, ab, cm),
            'failure_after_id_received_aborts_that_upload': B(
                (not got_id) or (len(ab) >= 1 and isinstance(ab[-1].kwargs.get('UploadId'), Opaque) and z3.eq(
                    ab[-1].kwargs['UploadId'].term, resp_get(cr[0].result.term, z3.StringVal('UploadId'))))),
            'not_completed_and_aborted': B(not (completed and ab)),
            'no_request_after_abort': B(all(index_of(tr, a) == max(index_of(tr, e) for e in tr if e.kind == 'ext') for a in ab[-1:])),
        }

    R.contract(
        f'{L}.upload_file', props=['C05', 'C15'],
        params=dict(filename=ExtT('str'), bucket=ExtT('str'), key=ExtT('str'), callback=Any, extra_args=LEGACY_EXTRA),
        checks=legacy_checks,
        raises={'Exception': legacy_raises},
    )


ROOTS = [f'{T}:CreateMultipartUploadTask._main', f'{T}:CompleteMultipartUploadTask._main',
         f'{TC}.add_failure_cleanup', f'{TC}._run_failure_cleanups', f'{TC}._run_callbacks', f'{TC}._run_callback',
         f'{TC}.announce_done', f'{TC}.cancel', f'{TC}.set_exception', f'{TASK}.__call__', f'{TASK}._execute_main', 's3transfer:MultipartUploader.upload_file',
         's3transfer.upload:UploadSubmissionTask._submit_multipart_request', 's3transfer.copies:CopySubmissionTask._submit_multipart_request',
         's3transfer.upload:UploadPartTask._main', 's3transfer.copies:CopyPartTask._main']

MANIFEST = dict(
    category='proof',
    text=('On every path of CreateMultipartUploadTask._main an abort for exactly the received upload id is registered '
          'as failure cleanup before the function returns, and the only exceptional exit is a failed create (no id '
          'received); announce_done runs the cleanups iff the status is not success, each once, in one critical '
          'section, before result() unblocks; CompleteMultipartUploadTask issues exactly one complete for the given id; '
          'success is recorded only by the final task after its request returned (C03). Legacy uploader: every '
          'exceptional path after the id was received aborts, success paths complete once and never abort.'),
    note=('Assumes botocore client calls either return or raise Exception; the cross-thread claims (abort only after '
          'every other request returned, no part request after abort) rest on the executor contract and the final '
          'task depending on all part futures; they are checked per function (submission order) not per schedule.'),
    technique='contract-based deductive verification: ghost event-trace contracts on the real functions, all exceptional exits',
)
LEVEL = 'proof'
TRUSTED = ['A-BOTO client operations return a response mapping or raise Exception', 'A-EXECUTOR', 'A-LOCK']
ASSUMPTIONS = TRUSTED
EXPLANATION = 'K3 trace contracts for multipart lifecycle'
