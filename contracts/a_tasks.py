"""Shared schemas / call-site contracts for tasks.py (used by C03, C04, C05, C07, C08)."""
import z3

from pyvc.contracts import (
    Any, Bool, Const, DictT, ExtSpec, ExtT, Int, ListOfT, LockT, LoopSpec, ObjT, OptT, Str,
)
from pyvc.engine import ok
from pyvc.values import ExcV, Opaque, Opt

from .a_common import F

T = 's3transfer.tasks'
TC = f'{F}:TransferCoordinator'
TASK = f'{T}:Task'

# exception classes a user callback / abstract step may raise: one representative per handler
# equivalence class (handlers in the package distinguish Exception vs BaseException only here)
USER_RAISES = ('Exception', 'KeyboardInterrupt')


def trivial_loop():
    return LoopSpec(invariant=lambda l: {})


def only_propagates(c):
    """An exceptional exit is the exception of a callee (an assumed-to-fail external call, a callee under contract, user
    code): the function adds no failure of its own on this exit."""
    import z3
    def walk(evs):
        for e in evs:
            if e.kind == 'loop':
                for alt in e.alts:
                    yield from walk(alt)
            else:
                yield e
    ok = any(e.extra.get('raised') is c.exc for e in walk(c.trace) if e.kind in ('ext', 'call'))
    return {'exception_comes_from_a_callee': z3.BoolVal(bool(ok))}


def calls(trace, suffix):
    return [e for e in trace if e.kind == 'call' and e.name.endswith(suffix)]


def exts(trace, name):
    return [e for e in trace if e.kind == 'ext' and e.name == name]


def flat(trace):
    """Trace with loop summaries expanded into their alternative iteration bodies (for
    'does an event of this kind occur anywhere' questions)."""
    out = []
    for e in trace:
        if e.kind == 'loop':
            out.append(e)
            for alt in e.alts:
                out.extend(flat(alt))
        else:
            out.append(e)
    return out


def index_of(trace, ev):
    for i, e in enumerate(trace):
        if e is ev:
            return i
    return -1


def register(R):
    R.add_fields(
        TASK,
        _transfer_coordinator=ObjT(TC, shared=True),
        _main_kwargs=ExtT('kwargs'),
        _pending_main_kwargs=ExtT('pending_kwargs'),
        _done_callbacks=ListOfT(ExtT('task_done_callback'), name='task_done_callbacks'),
        _is_final=Bool,
    )
    R.add_fields(f'{F}:TransferFuture', _coordinator=ObjT(TC, shared=True))

    # start_as_current_context(ctx): botocore context propagation, no effect on the transfer
    R.builtin_models['botocore.context.start_as_current_context'] = \
        lambda eng, st, args, kwargs, line: [ok(Opaque('ctx_cm', kind='nullcm'), st)]
    R.external('nullcm', __enter__=ExtSpec(pure=True), __exit__=ExtSpec(pure=True))

    # A-DONE-CB-NORAISE: task-level done callbacks (final_task.__call__, invoker.decrement,
    # FunctionContainer(coordinator.submit, ...)) do not raise
    R.external('task_done_callback', **{'()': ExtSpec(raises=())})
    # user subscriber callbacks
    R.external('on_queued_cb', **{'()': ExtSpec(raises=USER_RAISES, user_code=True)})
    # done callbacks / cleanups: any Exception (the code guards them with `except Exception`;
    # KeyboardInterrupt inside a callback is outside the properties' fault model)
    R.external('on_done_cb', **{'()': ExtSpec(raises=('Exception',), user_code=True)})
    R.external('cleanup', **{'()': ExtSpec(raises=('Exception',), user_code=True)})
    R.external('done_callback', **{'()': ExtSpec(raises=('Exception',), user_code=True)})

    # ---------------------------------------------------------------- call-site contracts
    R.contract(f'{TASK}._wait_on_dependent_futures', params={})
    R.contract(f'{TASK}._get_all_main_kwargs', params={}, returns=ExtT('kwargs'),
               raise_when={'Exception': lambda c: None})
    # abstract step: every concrete _main may return anything or raise any Exception
    R.contract(f'{TASK}._main', params={}, returns=ExtT('main_result'),
               raise_when={'Exception': lambda c: None})
    R.contract(f'{TASK}._execute_main', params=dict(kwargs=ExtT('kwargs')), returns=ExtT('main_result'),
               raise_when={'Exception': lambda c: None})
    R.contract(f'{T}:SubmissionTask._submit', params=dict(transfer_future=ObjT(f'{F}:TransferFuture')),
               raise_when={'Exception': lambda c: None, 'KeyboardInterrupt': lambda c: None})
    R.contract(f'{T}:SubmissionTask._wait_for_all_submitted_futures_to_complete', params={})
    R.contract('s3transfer.utils:get_callbacks',
               params=dict(transfer_future=ObjT(f'{F}:TransferFuture'), callback_type=Str),
               returns=lambda c, st: c.engine.make_symbolic(
                   ListOfT(ExtT('on_' + c.a_callback_type + '_cb'), name='callbacks_' + c.a_callback_type),
                   'callbacks_' + c.a_callback_type, st))
    R.mark_inline(f'{TASK}._log_and_set_exception')
    # only used to build a log message (its result feeds logger.debug, which is on the drop list)
    R.contract(f'{TASK}._get_kwargs_with_params_to_exclude', params=dict(kwargs=ExtT('kwargs'), exclude=Any),
               returns=ExtT('kwargs'), events=False)
