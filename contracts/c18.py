"""C18 -- shutdown is a barrier; transfers sharing a manager are isolated."""
import z3

from pyvc.contracts import Any, Bool, Const, DictT, ExtSpec, ExtT, Int, ListOfT, LoopSpec, ObjT, OptT, Str
from pyvc.values import BoundMethod, HObj, Opaque, Ref

from .a_common import F
from .a_submit import CARGS, MG, TF
from .a_tasks import T, TASK, TC, calls, exts, flat, index_of, trivial_loop, only_propagates

B = z3.BoolVal
TM = f'{MG}:TransferManager'
CTRL = f'{MG}:TransferCoordinatorController'


def register(R):
    R.mark_inline(f'{TM}._get_submission_task_main_kwargs', f'{F}:TransferFuture.__init__', f'{F}:TransferMeta.__init__',
                  f'{F}:TransferCoordinator.__init__', f'{TASK}.__init__')
    R.external('submission_task_cls', **{'()': ExtSpec(returns=ExtT('submission_task'), raises=())})

    def st_checks(c):
        tr = c.trace
        add = calls(tr, 'TransferCoordinatorController.add_transfer_coordinator')
        sub = exts(tr, 'bounded_executor.submit')
        reg = calls(tr, 'TransferCoordinator.add_done_callback')
        loops = [e for e in tr if e.kind == 'loop']
        ok_track = len(add) == 1 and len(sub) == 1 and index_of(tr, add[0]) < index_of(tr, sub[0])
        untrack = [r for r in reg if isinstance(r.extra['env']['function'], BoundMethod)
                   and r.extra['env']['function'].finfo.name == 'remove_transfer_coordinator']
        ok_untrack = len(untrack) == 1 and ok_track and untrack[0].extra['env']['args'] == (add[0].extra['env']['transfer_coordinator'],) \
            and index_of(tr, untrack[0]) < index_of(tr, sub[0])
        out = {
            'coordinator_tracked_before_its_submission_task_is_submitted': (B(bool(ok_track)), ['C18', 'C07']),
            'untracked_only_by_its_own_done_callback_registered_before_submission': (B(bool(ok_untrack)), ['C18', 'C08']),
            'subscriber_on_done_callbacks_registered_before_submission': (B(
                len(loops) == 1 and len(sub) == 1 and index_of(tr, loops[0]) < index_of(tr, sub[0]) and all(
                    len(calls(alt, 'TransferCoordinator.add_done_callback')) == 1 and
                    calls(alt, 'TransferCoordinator.add_done_callback')[0].extra['env']['function'] is item
                    for alt, item in zip(loops[0].alts, loops[0].items))), ['C08', 'C18']),
            'submission_task_goes_to_the_submission_executor': (B(len(sub) == 1 and sub[0].recv is c.oldf('_submission_executor')), ['C10', 'C18']),
            'fresh_transfer_id_per_transfer': (c.newf('_id_counter') == c.oldf('_id_counter') + 1, ['C18']),
        }
        # the submission task works with THIS manager's client / config / executors and this transfer's future, plus the
        # extra kwargs of the public method (the shared bandwidth limiter, C13)
        mk_ev = [e for e in tr if e.kind == 'ext' and e.name == 'submission_task_cls.()']
        okk = False
        if len(mk_ev) == 1 and isinstance(mk_ev[0].kwargs.get('main_kwargs'), Ref):
            mk = c.new.obj(mk_ev[0].kwargs['main_kwargs']).items
            extra = c.new.obj(c.a_extra_main_kwargs).items if isinstance(c.a_extra_main_kwargs, Ref) else {}
            want = {'client': c.oldf('_client'), 'config': c.oldf('_config'), 'osutil': c.oldf('_osutil'), 'request_executor': c.oldf('_request_executor')}
            okk = set(mk) == set(want) | {'transfer_future'} | set(extra) and all(mk[k] is v for k, v in want.items()) \
                and all(mk[k] is v for k, v in extra.items()) and mk['transfer_future'] is c.result \
                and mk_ev[0].kwargs.get('transfer_coordinator') is c.new.f(c.result, '_coordinator') if isinstance(c.result, Ref) else False
        out['submission_task_gets_this_managers_collaborators_and_the_extra_kwargs'] = (B(bool(okk)), ['C18', 'C13', 'C10'])
        return out

    R.contract(
        f'{TM}._submit_transfer', props=['C18', 'C08', 'C10', 'C07', 'C13'],
        params=dict(call_args=ObjT(CARGS), submission_task_cls=ExtT('submission_task_cls'), extra_main_kwargs=Const(None)),
        param_alternatives={'extra_main_kwargs': [('no_extra', Const(None)), ('with_limiter', Const(lambda eng, st: st.alloc(
            HObj('dict', items={'bandwidth_limiter': Opaque('the_bandwidth_limiter', kind='bandwidth_limiter')}))))]},
        returns=ExtT('transfer_future'), raise_when={'Exception': lambda c: None},
        inline_callees=[f'{TM}._get_future_with_components'],
        checks=st_checks, raises={'Exception': only_propagates}, loops={0: trivial_loop()},
    )
    # the invariants of the state shared between transfers also serve the isolation clause
    for t in SHARED_STATE_ROOTS:
        R.contracts[t].props = tuple(R.contracts[t].props) + ('C18',)


SHARED_STATE_ROOTS = ['s3transfer.utils:SlidingWindowSemaphore.acquire', 's3transfer.utils:SlidingWindowSemaphore.release',
                      's3transfer.bandwidth:LeakyBucket.consume', 's3transfer.bandwidth:LeakyBucket.unschedule',
                      f'{F}:BoundedExecutor.submit', 's3transfer.utils:TaskSemaphore.acquire', 's3transfer.utils:TaskSemaphore.release']

ROOTS = [f'{TM}._submit_transfer', f'{TM}._shutdown', f'{TM}.shutdown', f'{TM}.__exit__', f'{CTRL}.cancel', f'{CTRL}.wait',
         f'{CTRL}.add_transfer_coordinator', f'{CTRL}.remove_transfer_coordinator',
         f'{TM}.__init__'] + SHARED_STATE_ROOTS


def configure(eng):
    eng.ieee_checks = False


MANIFEST = dict(
    category='proof',
    text=('_shutdown on every path (normal, KeyboardInterrupt, cancel or not) joins the submission, request and IO executors in '
          'stage order in a finally block after waiting on the tracked coordinators; with A-EXECUTOR (shutdown(wait=True) '
          'returns after all submitted callables and their callbacks) and downstream-only submission (stage typing, C10) no '
          'task of the manager runs after it returns. A coordinator is tracked before its submission task is submitted and '
          'untracked only by its own done callback. Isolation: the only state shared between transfers is the semaphores '
          '(permit conservation: every acquire is paired with exactly one release on the task future; monitor invariants '
          'C12) and the leaky bucket (scheduler invariant, C13, incl. abandoned waiters); everything else a transfer '
          'touches hangs off its own coordinator / meta / manager objects (frame: fresh ids, fresh coordinator per call).'),
    note=('Callbacks run by cancel() in a user thread that is still inside them when another thread\'s shutdown() returns, '
          'and submissions concurrent with shutdown, are schedule-level questions not decided here.'),
    technique='contract-based deductive verification: trace contracts for the barrier, monitor invariants for shared state',
)
LEVEL = 'proof'
TRUSTED = ['A-EXECUTOR shutdown(wait=True) is a join', 'A-LOCK']
ASSUMPTIONS = TRUSTED
EXPLANATION = 'barrier by joins in stage order; isolation by frames and conserved shared state'
