"""Frames of the contracts (loaded last).

A contract that verified code applies at a call site must say what the function may modify (`effects`, `modifies`):
the root is then checked to modify nothing else (obligations `frame.*`), and the caller's view of those locations is
havocked.  Entry points that verified code never reaches through their own contract are declared `top_level`
(no frame obligations; the engine refuses to apply such a contract at a call site, so the declaration is checked)."""
L = 's3transfer'
UP, DL, CP, DE, UT, BW, MG, PP, CRT = (f'{L}.upload', f'{L}.download', f'{L}.copies', f'{L}.delete', f'{L}.utils', f'{L}.bandwidth',
                                       f'{L}.manager', f'{L}.processpool', f'{L}.crt')

TOP_LEVEL = {
    # task bodies: run by the executor through Task.__call__ -> Task._execute_main -> the generic Task._main contract
    f'{DL}:GetObjectTask._main': 'task body',
    f'{UP}:UploadSubmissionTask._submit': 'submission body (reached through the generic SubmissionTask._submit contract)',
    f'{CP}:CopySubmissionTask._submit': 'submission body',
    f'{DL}:DownloadSubmissionTask._submit': 'submission body',
    f'{DE}:DeleteSubmissionTask._submit': 'submission body',
    # bodies handed to botocore / progress callbacks invoked through the external progress_cb interface
    f'{UT}:ReadFileChunk.read': 'called by botocore', f'{UT}:ReadFileChunk.seek': 'called by botocore',
    f'{UP}:AggregatedProgressCallback.__call__': 'progress callback', f'{UP}:AggregatedProgressCallback.flush': 'close callback',
    f'{BW}:BandwidthLimitedStream.read': 'called by botocore / the chunk reader through the file interface',
    # public API
    f'{PP}:ProcessPoolDownloader.__exit__': 'with-block exit, called by the interpreter',
}


# roots that a property module lists but whose contract did not carry that property: their (untagged) clauses were verified in
# that property's run without being reported for it (found with the round-9 seeds: a cleanup-runner change was invisible to C06)
ALSO_FOR = {
    f'{L}.futures:TransferCoordinator.announce_done': ['C06'], f'{L}.tasks:Task.__call__': ['C06'],
    f'{UT}:OSUtils.remove_file': ['C19', 'C20'], f'{UT}:OSUtils.rename_file': ['C19', 'C20'],
    f'{L}.tasks:Task._execute_main': ['C05'], f'{MG}:TransferManager.__init__': ['C18'],
    f'{L}.futures:TransferCoordinator.add_failure_cleanup': ['C08', 'C04'], f'{L}.futures:TransferCoordinator.add_done_callback': ['C04'],
}


def register(R):
    for t, more in ALSO_FOR.items():
        if t in R.contracts:
            R.contracts[t].props = tuple(R.contracts[t].props) + tuple(x for x in more if x not in R.contracts[t].props)
    for t, why in TOP_LEVEL.items():
        if t in R.contracts:
            R.contracts[t].top_level = True

    def setm(target, fn):
        if target in R.contracts:
            R.contracts[target].modifies = fn

    def map_locs(ref):
        return [('m', ref, 'present'), ('m', ref, 'vals')]

    # the user's extra_args map gets the default checksum algorithm
    setm(f'{UT}:set_default_checksum_algorithm', lambda c: map_locs(c.a_extra_args))
    setm(f'{BW}:BandwidthLimitedStream._consume_through_leaky_bucket', lambda c: [('f', c.self, '_bytes_seen')])
    setm(f'{PP}:ProcessPoolDownloader._shutdown', lambda c: [('f', c.self, '_started'), ('f', c.self, '_workers')])
    # CRT: a submitted transfer is tracked, the id counter advances, a permit is held until on_done
    setm(f'{CRT}:CRTTransferManager._submit_transfer', lambda c: [
        ('f', c.self, '_id_counter'), ('m', c.old.f(c.self, '_future_coordinators'), 'len'), ('m', c.old.f(c.self, '_future_coordinators'), 'arr'),
        ('m', c.old.f(c.self, '_semaphore'), 'count')])
    # an MRAP access-point ARN is replaced by its resource name in the call arguments
    setm(f'{CRT}:S3ClientArgsCreator._default_get_make_request_args', lambda c: [('f', c.a_call_args, 'bucket')])
    setm(f'{MG}:TransferManager._submit_transfer', lambda c: [('f', c.self, '_id_counter')])
    setm(f'{UT}:ReadFileChunk.enable_callback', lambda c: [('f', c.self, '_callbacks_enabled')])
    setm(f'{UT}:ReadFileChunk.disable_callback', lambda c: [('f', c.self, '_callbacks_enabled')])
    # path downloads append their rename handler to the request's before-list
    setm(f'{CRT}:S3ClientArgsCreator._get_make_request_args_get_object', lambda c: [('i', c.a_on_done_before_calls), ('f', c.a_call_args, 'bucket')])

    # upload submission: consumes the source stream / the probe buffer, rewrites checksum arguments of the user's map
    def up_mod(c):
        tf = c.a_transfer_future
        cargs = c.old.f(c.old.f(tf, '_meta'), '_call_args')
        fo = c.old.f(cargs, 'fileobj')
        out = map_locs(c.old.f(cargs, 'extra_args')) + [('g', ('stream', fo.label), 'pos')]
        mgr = c.args.get('upload_input_manager')
        if mgr is not None and c.old.obj(mgr).cls.name == 'UploadNonSeekableInputManager':
            out.append(('f', mgr, '_initial_data'))
        return out
    setm(f'{UP}:UploadSubmissionTask._submit_upload_request', up_mod)
    setm(f'{UP}:UploadSubmissionTask._submit_multipart_request', up_mod)

    # download submission: the output manager remembers the names / file objects it created
    def dl_mod(c):
        mgr = c.args.get('download_output_manager')
        return [('f', mgr, f) for f in ('_final_filename', '_temp_filename', '_temp_fileobj', '_fileobj') if f in c.old.obj(mgr).fields]
    setm(f'{DL}:DownloadSubmissionTask._submit_download_request', dl_mod)
    setm(f'{DL}:DownloadSubmissionTask._submit_ranged_download_request', dl_mod)

    # streaming destination: the defer queue's internals change (its abstract state is set by `effects`)
    def dq_mod(c):
        q = c.old.f(c.self, '_defer_queue')
        qh = c.old.obj(q)
        out = []
        for f in ('_writes', '_pending_offsets'):
            v = qh.fields.get(f)
            if v is not None:
                for k in ('count', 'present', 'vals', 'len', 'arr', 'arrs'):
                    out.append(('m', v, k))
        return out
    setm(f'{DL}:DownloadNonSeekableOutputManager.get_io_write_tasks', dq_mod)
    setm(f'{DL}:DownloadNonSeekableOutputManager.queue_file_io_task', dq_mod)
