"""Spec functions shared by the sidecar contracts (SMT side)."""
import z3

from pyvc.values import FStr, to_int_term

MiB = 1024 * 1024
GiB = 1024 * MiB
TiB = 1024 * GiB
TWO53 = 2 ** 53


def is_ceil_div(n, s, p):
    """n == ceil(s / p) for p > 0, s >= 0 -- stated without division."""
    n, s, p = to_int_term(n), to_int_term(s), to_int_term(p)
    return z3.And(n * p >= s, (n - 1) * p < s)


def range_header(lo, hi=None):
    """'bytes=<lo>-<hi>' / 'bytes=<lo>-' as a structured string."""
    if hi is None:
        return FStr(['bytes=', lo, '-'], spec=True)
    return FStr(['bytes=', lo, '-', hi], spec=True)


def zand(*xs):
    xs = [x for x in xs if x is not True]
    if any(x is False for x in xs):
        return z3.BoolVal(False)
    return z3.And(xs) if xs else z3.BoolVal(True)


def implies(a, b):
    if a is True:
        return b if not isinstance(b, bool) else z3.BoolVal(b)
    if a is False:
        return z3.BoolVal(True)
    if isinstance(b, bool):
        b = z3.BoolVal(b)
    return z3.Implies(a, b)


def b2z(x):
    return z3.BoolVal(x) if isinstance(x, bool) else x
