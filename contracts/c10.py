"""C10 -- configured concurrency and queue limits are never exceeded.

Wiring (TransferManager.__init__), permit pairing (BoundedExecutor.submit: exactly one acquire on the
right semaphore before the executor gets the task, one release callback on the task future) and stage
typing (every client operation sits in the _main of a task class that every submit site hands to the
request executor; writes go to the IO executor).  The 'at every instant' bound then follows from
A-EXECUTOR (max_workers) and the semaphore monitors (C12 / threading.Semaphore)."""
import z3

from pyvc.contracts import Any, Bool, Const, DictT, ExtSpec, ExtT, Int, ListOfT, LockT, LoopSpec, ObjT, OptT, Str
from pyvc.engine import ok
from pyvc.values import BoundMethod, Closure, ExcV, HObj, Opaque, Opt, Ref, U, fresh_name

from .a_common import F, UT, is_none
from .a_submit import CFG, CP, DE, DL, MG, UP
from .a_tasks import T, TASK, TC, calls, exts, flat, index_of, trivial_loop, only_propagates
from .spec import b2z, implies

B = z3.BoolVal
BE = f'{F}:BoundedExecutor'
TM = f'{MG}:TransferManager'
TSEM = f'{UT}:TaskSemaphore'
SWS = f'{UT}:SlidingWindowSemaphore'
UPT, DLT = Opaque('IN_MEMORY_UPLOAD_TAG', kind='tag'), Opaque('IN_MEMORY_DOWNLOAD_TAG', kind='tag')


def register(R):
    # thread pool of the standard library (A-EXECUTOR): at most max_workers callables run at once, FIFO
    def mk_pool(eng, st, args, kwargs, line):
        p = Opaque(fresh_name('thread_pool'), kind='thread_pool')
        st.ghost[('pool_workers', p.label)] = kwargs.get('max_workers')
        return [ok(p, st)]
    R.builtin_models['concurrent.futures.ThreadPoolExecutor'] = mk_pool
    R.builtin_models['botocore.context.get_context'] = lambda eng, st, args, kwargs, line: [ok(Opaque('botocore_ctx', kind='ctx'), st)]
    R.external('thread_pool', submit=ExtSpec(returns=ExtT('cf_future'), raises=('RuntimeError',), blocking=False),
               shutdown=ExtSpec(raises=(), blocking=True))
    R.external('cf_future', add_done_callback=ExtSpec(raises=()), result=ExtSpec(returns=Any, raises=('Exception',), blocking=True),
               done=ExtSpec(returns=Bool, pure=True))
    R.external('executor_cls', **{'()': ExtSpec(returns=ExtT('thread_pool'), raises=())})

    # ------------------------------------------------------------------ TaskSemaphore
    R.add_fields(TSEM, _semaphore=LockT(kind='semaphore'))

    def tsem_acquire_checks(c):
        ev = exts(c.trace, 'semaphore.acquire')
        return {'one_acquire_of_the_underlying_semaphore_with_the_blocking_flag': B(len(ev) == 1 and ev[0].args == (c.a_blocking,))}

    R.contract(f'{TSEM}.acquire', props=['C10', 'C12'], params=dict(tag=Any, blocking=Bool), checks=tsem_acquire_checks,
               raises={f'{UT}:NoResourcesAvailable': lambda c: {'only_when_not_blocking': z3.Not(b2z(c.a_blocking))}},
               raise_when={f'{UT}:NoResourcesAvailable': lambda c: z3.Not(b2z(c.a_blocking))})
    R.contract(f'{TSEM}.release', props=['C10', 'C12'], params=dict(tag=Any, acquire_token=Any),
               checks=lambda c: {'one_release_of_the_underlying_semaphore': B(len(exts(c.trace, 'semaphore.release')) == 1)}, raises={})
    R.mark_inline(f'{TSEM}.__init__')

    # ------------------------------------------------------------------ BoundedExecutor.submit
    R.add_fields(BE, _max_num_threads=Int, _executor=ExtT('thread_pool'), _semaphore=ObjT(TSEM),
                 _tag_semaphores=Const(lambda eng, st: st.alloc(HObj('dict', items={
                     ('$opaque', 'IN_MEMORY_UPLOAD_TAG'): eng.make_symbolic(ObjT(TSEM), 'upload_tag_sem', st),
                     ('$opaque', 'IN_MEMORY_DOWNLOAD_TAG'): eng.make_symbolic(ObjT(SWS, shared=True), 'download_tag_sem', st)}))))
    R.mark_inline(f'{F}:ExecutorFuture.__init__', f'{F}:ExecutorFuture.add_done_callback', f'{TASK}.transfer_id')

    def be_submit_checks(c):
        tr = c.trace
        acq = [e for e in tr if e.kind == 'call' and e.name.endswith('.acquire')]
        sub = exts(tr, 'thread_pool.submit')
        adc = exts(tr, 'cf_future.add_done_callback')
        tag = c.a_tag
        sems = c.old.obj(c.oldf('_tag_semaphores')).items
        if tag is None:
            want = c.oldf('_semaphore')
        else:
            want = sems[('$opaque', tag.label)]
        okacq = len(acq) == 1 and acq[0].recv == want and acq[0].extra['env']['blocking'] is c.a_block
        out = {
            'exactly_one_permit_acquired_on_the_right_semaphore': B(bool(okacq)),
            'permit_acquired_before_the_executor_gets_the_task': B(
                len(acq) == 1 and len(sub) == 1 and index_of(tr, acq[0]) < index_of(tr, sub[0]) and sub[0].args[0] is c.a_task),
            'task_goes_to_the_executors_thread_pool': B(len(sub) == 1 and sub[0].recv is c.oldf('_executor')),
        }
        okrel = False
        if len(adc) == 1 and len(acq) == 1:
            cb = adc[0].args[0]
            if isinstance(cb, Closure):
                fn = cb.env.get('fn')
                if isinstance(fn, Ref) and c.new.obj(fn).cls.name == 'FunctionContainer':
                    fc = c.new.obj(fn)
                    f = fc.fields['_func']
                    okrel = isinstance(f, BoundMethod) and f.self_val == want and f.finfo.name == 'release' \
                        and len(fc.fields['_args']) == 2 and fc.fields['_args'][1] is acq[0].result \
                        and adc[0].recv is sub[0].result
        out['release_of_the_same_permit_attached_to_the_task_future'] = B(bool(okrel))
        # the permit is keyed by the TRANSFER the task belongs to (the sliding-window semaphore keeps one window per key:
        # keyed by anything shared, unrelated transfers of one manager would wait for each other's lowest part, C18 / C12),
        # and given back under the same key
        tid = c.old.f(c.old.f(c.a_task, '_transfer_coordinator'), 'transfer_id')
        same = lambda a, b: a is b or (z3.is_expr(a) and z3.is_expr(b) and a.eq(b))
        keyed = len(acq) == 1 and same(acq[0].extra['env'].get('tag'), tid)
        if okrel:
            keyed = keyed and same(fc.fields['_args'][0], tid)
        # (a TaskSemaphore only logs the key, so the clause is stated where the key matters: the sliding-window semaphore)
        if isinstance(want, Ref) and c.old.obj(want).cls.name == 'SlidingWindowSemaphore':
            out['permit_is_keyed_by_the_tasks_own_transfer'] = (B(bool(keyed)), ['C18', 'C12', 'C10', 'C11'])
        return out

    R.contract(
        f'{BE}.submit', props=['C10', 'C12', 'C11'],
        params=dict(task=ObjT(TASK), tag=Const(None), block=Bool),
        param_alternatives={'tag': [('untagged', Const(None)), ('upload_tag', Const(UPT)), ('download_tag', Const(DLT))]},
        checks=be_submit_checks,
        # a refused non-blocking submission took no permit: it submits nothing and gives nothing back ("after any set of
        # transfers has finished every semaphore of the manager is back at full capacity" -- not above it)
        raises={f'{UT}:NoResourcesAvailable': lambda c: {
            'nothing_submitted': B(len(exts(c.trace, 'thread_pool.submit')) == 0),
            'nothing_released_for_a_permit_that_was_never_taken': B(not [e for e in c.trace if e.kind == 'call' and e.name.endswith('.release')])},
                'RuntimeError': lambda c: {}},
        raise_when={'Exception': lambda c: None},
        returns=ExtT('future'),
    )

    # every call site in the package passes block=True (a full stage blocks, it never fails)
    R.contract(f'{TC}.submit#', props=[]) if False else None

    # ------------------------------------------------------------------ wiring
    R.external('client', **{'.meta': ExtSpec(returns=lambda eng, st, recv, a, k: Opaque('client_meta', kind='client_meta'), pure=True)})
    R.external('client_meta', **{
        '.events': ExtSpec(returns=lambda eng, st, recv, a, k: Opaque('client_events', kind='event_emitter'), pure=True),
        '.config': ExtSpec(returns=lambda eng, st, recv, a, k: Opaque('client_config', kind='client_config'), pure=True)})
    R.external('client_config', **{'.request_checksum_calculation': ExtSpec(
        returns=lambda eng, st, recv, a, k: z3.String('request_checksum_calculation'), pure=True)})
    R.external('event_emitter', register_first=ExtSpec(raises=()), register_last=ExtSpec(raises=()))
    R.mark_inline(f'{TM}._register_handlers', f'{BE}.__init__',
                  's3transfer.bandwidth:LeakyBucket.__init__', 's3transfer.bandwidth:BandwidthLimiter.__init__',
                  's3transfer.bandwidth:BandwidthRateTracker.__init__', 's3transfer.bandwidth:ConsumptionScheduler.__init__',
                  f'{MG}:TransferCoordinatorController.__init__', f'{UT}:OSUtils.__init__')

    def sem_count(view, sem):
        h = view.obj(sem)
        if h.cls.name == 'TaskSemaphore':
            return view.obj(h.fields['_semaphore']).meta.get('count')
        return h.fields.get('_count')

    def wiring_checks(c):
        v = c.new
        cfg = c.newf('_config')
        cfg = cfg.val if isinstance(cfg, Opt) else cfg
        g = lambda n: v.f(cfg, n)
        req, subm, io = v.obj(c.newf('_request_executor')), v.obj(c.newf('_submission_executor')), v.obj(c.newf('_io_executor'))
        pool = lambda ex: v.st.ghost.get(('pool_workers', ex.fields['_executor'].label))
        tags = v.obj(req.fields['_tag_semaphores']).items
        up, dn = tags.get(('$opaque', 'IN_MEMORY_UPLOAD_TAG')), tags.get(('$opaque', 'IN_MEMORY_DOWNLOAD_TAG'))
        user_cfg = c.a_config
        # the two task tags key the tag-semaphore dict: as values (TaskTag is a namedtuple: equal fields = equal keys) they must
        # differ, or the dict collapses to one entry and one limit silently replaces the other (the tags are otherwise modelled
        # by identity only)
        import ast as _ast
        assigns = c.engine.repo.modules['s3transfer.futures'].assigns
        tv = [assigns[n] for n in ('IN_MEMORY_UPLOAD_TAG', 'IN_MEMORY_DOWNLOAD_TAG')]       # KeyError -> contract does not attach
        if not all(isinstance(x, _ast.Call) and all(isinstance(a, _ast.Constant) for a in x.args) and not x.keywords for x in tv):
            raise KeyError('task tags are not built from constants')
        distinct_tags = _ast.dump(tv[0]) != _ast.dump(tv[1])
        return {
            'the_two_in_memory_tags_are_distinct_dictionary_keys': (B(distinct_tags), ['C10', 'C11', 'C12']),
            'the_users_configuration_is_used_when_one_is_given': (z3.Or(user_cfg.is_none, B(cfg is user_cfg.val)) if isinstance(user_cfg, Opt) else B(cfg is user_cfg), ['C10', 'C11', 'C14']),
            'request_stage_threads_and_queue': B(pool(req) is g('max_request_concurrency')
                                                 and sem_count(v, req.fields['_semaphore']) is g('max_request_queue_size')),
            'submission_stage_threads_and_queue': B(pool(subm) is g('max_submission_concurrency')
                                                    and sem_count(v, subm.fields['_semaphore']) is g('max_submission_queue_size')),
            'io_stage_single_thread_and_queue': B(pool(io) == 1 and sem_count(v, io.fields['_semaphore']) is g('max_io_queue_size')),
            'in_memory_upload_chunks_semaphore': B(up is not None and v.obj(up).cls.name == 'TaskSemaphore'
                                                   and sem_count(v, up) is g('max_in_memory_upload_chunks')),
            'in_memory_download_chunks_sliding_window': B(dn is not None and v.obj(dn).cls.name == 'SlidingWindowSemaphore'
                                                          and sem_count(v, dn) is g('max_in_memory_download_chunks')),
            'three_distinct_executors': B(len({c.newf('_request_executor').oid, c.newf('_submission_executor').oid, c.newf('_io_executor').oid}) == 3),
            'one_shared_leaky_bucket_iff_bandwidth_limited': (z3.If(
                is_none(g('max_bandwidth')), B(c.newf('_bandwidth_limiter') is None), B(isinstance(c.newf('_bandwidth_limiter'), Ref))), ['C13', 'C10']),
            # C09: botocore reads (and rewinds) an upload body while it prepares the request; those reads are not
            # transfer progress: reporting is switched off first and switched on last around 'request-created'
            'upload_progress_reporting_is_bracketed_around_request_creation': (B(_handlers_ok(c)), ['C09']),
        }

    def _handlers_ok(c):
        from pyvc.values import FuncRef
        ev = [e for e in c.trace if e.kind == 'ext' and e.name in ('event_emitter.register_first', 'event_emitter.register_last')]
        if len(ev) != 2:
            return False
        first = [e for e in ev if e.name.endswith('register_first')]
        last = [e for e in ev if e.name.endswith('register_last')]
        return len(first) == 1 and len(last) == 1 and first[0].args[0] == 'request-created.s3' and last[0].args[0] == 'request-created.s3' \
            and isinstance(first[0].args[1], FuncRef) and first[0].args[1].finfo.name == 'signal_not_transferring' \
            and isinstance(last[0].args[1], FuncRef) and last[0].args[1].finfo.name == 'signal_transferring'

    R.contract(
        f'{TM}.__init__', props=['C10', 'C11', 'C13', 'C09'],
        params=dict(client=ExtT('client'), config=OptT(ObjT(CFG)), osutil=Const(None), executor_cls=Const(None)),
        self_type=ObjT(TM, _client=Const(None), _config=Const(None), _osutil=Const(None), _coordinator_controller=Const(None),
                       _id_counter=Const(None), _request_executor=Const(None), _submission_executor=Const(None),
                       _io_executor=Const(None), _bandwidth_limiter=Const(None)),
        inline_callees=[f'{SWS}.__init__'],
        checks=wiring_checks,
    )
    R.contracts[f'{TM}.__init__'].real_arithmetic = True   # float(max_bandwidth): A-REAL (C13)

    # config values are all positive
    def cfg_checks(c):
        from .a_submit import CONFIG_FIELDS
        out = {}
        for k, t in CONFIG_FIELDS.items():
            v = c.newf(k)
            out[f'{k}_positive'] = (v > 0) if t is Int else z3.Or(is_none(v), (v.val if isinstance(v, Opt) else v) > 0)
        return out

    def cfg_bad(c):
        from .a_submit import CONFIG_FIELDS
        bad = []
        for k, t in CONFIG_FIELDS.items():
            v = c.oldf(k)
            bad.append((v <= 0) if t is Int else z3.And(z3.Not(is_none(v)), (v.val if isinstance(v, Opt) else v) <= 0))
        return z3.Or(bad)

    # verified on an UNVALIDATED object (the validity predicate of TransferConfig is what this function establishes)
    R.contract(f'{MG}:TransferConfig._validate_attrs_are_nonzero', props=['C10', 'C11', 'C14'], params={},
               self_type=ObjT(f'{MG}:TransferConfig', unvalidated=True),
               ensures=lambda c: dict(cfg_checks(c)),
               raises={'ValueError': lambda c: {'some_value_is_not_positive': cfg_bad(c)}},
               raise_when={'ValueError': cfg_bad}, modifies=lambda c: [])

    def cfg_init_post(c):
        from .a_submit import CONFIG_FIELDS
        out = dict(cfg_checks(c))
        for k in CONFIG_FIELDS:
            a, f = getattr(c, 'a_' + k), c.newf(k)
            same = (a is f) or (isinstance(a, Opt) and isinstance(f, Opt) and a.is_none is f.is_none and a.val is f.val)
            if not same and z3.is_expr(a) and z3.is_expr(f):
                same = a == f
            out[f'{k}_is_the_argument'] = same if z3.is_expr(same) else B(bool(same))
        return out

    from .a_submit import CONFIG_FIELDS as _CF

    def cfg_bad_args(c):
        from pyvc.values import to_int_term
        bad = []
        for k, t in _CF.items():
            v = getattr(c, 'a_' + k)
            if isinstance(v, Opt):
                bad.append(z3.And(z3.Not(v.is_none), v.val <= 0))
            elif v is not None:
                bad.append(to_int_term(v) <= 0)
        return z3.simplify(z3.Or(bad))
    R.contract(f'{MG}:TransferConfig.__init__', props=['C10', 'C11', 'C14'], params=dict(_CF),
               self_type=ObjT(f'{MG}:TransferConfig', unvalidated=True, **{k: Const(None) for k in _CF}),
               ensures=cfg_init_post, raises={'ValueError': lambda c: {'some_argument_is_not_positive': cfg_bad_args(c)}},
               raise_when={'ValueError': lambda c: cfg_bad_args(c)},
               effects=lambda c, st: [st.obj(c.self).fields.__setitem__(k, getattr(c, 'a_' + k)) for k in _CF] and None)

    # ------------------------------------------------------------------ IO stage typing
    DOM = f'{DL}:DownloadOutputManager'

    def io_submit_checks(c):
        sub = calls(c.trace, 'TransferCoordinator.submit')
        okk = len(sub) == 1 and sub[0].extra['env']['executor'] is c.oldf('_io_executor')
        if okk:
            th = c.new.obj(sub[0].extra['env']['task'])
            okk = th.cls.name == 'IOWriteTask' and th.fields['_is_final'] is False
        return {'write_task_goes_to_the_io_executor': (B(bool(okk)), ['C10', 'C02'])}

    cq = R.contracts[f'{DOM}.queue_file_io_task']
    cq.checks, cq.raises, cq.props = io_submit_checks, {'Exception': only_propagates}, ('C10', 'C02')
    cq.inline_callees = (f'{DOM}.get_io_write_task',)
    R.mark_inline(f'{DOM}.get_io_write_task#') if False else None


def configure(eng):
    eng.ieee_checks = False   # float(max_bandwidth): A-REAL (C13); the planners' IEEE obligations belong to C14


UST, CST, DST = f'{UP}:UploadSubmissionTask', f'{CP}:CopySubmissionTask', f'{DL}:DownloadSubmissionTask'
ROOTS = [
    f'{TM}.__init__', f'{MG}:TransferConfig._validate_attrs_are_nonzero', f'{MG}:TransferConfig.__init__', f'{BE}.submit', f'{TSEM}.acquire', f'{TSEM}.release',
    f'{SWS}.acquire', f'{SWS}.release',
    f'{UST}._submit_upload_request', f'{UST}._submit_multipart_request', f'{CST}._submit', f'{CST}._submit_copy_request',
    f'{CST}._submit_multipart_request', f'{DST}._submit', f'{DST}._submit_download_request', f'{DST}._submit_ranged_download_request',
    f'{DE}:DeleteSubmissionTask._submit',
    f'{UP}:PutObjectTask._main', f'{UP}:UploadPartTask._main', f'{CP}:CopyObjectTask._main', f'{CP}:CopyPartTask._main',
    f'{DE}:DeleteObjectTask._main', f'{DL}:GetObjectTask._main', f'{T}:CreateMultipartUploadTask._main',
    f'{T}:CompleteMultipartUploadTask._main', f'{DL}:DownloadOutputManager.queue_file_io_task',
]

MANIFEST = dict(
    category='proof',
    text=('Wiring postcondition of TransferManager.__init__ (each stage gets its configured thread count and queue size, '
          'IO stage one thread, tag semaphores sized by the in-memory chunk limits, config values positive); '
          'BoundedExecutor.submit acquires exactly one permit on the right semaphore before the pool gets the task and '
          'attaches the release of that same permit to the task future (for untagged / upload-tagged / download-tagged '
          'tasks); every submit site of every submission function hands request tasks to the request executor and write '
          'tasks to the IO executor, and each request task issues exactly one client operation.'
          ' Released stream writes are submitted to the IO executor inside the critical section that released them.'
          " Also: TransferConfig.__init__ stores each argument in its own field and rejects non-positive values (verified on unvalidated objects); the user's config is the one used; NonThreadedExecutorFuture.add_done_callback runs at once on a finished future."),
    note=('The instant-by-instant bound is derived from these contracts plus A-EXECUTOR (ThreadPoolExecutor runs at most '
          'max_workers callables) and the semaphore invariants (C12, threading.Semaphore); it is not observed on a schedule. '
          'abort_multipart_upload runs in the announcing thread (not among the bounded requests of the statement).'),
    technique='contract-based deductive verification: wiring / pairing / stage-typing contracts on the real code',
)
LEVEL = 'proof'
TRUSTED = ['A-EXECUTOR', 'A-LOCK threading.Semaphore']
ASSUMPTIONS = TRUSTED
EXPLANATION = 'wiring, permit pairing and stage typing'
