"""C17 -- a transfer's state only moves forward and stays self-consistent.

K2 monitor on TransferCoordinator._lock (invariant + two-state guarantee checked at every release
of the lock in every method) plus per-method postconditions relative to the state found when the
lock was acquired (old_at='acquire'): that state is arbitrary up to the invariant, which is what
makes the result hold in every interleaving of the coordinator's methods."""
import z3

from pyvc.contracts import Any, Bool, Const, ExtT, Int, ObjT, OptT, Str
from pyvc.values import ExcV, Opaque, Opt

from .a_common import DONE, F, S, STATUSES, is_none, mk_exc, opt_eq, same_value, status_in, term_of
from .spec import b2z, implies

TC = f'{F}:TransferCoordinator'
SHARED = ObjT(TC, shared=True)


def unchanged(c):
    eng, st = c.engine, c.new.st
    return z3.And(S(c.newf('_status')) == S(c.oldf('_status')),
                  opt_eq(eng, st, c.newf('_exception'), c.oldf('_exception')),
                  same_value(eng, st, c.newf('_result'), c.oldf('_result')))


def exc_is(c, field_val, exc):
    """stored exception (Opt / value) is exactly `exc`."""
    v = field_val.val if isinstance(field_val, Opt) else field_val
    return z3.And(z3.Not(is_none(field_val)), term_of(v) == term_of(exc))


def register(R):
    # ------------------------------------------------------------------ set_result
    R.contract(
        f'{TC}.set_result', props=['C17', 'C03'], self_type=SHARED, old_at='acquire',
        params=dict(result=ExtT('result')),
        ensures=lambda c: {
            'status_success': b2z(S(c.newf('_status')) == z3.StringVal('success')),
            'exception_cleared': is_none(c.newf('_exception')),
            'result_stored': same_value(c.engine, c.new.st, c.newf('_result'), c.a_result),
        },
        twins=lambda c: {'keeps_old_exception': opt_eq(c.engine, c.new.st, c.newf('_exception'), c.oldf('_exception'))},
    )

    # ------------------------------------------------------------------ set_exception
    def set_exception_post(c):
        old_done = status_in(c.oldf('_status'), DONE)
        ov = b2z(c.engine.truthy(c.a_override, c.new.st))
        takes = z3.Or(z3.Not(old_done), ov)
        return {
            'recorded_when_not_done_or_override': implies(
                takes, z3.And(S(c.newf('_status')) == z3.StringVal('failed'), exc_is(c, c.newf('_exception'), c.a_exception))),
            'first_failure_wins': implies(z3.Not(takes), unchanged(c)),
            'result_untouched': same_value(c.engine, c.new.st, c.newf('_result'), c.oldf('_result')),
        }

    def set_exception_call_site(c):
        # call-site rule (nothing is assumed from it at the function's own root): inside the package nobody overrides a
        # recorded outcome -- "the first failure or cancellation recorded is the one reported"; only the public
        # TransferFuture.set_exception (documented: only once the transfer is done) passes override=True
        if c.engine.cur_root_target_inline == f'{TC}.set_exception':
            return []
        if c.engine.cur_root_target_inline in (f'{TF}.set_exception',):
            return []
        ov = c.args.get('override')
        falsy = ov is False or ov is None or (isinstance(ov, tuple) and len(ov) == 2 and ov[0] == '$default')
        if not falsy and z3.is_expr(ov):
            return [('recorded_outcome_is_never_overridden_inside_the_package', z3.Not(ov), ['C17', 'C07', 'C03'])]
        return [('recorded_outcome_is_never_overridden_inside_the_package', z3.BoolVal(bool(falsy)), ['C17', 'C07', 'C03'])]

    R.contract(
        f'{TC}.set_exception', props=['C17', 'C03', 'C05'], self_type=SHARED, old_at='acquire',
        params=dict(exception=ExtT('exception'), override=Bool),
        requires=set_exception_call_site,
        ensures=set_exception_post,
        twins=lambda c: {'always_overrides': S(c.newf('_status')) == z3.StringVal('failed')},
    )

    # ------------------------------------------------------------------ cancel
    def cancel_post(c):
        old_done = status_in(c.oldf('_status'), DONE)
        announced = [e for e in c.trace if e.kind == 'call' and e.name.endswith('TransferCoordinator.announce_done')]
        exp = mk_exc(c.a_exc_type.term, c.a_msg.term)
        newexc = c.newf('_exception')
        v = newexc.val if isinstance(newexc, Opt) else newexc
        return {
            'cancels_when_not_done': implies(z3.Not(old_done), z3.And(
                S(c.newf('_status')) == z3.StringVal('cancelled'), z3.Not(is_none(newexc)),
                term_of(v) == exp if v is not None else z3.BoolVal(False))),
            'finished_transfer_keeps_result': implies(old_done, unchanged(c)),
            'announces_iff_not_started': b2z(len(announced) <= 1) if True else None,
            'announce_only_if_was_not_started': implies(
                z3.BoolVal(len(announced) > 0), S(c.oldf('_status')) == z3.StringVal('not-started')),
            'announce_if_was_not_started': implies(
                S(c.oldf('_status')) == z3.StringVal('not-started'), z3.BoolVal(len(announced) == 1)),
        }

    R.contract(
        f'{TC}.cancel', props=['C17', 'C07', 'C04', 'C05'], self_type=SHARED, old_at='acquire',   # C05: a finished (completed) upload is never re-labelled cancelled without its abort
        params=dict(msg=ExtT('str'), exc_type=ExtT('excclass')),
        ensures=cancel_post,
        twins=lambda c: {'always_cancels': S(c.newf('_status')) == z3.StringVal('cancelled')},
    )

    # ------------------------------------------------------------------ transitions
    def trans_post(c):
        return {
            'moves_to_requested_state': S(c.newf('_status')) == S(c.a_desired_state),
            'was_not_done': z3.Not(status_in(c.oldf('_status'), DONE)),
            'exception_and_result_untouched': z3.And(
                opt_eq(c.engine, c.new.st, c.newf('_exception'), c.oldf('_exception')),
                same_value(c.engine, c.new.st, c.newf('_result'), c.oldf('_result'))),
        }

    R.contract(
        f'{TC}._transition_to_non_done_state', props=['C17', 'C07'], self_type=SHARED, old_at='acquire',
        params=dict(desired_state=Str),
        requires=lambda c: [status_in(c.a_desired_state, ['queued', 'running'])],
        ensures=trans_post,
        raises={'RuntimeError': lambda c: {
            'no_restart_only_when_done': status_in(c.oldf('_status'), DONE),
            'state_unchanged': unchanged(c),
        }},
        raise_when={'RuntimeError': lambda c: None},
    )
    for m, lit in (('set_status_to_queued', 'queued'), ('set_status_to_running', 'running')):
        R.contract(
            f'{TC}.{m}', props=['C17', 'C07'], self_type=SHARED, old_at='acquire', params={},
            inline_callees=[f'{TC}._transition_to_non_done_state'],
            ensures=lambda c, lit=lit: {
                'status_is_' + lit: S(c.newf('_status')) == z3.StringVal(lit),
                'was_not_done': z3.Not(status_in(c.oldf('_status'), DONE)),
            },
            raises={'RuntimeError': lambda c: {'only_when_done': status_in(c.oldf('_status'), DONE),
                                               'state_unchanged': unchanged(c)}},
            raise_when={'RuntimeError': lambda c: None},
        )

    # ------------------------------------------------------------------ done / result
    R.contract(
        f'{TC}.done', props=['C17'], self_type=ObjT(TC), params={}, inline=True,
        ensures=lambda c: {'done_iff_final_status': b2z(c.result) == status_in(c.oldf('_status'), DONE)},
    )

    # result(): A-STABLE-AFTER-DONE -- once the done event is set no set_result follows (the final
    # task sets the result before it announces; C04 exactly-one-announcer); so the two unlocked reads
    # of _exception see one value.  Under that assumption the coordinator is read sequentially.
    R.contract(
        # result() is the barrier everything else leans on (cleanups / aborts done, temp files gone, shutdown waits through it):
        # it returns or raises only after it waited for the done event -- on every path, also for an already failed transfer
        f'{TC}.result', props=['C17', 'C03', 'C05', 'C06', 'C07', 'C08', 'C18'], self_type=ObjT(TC), params={},
        returns=ExtT('result'), raise_when={'Exception': lambda c: None, 'KeyboardInterrupt': lambda c: None},
        setup=lambda eng, st, args, self_val: st.assume(_inv_at(eng, st, self_val)),
        ensures=lambda c: {
            'returns_result_only_without_exception': z3.And(
                is_none(c.oldf('_exception')), same_value(c.engine, c.new.st, c.result, c.oldf('_result'))),
        },
        checks=lambda c: {'waited_for_done_event': z3.BoolVal(any(e.name == 'event.wait' for e in c.trace))},
        raises={
            '$stored': lambda c: {'raises_exactly_the_stored_exception': z3.And(
                z3.Not(is_none(c.oldf('_exception'))), c.exc.attrs['term'] == term_of(c.oldf('_exception').val)),
                'waited_for_done_event': z3.BoolVal(any(e.name == 'event.wait' for e in c.trace))},
            'KeyboardInterrupt': lambda c: {'only_from_the_wait': z3.BoolVal(True)},
        },
    )

    # TransferFuture wrappers
    TF = f'{F}:TransferFuture'
    R.add_fields(TF, _coordinator=ObjT(TC, shared=True))
    R.contract(
        f'{TF}.set_exception', props=['C17'], params=dict(exception=ExtT('exception')),
        ensures=lambda c: {'delegates_with_override': z3.BoolVal(any(
            e.kind == 'call' and e.name == f'{TC}.set_exception' and e.extra['env'].get('override') is True
            and e.extra['env'].get('exception') is c.a_exception for e in c.trace)),
            'only_on_a_transfer_seen_finished': _seen_done(c)},
        raises={f's3transfer.exceptions:TransferNotDoneError': lambda c: {
            'coordinator_untouched': z3.BoolVal(not any(e.kind == 'call' and e.name == f'{TC}.set_exception' for e in c.trace)),
            'only_when_the_transfer_was_seen_unfinished': z3.Not(_seen_done(c))}},
    )


def _seen_done(c):
    reads = [e for e in c.trace if e.kind == 'read' and e.name == '_status']
    return status_in(reads[-1].result, DONE) if reads else z3.BoolVal(False)


def _inv_at(eng, st, ref):
    stt, exc = S(st.obj(ref).fields['_status']), st.obj(ref).fields['_exception']
    return z3.And(status_in(stt, STATUSES), status_in(stt, ['failed', 'cancelled']) == z3.Not(is_none(exc)))


def coord_inv_formula(c):
    st, exc = S(c.oldf('_status')), c.oldf('_exception')
    return z3.And(status_in(st, STATUSES), status_in(st, ['failed', 'cancelled']) == z3.Not(is_none(exc)))


ROOTS = [
    f'{TC}.set_result', f'{TC}.set_exception', f'{TC}.cancel', f'{TC}._transition_to_non_done_state',
    f'{TC}.set_status_to_queued', f'{TC}.set_status_to_running', f'{TC}.done', f'{TC}.result',
    f'{F}:TransferFuture.set_exception',
]

EXPLANATION = ('Monitor invariant and two-state guarantee of TransferCoordinator._lock discharged at every lock '
               'release of every method; method postconditions are relative to the (arbitrary, invariant-satisfying) '
               'state found at lock acquisition, so they hold for all interleavings and all histories, unbounded.')
TRUSTED = ['A-LOCK threading.Lock is a mutex', 'A-GIL single attribute loads/stores are atomic',
           'A-EXC-TRUTHY exception objects are truthy',
           'A-STABLE-AFTER-DONE (result() only): no set_result after the done event is set']
ASSUMPTIONS = TRUSTED

MANIFEST = dict(
    category='proof',
    text=('Monitor (representation) invariant and two-state guarantee of TransferCoordinator discharged at every '
          'release of its lock in every state-changing method, plus per-method postconditions relative to the '
          'arbitrary invariant-satisfying state found at lock acquisition: holds for every operation sequence (no '
          'length bound) and every interleaving of the coordinator methods, because critical sections are atomic.'
          ' Also: call-site rule -- inside the package set_exception is never called with override (only the public TransferFuture.set_exception passes it); CRT coordinator: once a request is attached, done() is what its finished future says, and result() keeps that future attached.'),
    note=('threading.Lock is a mutex (A-LOCK); attribute loads are atomic (A-GIL); unlocked reads return arbitrary '
          'values; result() assumes no set_result after the done event (A-STABLE-AFTER-DONE).'),
    technique='contract-based deductive verification: monitor invariants + rely/guarantee on the real methods, z3',
)
LEVEL = 'proof'
