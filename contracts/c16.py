"""C16 -- streaming destinations are written strictly in order, each byte once.

Abstract view of a DeferQueue: next (= _next_offset) and the multiset Q of withheld chunks, each
chunk being determined by (offset, length) because of the history precondition taken from the
property's quantifier: every delivery request_writes(o, d) has d == obj[o : o+len(d)] (what the
download loop can produce is proved in C02).  Bytes are views of the ghost object `obj`, so content
equality is interval arithmetic."""
import z3

from pyvc.contracts import (
    Any, Bool, BytesT, ExtSpec, ExtT, HeapT, Int, ListOfT, LockT, LoopSpec, MapT, ObjT, OptT, RecordT, SetT,
)
from pyvc.values import BytesV, Ref, fresh_name, to_int_term

from .a_tasks import TC, calls, exts, index_of
from .spec import b2z, implies

B = z3.BoolVal
D = 's3transfer.download'
DQ = f'{D}:DeferQueue'
WRITES_T = ListOfT(RecordT(offset=Int, data=BytesT('obj')))

o_, l_, i_, p_ = z3.Ints('o_ l_ i_ p_')


def sel2(c, o, l):
    return z3.Select(z3.Select(c, o), l)


def heap_count(view, ref):
    return view.obj(view.f(ref, '_writes')).meta['count']


def pend(view, ref):
    h = view.obj(view.f(ref, '_pending_offsets'))
    return h.meta['present'], h.meta['vals']


def rep_inv(view, ref, strict=True):
    """Representation invariant between calls."""
    c = heap_count(view, ref)
    pres, vals = pend(view, ref)
    nxt = view.f(ref, '_next_offset')
    inv = {
        'next_nonneg': nxt >= 0,
        'counts_nonneg': z3.ForAll([o_, l_], sel2(c, o_, l_) >= 0),
        'queued_chunks_have_nonneg_length': z3.ForAll([o_, l_], z3.Implies(sel2(c, o_, l_) > 0, l_ >= 0)),
        # the longest chunk recorded for an offset is really queued (duplicate suppression is lossless)
        'recorded_longest_chunk_is_queued': z3.ForAll([o_], z3.Implies(z3.Select(pres, o_), sel2(c, o_, z3.Select(vals, o_)) > 0)),
    }
    if strict:
        # released as soon as contiguous: nothing withheld starts at or before next
        inv['withheld_chunks_start_after_next'] = z3.ForAll([o_, l_], z3.Implies(sel2(c, o_, l_) > 0, o_ > nxt))
    return inv


def writes_view(st, v):
    """(len, off(i), lo(i), hi(i)) of a list of write records (concrete empty list or record slist)."""
    h = st.obj(v)
    if h.kind == 'list':
        if h.items:
            raise ValueError('non-empty concrete writes list')
        zero = lambda i: z3.IntVal(0)
        return z3.IntVal(0), zero, zero, zero
    a = h.meta['arrs']
    return (to_int_term(h.meta['len']), lambda i: z3.Select(a['offset'], i),
            lambda i: z3.Select(a['data'][1], i), lambda i: z3.Select(a['data'][2], i))


def consecutive(st, v, start, end):
    """The writes are views of obj, each at its own offset, back to back from `start` to `end`."""
    n, off, lo, hi = writes_view(st, v)
    return z3.And(
        n >= 0,
        z3.ForAll([i_], z3.Implies(z3.And(i_ >= 0, i_ < n), z3.And(off(i_) == lo(i_), hi(i_) >= lo(i_)))),
        z3.ForAll([i_], z3.Implies(z3.And(i_ >= 0, i_ < n - 1), lo(i_ + 1) == hi(i_))),
        z3.If(n > 0, z3.And(lo(0) == start, hi(n - 1) == end), end == start),
    )


def register(R):
    R.add_fields(DQ, _writes=HeapT('obj'), _pending_offsets=MapT('Int', Int), _next_offset=Int,
                 valid=lambda view, ref: list(rep_inv(view, ref).values()) if isinstance(view.f(ref, '_writes'), Ref) else [])

    def loop_inv(l):
        self = l.local('self')
        view, pre = _V(l.st), _V(l.pre)
        c, c0 = heap_count(view, self), heap_count(pre, self)
        nxt, nxt0 = view.f(self, '_next_offset'), pre.f(self, '_next_offset')
        inv = dict(rep_inv(view, self, strict=False))
        inv.update({
            'next_only_grows': nxt >= nxt0,
            'writes_are_consecutive_from_old_next': consecutive(l.st, l.local('writes'), nxt0, nxt),
            # nothing is lost: a chunk that was queued when the loop started is still queued or fully written
            'popped_chunks_are_fully_written': z3.ForAll([o_, l_], z3.Implies(
                sel2(c0, o_, l_) > 0, z3.Or(sel2(c, o_, l_) > 0, o_ + l_ <= nxt))),
            'no_new_chunks': z3.ForAll([o_, l_], sel2(c, o_, l_) <= sel2(c0, o_, l_)),
        })
        return inv

    def havoc(l):
        self = l.local('self')
        st = l.st
        hp = st.obj(st.obj(self).fields['_writes'])
        hp.meta['count'] = z3.Array(fresh_name('count'), z3.IntSort(), z3.ArraySort(z3.IntSort(), z3.IntSort()))
        hp.meta.pop('nonempty_cache', None)
        pm = st.obj(st.obj(self).fields['_pending_offsets'])
        pm.meta['present'] = z3.Array(fresh_name('pend_present'), z3.IntSort(), z3.BoolSort())
        pm.meta['vals'] = z3.Array(fresh_name('pend_vals'), z3.IntSort(), z3.IntSort())
        l.havoc_field(self, '_next_offset', Int)

    def post(c):
        st = c.new.st
        self = c.self
        nxt0, nxt = c.oldf('_next_offset'), c.newf('_next_offset')
        cnt0, cnt = heap_count(c.old, self), heap_count(c.new, self)
        pres0, vals0 = pend(c.old, self)
        off, d = c.a_offset, c.a_data
        n = to_int_term(d.hi) - to_int_term(d.lo)
        seen = z3.If(nxt0 > off, nxt0 - off, 0)
        oe, le = off + seen, n - seen          # the part of the delivery that was still unseen
        out = {
            # P1 -- strictly in order, each byte once
            'released_writes_are_consecutive_from_next': consecutive(st, c.result, nxt0, nxt),
            'next_only_grows': nxt >= nxt0,
            # P3 -- nothing delivered is lost: every byte of the delivery is written, or lies in a
            #       chunk that is still withheld
            'no_delivered_byte_is_lost': z3.ForAll([p_], z3.Implies(
                z3.And(p_ >= off, p_ < off + n),
                z3.Or(p_ < nxt,
                      z3.And(sel2(cnt, oe, le) > 0, p_ >= oe),
                      z3.And(z3.Select(pres0, oe), sel2(cnt, oe, z3.Select(vals0, oe)) > 0,
                             le <= z3.Select(vals0, oe), p_ >= oe)))),
            'withheld_chunks_are_kept_or_fully_written': z3.ForAll([o_, l_], z3.Implies(
                sel2(cnt0, o_, l_) > 0, z3.Or(sel2(cnt, o_, l_) > 0, o_ + l_ <= nxt))),
        }
        # P2/P4 -- representation invariant re-established (incl. 'released as soon as contiguous')
        for k, f in rep_inv(c.new, self).items():
            out['inv.' + k] = f
        return out

    R.contract(
        f'{DQ}.request_writes', props=['C16', 'C02'], top=True,
        params=dict(offset=Int, data=BytesT('obj')),
        requires=lambda c: [c.a_offset >= 0, to_int_term(c.a_data.lo) == c.a_offset],
        ensures=post,
        raises={},
        effects=_call_site_effects,
        loops={0: LoopSpec(invariant=loop_inv, local_types={'writes': WRITES_T}, havoc_heap=havoc)},
        twins=lambda c: {'never_releases_anything': c.newf('_next_offset') == c.oldf('_next_offset')},
    )

    R.contract(
        f'{DQ}.__init__', props=['C16'], params={},
        self_type=ObjT(DQ, _writes=_NoneT(), _pending_offsets=_NoneT(), _next_offset=_NoneT()),
        checks=lambda c: {
            'starts_at_offset_zero': b2z(c.newf('_next_offset') == 0),
            'starts_empty': B(_is_empty_list(c.new, c.newf('_writes')) and _is_empty_dict(c.new, c.newf('_pending_offsets'))),
        },
    )


def _call_site_effects(c, st):
    """At call sites: the queue's representation is replaced by fresh values constrained by the
    postcondition (which is then assumed), the result is a fresh list of write records."""
    eng = c.engine
    q = st.obj(c.self)
    hp = st.obj(q.fields['_writes'])
    hp.meta['count'] = z3.Array(fresh_name('count'), z3.IntSort(), z3.ArraySort(z3.IntSort(), z3.IntSort()))
    hp.meta.pop('nonempty_cache', None)
    pm = st.obj(q.fields['_pending_offsets'])
    pm.meta['present'] = z3.Array(fresh_name('pend_present'), z3.IntSort(), z3.BoolSort())
    pm.meta['vals'] = z3.Array(fresh_name('pend_vals'), z3.IntSort(), z3.IntSort())
    q.fields['_next_offset'] = z3.Int(fresh_name('next_offset'))
    return eng.make_symbolic(WRITES_T, 'writes', st)


class _V:
    def __init__(self, st):
        self.st = st

    def f(self, ref, name):
        return self.st.obj(ref).fields[name]

    def obj(self, ref):
        return self.st.obj(ref)


def _NoneT():
    from pyvc.contracts import Const
    return Const(None)


def _is_empty_list(view, v):
    return isinstance(v, Ref) and view.obj(v).kind == 'list' and not view.obj(v).items


def _is_empty_dict(view, v):
    return isinstance(v, Ref) and view.obj(v).kind == 'dict' and not view.obj(v).items


ROOTS = [f'{DQ}.__init__', f'{DQ}.request_writes',
         # which destinations get the deferring manager: a special file also when the name reaches it through a link
         's3transfer.utils:OSUtils.is_special_file']

MANIFEST = dict(
    category='proof',
    text=('Representation invariant and postcondition of the real DeferQueue.request_writes over an abstract view '
          '(next offset, multiset of withheld chunks), for ANY delivery (offset, length) whose data is the object '
          'slice at that offset -- any order, any split, any overlap with written or queued data: released writes '
          'are back-to-back views starting at the old next offset (each byte once, increasing), nothing delivered is '
          'lost (every byte is written or lies in a still-withheld chunk), nothing withheld starts at or before next '
          '(released as soon as contiguous). Loop invariant, no bound on history length or chunk sizes.'),
    note=('heapq push/pop are builtin contracts over the multiset view (pop returns a minimum); bytes are views of a '
          'ghost object (the history precondition d == obj[o:o+len d] is proved for the download loop in C02); the '
          'single IO thread executes submitted writes in submission order (A-EXECUTOR).'),
    technique='contract-based deductive verification: class invariant + loop invariant over an abstract multiset view, z3 with quantifiers',
)
LEVEL = 'proof'
TRUSTED = ['heapq.heappush/heappop builtin contract (multiset, pop returns a minimal element)', 'A-EXECUTOR']
ASSUMPTIONS = TRUSTED
EXPLANATION = 'DeferQueue verified against an abstract multiset view for all delivery histories'


def bounded_checks(tier, seed):
    """B3: exhaustive delivery histories over a small object against the real DeferQueue."""
    from pyvc.bounded import run_tool
    n, k = (6, 3) if tier == 'quick' else (7, 4)
    from pyvc.bounded import merge
    n2, k2 = (5, 3) if tier == 'quick' else (6, 4)
    return merge(
        run_tool('C16', 'b3_deferqueue', 'b3_deferqueue.py', [n, k],
                 f'object of {n} bytes, all histories of <= {k} deliveries (any offset/length)', 'failing_history'),
        run_tool('C16', 'b3_streamsink', 'b3_streamsink.py', [n2, k2],
                 f'real stream output manager (immediate and queued writes), object of {n2} bytes, all histories of <= {k2} deliveries', 'failing_history'))
