"""C20 -- CRT manager glue: one permit per transfer, ordered completion, temp cleanup.

awscrt is not installed: crt.py cannot be imported, the AST route is the only one that sees it.
A-CRT: the CRT client calls the on_done it was given exactly once per successfully created request
(success, error or cancel).  Subscriber callbacks are assumed not to raise inside the composed CRT
callback (the code does not guard them)."""
import z3

from pyvc.contracts import Any, Bool, Const, ExtSpec, ExtT, Int, ListOfT, LockT, LoopSpec, ObjT, OptT, Str
from pyvc.values import BoundMethod, Closure, ExcV, Opaque, Opt, Ref

from .a_common import is_none
from .a_submit import UT
from .a_tasks import calls, exts, flat, index_of, trivial_loop, only_propagates
from .spec import b2z, implies

B = z3.BoolVal
CRT = 's3transfer.crt'
MGR, ARGS, COORD = f'{CRT}:CRTTransferManager', f'{CRT}:S3ClientArgsCreator', f'{CRT}:CRTTransferCoordinator'
RTH, ADH = f'{CRT}:RenameTempFileHandler', f'{CRT}:AfterDoneHandler'


def configure(eng):
    # inside the composed CRT callback subscriber callbacks are assumed not to raise (stated assumption)
    from pyvc.contracts import ExtSpec as E
    for k in ('on_done_cb', 'on_queued_cb', 'on_progress_cb'):
        eng.registry.externals.setdefault(k, {})['()'] = E(raises=(), user_code=True)
    eng.registry.externals['on_queued_cb']['()'] = E(raises=('Exception',), user_code=True)


def register(R):
    R.external('crt_client', make_request=ExtSpec(returns=ExtT('crt_request'), raises=('Exception',)))
    R.external('crt_request', cancel=ExtSpec(raises=()), **{'.finished_future': ExtSpec(
        returns=lambda eng, st, recv, a, k: Opaque('finished_future', kind='cf_future'), pure=True)})
    R.external('serializer', serialize_http_request=ExtSpec(returns=ExtT('http_request'), raises=('Exception',)),
               translate_crt_exception=ExtSpec(returns=OptT(ExtT('exception')), raises=('Exception',)))
    R.external('crt_coordinator', done=ExtSpec(returns=Bool, raises=()), cancel=ExtSpec(raises=()),
               result=ExtSpec(raises=('Exception', 'KeyboardInterrupt'), blocking=True),
               wait_until_on_done_callbacks_complete=ExtSpec(raises=(), blocking=True))
    R.external('on_progress_cb', **{'()': ExtSpec(raises=(), user_code=True)})

    R.add_fields(ARGS, _request_serializer=ExtT('serializer'), _os_utils=ObjT(f'{UT}:OSUtils'))
    R.add_fields(MGR, _osutil=ObjT(f'{UT}:OSUtils'), _crt_s3_client=ExtT('crt_client'), _s3_args_creator=ObjT(ARGS),
                 _crt_exception_translator=ExtT('translator'), _future_coordinators=ListOfT(ExtT('crt_coordinator')),
                 _semaphore=LockT(kind='semaphore'), _id_counter=Int)
    R.add_fields(COORD, transfer_id=Any, _exception_translator=Any, _s3_request=OptT(ExtT('crt_request')), _lock=LockT(),
                 _exception=OptT(ExtT('exception')), _crt_future=OptT(ExtT('cf_future')), _done_event=LockT(kind='event'))
    R.mark_inline(f'{COORD}.__init__', f'{CRT}:CRTTransferMeta.__init__', f'{CRT}:CRTTransferFuture.__init__', f'{ADH}.__init__',
                  f'{ADH}.__call__', f'{COORD}.set_done_callbacks_complete', f'{COORD}.set_exception',
                  f'{COORD}.set_s3_request', f'{MGR}._release_semaphore', f'{ARGS}.get_crt_callback', f'{RTH}.__init__',
                  f'{CRT}:OnBodyFileObjWriter.__init__', f'{MGR}._cancel_transfers', f'{MGR}._finish_transfers',
                  f'{MGR}._wait_transfers_done')
    # get_make_request_args: dispatches to the per-operation builder with a FRESH, empty before-list for this request
    # (a list shared between requests would run one transfer's rename / cleanup handlers for another transfer) and
    # the caller's after-list
    def gmra_checks(c):
        hs = [e for e in c.trace if e.kind == 'call' and ('_get_make_request_args_' in e.name or e.name.endswith('_default_get_make_request_args'))]
        out = {'exactly_one_builder_called': B(len(hs) == 1)}
        if len(hs) == 1:
            env = hs[0].extra['env']
            before = env.get('on_done_before_calls')
            fresh = isinstance(before, Ref) and before.oid not in c.old.st.heap and hs[0].extra['pre'].obj(before).kind == 'list' \
                and len(hs[0].extra['pre'].obj(before).items) == 0
            out['before_list_is_fresh_and_empty_for_this_request'] = B(bool(fresh))
            out['after_list_and_identities_passed_through'] = B(
                env.get('on_done_after_calls') is c.a_on_done_after_calls and env.get('call_args') is c.a_call_args
                and env.get('coordinator') is c.a_coordinator and env.get('future') is c.a_future)
            want = {'get_object': '_get_make_request_args_get_object', 'put_object': '_get_make_request_args_put_object'}.get(
                c.a_request_type, '_default_get_make_request_args')
            out['builder_matches_the_request_type'] = B(hs[0].name.endswith(want))
            out['returns_what_the_builder_returned'] = B(c.result is hs[0].result)
        return out

    BUILDER_PARAMS = dict(request_type=Str, call_args=Any, coordinator=Any, future=Any, on_done_before_calls=Any, on_done_after_calls=Any)
    R.contract(f'{ARGS}._get_make_request_args_put_object', params=dict(BUILDER_PARAMS), returns=ExtT('crt_callargs'),
               raise_when={'Exception': lambda c: None})
    R.contract(f'{ARGS}.get_make_request_args', props=['C20', 'C06'],
               params=dict(request_type=Str, call_args=ExtT('call_args'), coordinator=ExtT('crt_coordinator'), future=ExtT('crt_future'),
                           on_done_after_calls=ExtT('after_list')),
               param_alternatives={'request_type': [('get_object', Const('get_object')), ('put_object', Const('put_object')),
                                                    ('delete_object', Const('delete_object'))]},
               checks=gmra_checks, returns=ExtT('crt_callargs'), raises={'Exception': only_propagates}, raise_when={'Exception': lambda c: None})

    # ------------------------------------------------------------------ _submit_transfer
    def ev_names(tr):
        return [(e.kind, e.name) for e in flat(tr)]

    def st_checks(c):
        tr = c.trace
        ft = flat(tr)
        acq = [e for e in ft if e.kind == 'ext' and e.name == 'semaphore.acquire']
        rel = [e for e in ft if e.kind == 'ext' and e.name == 'semaphore.release']
        mk = [e for e in ft if e.kind == 'ext' and e.name == 'crt_client.make_request']
        gm = calls(tr, 'S3ClientArgsCreator.get_make_request_args')
        done_set = [e for e in ft if e.kind == 'ext' and e.name == 'event.set']
        made = [e for e in mk if e.extra.get('raised') is None]
        out = {'exactly_one_permit_acquired_per_submitted_transfer': B(len(acq) == 1)}
        # the after-list handed to the request: [release this manager's semaphore, mark done-callbacks complete]
        ok_after = True
        for g in gm:
            lst = g.extra['env']['on_done_after_calls']
            items = c.new.obj(lst).items if isinstance(lst, Ref) and c.new.obj(lst).kind == 'list' else None
            ok_after = ok_after and items is not None and len(items) == 2 and isinstance(items[0], BoundMethod) \
                and items[0].finfo.name == '_release_semaphore' and items[0].self_val == c.self \
                and isinstance(items[1], Ref) and c.new.obj(items[1]).cls.name == 'AfterDoneHandler' \
                and c.new.obj(items[1]).fields['_coordinator'] is g.extra['env']['coordinator']
        out['request_on_done_ends_with_release_then_done_callbacks_complete'] = B(bool(ok_after))
        if made:
            # request created: the permit is released by the request's on_done (A-CRT), not here
            out['request_created_no_release_here_and_callargs_from_the_creator'] = B(
                len(rel) == 0 and len(done_set) == 0 and len(gm) == 1 and mk[0].kwargs.get('**') is gm[0].result)
            # ... and the created request is attached to this transfer's coordinator (what its done() / result() rely on)
            coords_ = [g.extra['env']['coordinator'] for g in gm if isinstance(g.extra['env'].get('coordinator'), Ref)]
            okatt = False
            if coords_:
                hc = c.new.obj(coords_[0])
                rq = hc.fields.get('_s3_request')
                rq = rq.val if isinstance(rq, Opt) else rq
                okatt = rq is made[0].result and hc.fields.get('_crt_future') is not None
            out['the_created_request_is_attached_to_the_transfers_coordinator'] = B(bool(okatt))
        else:
            # construction failed after the acquire: on_done invoked directly, once, with the error
            sub_loops = [e for e in ft if e.kind == 'loop']
            out['construction_failure_releases_the_permit_exactly_once'] = B(len(rel) == 1)
            out['failure_path_marks_done_callbacks_complete_after_the_release'] = B(
                len(done_set) == 1 and len(rel) == 1 and index_of(ft, rel[0]) < index_of(ft, done_set[0]))
            # "runs on_done subscribers before the transfer is reported as having finished its callbacks" (and before its permit
            # is given back): the pass over the subscribers' on_done callbacks precedes the release and the completion mark
            first_raise = min([index_of(ft, e) for e in ft if e.kind in ('ext', 'call') and e.extra.get('raised') is not None] or [len(ft)])
            done_passes = [e for e in sub_loops if index_of(ft, e) > first_raise]
            out['on_done_subscribers_run_before_the_release_and_the_completion_mark'] = B(bool(
                done_passes and rel and done_set and all(index_of(ft, l) < index_of(ft, rel[0]) and index_of(ft, l) < index_of(ft, done_set[0]) for l in done_passes)))
            se = [e for e in ft if e.kind == 'lock' and e.name.endswith('CRTTransferCoordinator._lock')]
            out['failure_recorded_before_the_callbacks_run'] = B(len(se) >= 1 and index_of(ft, se[0]) < index_of(ft, rel[0]) if rel else False)
            # ... and what is recorded is the construction error itself (so result() raises it)
            raised = [e.extra['raised'] for e in ft if e.kind in ('ext', 'call') and e.extra.get('raised') is not None]
            coords = [g.extra['env']['coordinator'] for g in gm if isinstance(g.extra['env'].get('coordinator'), Ref)]
            okrec = False
            if raised and coords:
                v = c.new.obj(coords[0]).fields.get('_exception')
                v = v.val if isinstance(v, Opt) and (v.is_none is False or z3.is_false(z3.simplify(v.is_none))) else v
                okrec = v is raised[-1]
            out['the_construction_error_is_what_the_future_will_raise'] = B(bool(okrec) or not coords)
        out['coordinator_tracked_for_shutdown'] = to_len(c.new, c.newf('_future_coordinators')) == to_len(c.old, c.oldf('_future_coordinators')) + 1
        return out

    def to_len(view, v):
        from pyvc.values import to_int_term
        return to_int_term(view.obj(v).meta['len'])

    R.contract(
        f'{MGR}._submit_transfer', props=['C20'], params=dict(request_type=Str, call_args=ExtT('call_args')),
        checks=st_checks, raises={}, returns=Any,
    )
    R.contract(f'{ARGS}.get_crt_callback', params={}, inline=True)
    # the closure built by get_crt_callback contains the loop over the concatenated callback list
    R.contracts[f'{ARGS}.get_crt_callback'].loops = {0: trivial_loop()}


    # ------------------------------------------------------------------ composed callback order
    def cb_order_checks(c):
        """Invoke the closure returned by get_crt_callback symbolically and look at the order of calls."""
        eng = c.engine
        st = c.new.st.fork()
        res = eng.call_value(c.result, [], {'error': Opaque('err', kind='exception')}, st, 0)
        okk = len(res) == 1 and res[0].kind == 'ok'
        out = {'composed_callback_does_not_raise': B(okk)}
        if okk:
            tr = res[0].st.trace[len(c.new.st.trace):]
            ext = [e for e in tr if e.kind in ('ext', 'loop')]
            names = [e.name if e.kind == 'ext' else 'subscribers' for e in ext]
            out['order_is_before_list_then_subscribers_then_after_list'] = B(
                names == ['before_cb.()', 'subscribers', 'after_cb.()', 'after_cb2.()'])
            lp = [e for e in ext if e.kind == 'loop']
            out['every_subscriber_callback_invoked_with_the_kwargs'] = B(len(lp) == 1 and all(
                len([x for x in alt if x.kind == 'ext']) == 1 and [x for x in alt if x.kind == 'ext'][0].recv is item
                and 'error' in [x for x in alt if x.kind == 'ext'][0].kwargs for alt, item in zip(lp[0].alts, lp[0].items)))
        return out

    for k in ('before_cb', 'after_cb', 'after_cb2'):
        R.external(k, **{'()': ExtSpec(raises=())})
    from pyvc.values import HObj
    cgc = R.contracts[f'{ARGS}.get_crt_callback']
    cgc.props = ('C20',)
    cgc.params = dict(future=ObjT('s3transfer.futures:TransferFuture'), callback_type=Const('done'),
                      before_subscribers=Const(lambda eng, st: st.alloc(HObj('list', items=[Opaque('before', kind='before_cb')]))),
                      after_subscribers=Const(lambda eng, st: st.alloc(HObj('list', items=[Opaque('after1', kind='after_cb'), Opaque('after2', kind='after_cb2')]))))
    cgc.checks = cb_order_checks

    # ------------------------------------------------------------------ get object args: rename handler first
    def goa_checks(c):
        dflt = calls(c.trace, '_default_get_make_request_args')
        is_path = c.engine.opaque_pred(c.old.f(c.a_call_args, 'fileobj'), 'is_str')
        out = {}
        if len(dflt) == 1:
            before = dflt[0].extra['env']['on_done_before_calls']
            items = c.new.obj(before).items
            temp = calls(c.trace, 'OSUtils.get_temp_filename')
            okp = len(items) == 1 and isinstance(items[0], Ref) and c.new.obj(items[0]).cls.name == 'RenameTempFileHandler'
            if okp:
                h = c.new.obj(items[0])
                okp = len(temp) == 1 and h.fields['_temp_filename'] is temp[0].result and h.fields['_final_filename'] is c.old.f(c.a_call_args, 'fileobj') \
                    and h.fields['_coordinator'] is c.a_coordinator
            out['path_download_gets_rename_handler_before_subscribers_and_receives_into_the_temp_file'] = z3.If(
                is_path, B(bool(okp)), B(len(items) == 0))
            out['after_list_passed_through'] = B(dflt[0].extra['env']['on_done_after_calls'] is c.a_on_done_after_calls)
            res = c.new.obj(c.result).items if isinstance(c.result, Ref) else {}
            out['recv_filepath_is_the_temp_file_for_paths'] = z3.If(
                is_path, B(bool(temp) and res.get('recv_filepath') is temp[0].result), B(res.get('recv_filepath') is None))
        else:
            out['default_args_built_once'] = B(False)
        return out

    R.add_fields('s3transfer.utils:CallArgs')
    R.builtin_models['awscrt.s3.S3ChecksumConfig'] = lambda eng, st, args, kwargs, line: [__import__('pyvc.engine', fromlist=['ok']).ok(Opaque('checksum_config'), st)]
    # awscrt.s3.S3RequestType (assumed: members DEFAULT, GET_OBJECT, PUT_OBJECT as in awscrt; anything else is absent)
    R.ext_values['awscrt.s3.S3RequestType'] = Opaque('S3RequestType', kind='crt_enum')
    members = {n: Opaque('S3RequestType.' + n, kind='crt_enum_member') for n in ('DEFAULT', 'GET_OBJECT', 'PUT_OBJECT')}
    spec = {}
    for n, v in members.items():
        spec['.' + n] = ExtSpec(returns=lambda eng, st, recv, a, k, v=v: v, pure=True)
        spec['hasattr:' + n] = ExtSpec(returns=True, pure=True)
    spec['hasattr:DELETE_OBJECT'] = ExtSpec(returns=False, pure=True)
    R.external('crt_enum', **spec)

    # signing details (MRAP access points, S3 Express) are outside the properties: assumed interfaces
    ARNH = f'{CRT}:_S3ArnParamHandler'
    R.add_fields(ARNH)
    R.contract(f'{ARNH}.__init__', params={}, events=False)
    R.contract(f'{ARNH}.handle_arn', params=dict(bucket=Any), returns=OptT(ExtT('arn_details')), events=False)
    R.external('arn_details', **{'[]': ExtSpec(returns=ExtT('str'), pure=True)})
    R.builtin_models['botocore.utils.is_s3express_bucket'] = lambda eng, st, args, kwargs, line: [__import__('pyvc.engine', fromlist=['ok']).ok(
        eng.opaque_pred(args[0], 'is_s3express_bucket') if isinstance(args[0], Opaque) else False, st)]
    R.builtin_models['awscrt.auth.AwsSigningConfig'] = lambda eng, st, args, kwargs, line: [__import__('pyvc.engine', fromlist=['ok']).ok(Opaque('signing_config'), st)]
    R.ext_values['awscrt.auth.AwsSigningAlgorithm'] = Opaque('AwsSigningAlgorithm', kind='crt_alg_enum')
    R.external('crt_alg_enum', **{'.V4_ASYMMETRIC': ExtSpec(returns=ExtT('crt_alg'), pure=True), '.V4_S3EXPRESS': ExtSpec(returns=ExtT('crt_alg'), pure=True)})

    def dgmra_checks(c):
        # the request's on_done is the composed callback built from THIS request's before-list, the subscribers' on_done and
        # the after-list (permit release, done-callbacks complete); its on_progress is the subscribers' on_progress
        res = c.new.obj(c.result).items if isinstance(c.result, Ref) and c.new.obj(c.result).kind == 'dict' else {}

        def composed(v, ctype, before, after):
            return isinstance(v, Closure) and v.env.get('callback_type') == ctype and v.env.get('future') is c.a_future \
                and v.env.get('before_subscribers') is before and v.env.get('after_subscribers') is after
        ser = exts(c.trace, 'serializer.serialize_http_request')
        return {'on_done_is_composed_from_this_requests_before_list_subscribers_and_after_list': (B(bool(
            composed(res.get('on_done'), 'done', c.a_on_done_before_calls, c.a_on_done_after_calls))), ['C20']),
            'on_progress_is_the_subscribers_progress_callback': (B(bool(composed(res.get('on_progress'), 'progress', None, None))), ['C20']),
            'request_is_serialized_for_this_operation_and_future': (B(len(ser) == 1 and ser[0].args == (c.a_request_type, c.a_future)
                                                                      and res.get('request') is ser[0].result), ['C20'])}

    R.contract(f'{ARGS}._default_get_make_request_args', props=['C20'], checks=dgmra_checks, raises={'Exception': only_propagates},
               param_alternatives={'request_type': [(t, Const(t)) for t in ('get_object', 'put_object', 'delete_object')]},
               params=dict(request_type=Str, call_args=ObjT('s3transfer.utils:CallArgs'), coordinator=Any, future=ExtT('crt_future'),
                           on_done_before_calls=ExtT('before_list'), on_done_after_calls=ExtT('after_list')),
               returns=lambda c, st: st.alloc(HObj('dict', items={'request': Opaque('req'), 'on_done': Opaque('on_done')})),
               raise_when={'Exception': lambda c: None})
    R.contract(f'{ARGS}._get_make_request_args_get_object', props=['C20', 'C06'],
               params=dict(request_type=Str, call_args=ObjT('s3transfer.utils:CallArgs'), coordinator=ExtT('crt_coordinator'), future=Any,
                           on_done_before_calls=Const(lambda eng, st: st.alloc(HObj('list', items=[]))),
                           on_done_after_calls=ExtT('after_list')),
               checks=goa_checks, raises={'Exception': only_propagates})

    # ------------------------------------------------------------------ handlers
    R.add_fields(RTH, _coordinator=ExtT('crt_coordinator'), _final_filename=ExtT('fileobj_or_name'), _temp_filename=ExtT('str'),
                 _osutil=ObjT(f'{UT}:OSUtils'))
    R.external('crt_coordinator', set_exception=ExtSpec(raises=()))

    def rth_checks(c):
        tr = c.trace
        rm, rn = calls(tr, 'OSUtils.remove_file'), calls(tr, 'OSUtils.rename_file')
        se = exts(tr, 'crt_coordinator.set_exception')
        err = c.new.obj(c.a_kwargs).items['error']
        failed = b2z(c.engine.truthy(err, c.new.st))
        rn_failed = bool(rn) and rn[0].extra.get('raised') is not None
        return {
            'error_removes_the_temp_file': implies(failed, B(len(rm) == 1 and not rn and rm[0].extra['env']['filename'] is c.oldf('_temp_filename'))),
            'success_publishes_by_rename': implies(z3.Not(failed), B(
                len(rn) == 1 and rn[0].extra['env']['current_filename'] is c.oldf('_temp_filename')
                and rn[0].extra['env']['new_filename'] is c.oldf('_final_filename'))),
            'failing_rename_removes_the_temp_file_and_fails_the_transfer': B((not rn_failed) or (
                len(rm) == 1 and len(se) == 1 and se[0].args[0] is rn[0].extra['raised'])),
            # the destination name is touched only through the rename: whatever is removed is the temporary file
            'only_the_temp_file_is_ever_removed': (B(all(e.extra['env']['filename'] is c.oldf('_temp_filename') for e in rm)), ['C20', 'C06']),
        }

    R.contract(f'{RTH}.__call__', props=['C20', 'C06'], params={},
               kwargs_type=Const(lambda eng, st: st.alloc(HObj('dict', items={'error': eng.make_symbolic(OptT(ExtT('exception')), 'error', st)}))),
               checks=rth_checks, raises={})

    # ------------------------------------------------------------------ shutdown waits for every transfer's callbacks
    def shutdown_checks(c):
        tr = c.trace
        loops = [e for e in tr if e.kind == 'loop']
        waits = [lp for lp in loops if any(x.kind == 'ext' and x.name == 'crt_coordinator.wait_until_on_done_callbacks_complete'
                                           for alt in lp.alts for x in alt)]
        cancels = [lp for lp in loops if any(x.kind == 'ext' and x.name == 'crt_coordinator.cancel' for alt in lp.alts for x in alt)]
        return {
            'waits_for_the_done_callbacks_of_every_transfer_last': B(
                len(waits) == 1 and waits[0].iterable is c.oldf('_future_coordinators') and index_of(tr, waits[0]) == max(
                    index_of(tr, lp) for lp in loops)),
            'cancels_all_unfinished_first_iff_requested': z3.If(b2z(c.engine.truthy(c.a_cancel, c.new.st)),
                                                                B(len(cancels) >= 1 and index_of(tr, cancels[0]) == min(index_of(tr, lp) for lp in loops)),
                                                                B(True)),
        }

    R.contract(f'{MGR}._shutdown', props=['C20', 'C18'], params=dict(cancel=Bool), checks=shutdown_checks, raises={})
    def cancel_iteration(l0, l1, evs):
        from pyvc.values import to_z3_bool
        dn = [x for x in evs if x.kind == 'ext' and x.name == 'crt_coordinator.done']
        cn = [x for x in evs if x.kind == 'ext' and x.name == 'crt_coordinator.cancel']
        okshape = len(dn) == 1 and len(cn) <= 1 and all(x.recv is dn[0].recv for x in cn)
        out = {'looks_at_each_transfer_once': (B(bool(okshape)), ['C20', 'C18'])}
        if okshape:
            # in a cancelling pass a transfer is cancelled exactly when it is not done yet
            out['cancelled_iff_not_done_yet'] = (B(len(cn) == 1) == z3.Not(to_z3_bool(dn[0].result)), ['C20', 'C18'])
        return out

    for q, n in (('_finish_transfers', 1), ('_wait_transfers_done', 1)):
        R.contract(f'{MGR}.{q}', params={}, inline=True, loops={0: trivial_loop()})
    R.contract(f'{MGR}._cancel_transfers', params={}, inline=True, loops={0: LoopSpec(invariant=lambda l: {}, iteration_checks=cancel_iteration)})
    register_public(R)
    register_coordinator(R)


def register_coordinator(R):
    """CRTTransferCoordinator.done / result: done() is decided by the CRT request's finished future alone -- which is attached once
    (set_s3_request) and which result() never forgets -- so, like the classic coordinator's (C17), it never goes back to False;
    result() drops only the request handle."""
    from pyvc.values import to_z3_bool
    R.external('cf_future', done=ExtSpec(returns=Bool, raises=()), result=ExtSpec(raises=('Exception', 'KeyboardInterrupt'), blocking=True))
    R.external('crt_request', cancel=ExtSpec(raises=()))
    R.external('crt_translator', **{'()': ExtSpec(returns=OptT(ExtT('exception')), raises=('Exception',))})

    def done_value(c, st):
        f = st.obj(c.self).fields['_crt_future']
        if isinstance(f, Opt):
            r = z3.Bool('crt_future_done!' + str(len(st.trace)))
            return z3.And(z3.Not(f.is_none), r)
        return False if f is None else z3.Bool('crt_future_done!' + str(len(st.trace)))

    def done_post(c):
        dn = [e for e in c.trace if e.kind == 'ext' and e.name == 'cf_future.done']
        f = c.oldf('_crt_future')
        none = f.is_none if isinstance(f, Opt) else B(f is None)
        res = to_z3_bool(c.result)
        # (what done() answers while no request is attached -- construction still running or failed -- is not constrained here)
        return {'once_a_request_is_attached_done_is_what_its_finished_future_says': z3.Or(
            none, z3.And(B(len(dn) == 1), res == to_z3_bool(dn[0].result)) if dn else B(False))}

    R.contract(f'{COORD}.done', props=['C20', 'C17'], params={}, checks=done_post, returns=done_value, raises={}, modifies=lambda c: [])
    R.mark_inline(f'{COORD}.cancel')
    # also verified against its body (C20 / C17: a failed CRT transfer is never turned into a normal return of result()):
    # every path ends in a raise -- of what the translator answered, or of the exception handed in -- and a failing or
    # absent translator changes nothing about that; nothing is modified
    def he_raised(c):
        tr = [e for e in c.trace if e.kind == 'ext' and e.name.endswith('crt_translator.()')]
        return {'translator_asked_at_most_once_with_the_exception_handed_in': B(
            len(tr) <= 1 and all(tuple(e.args) == (c.a_exc,) for e in tr))}
    R.contract(f'{COORD}.handle_exception', params=dict(exc=ExtT('exception')), raise_when={'Exception': lambda c: None, '$stored': lambda c: None},
               props=['C20', 'C17'], top_level=False,
               self_type=ObjT(COORD, _exception_translator=OptT(ExtT('crt_translator'))),
               checks=lambda c: {'never_returns_normally': B(False)},
               raises={'Exception': he_raised, '$stored': he_raised}, modifies=lambda c: [])
    R.contract(f'{COORD}.result', props=['C20', 'C17'], params=dict(timeout=Const(None)), top_level=False,
               self_type=ObjT(COORD, _exception_translator=ExtT('crt_translator')),
               # what _submit_transfer establishes for every coordinator it hands out: a construction error is recorded, or the
               # request (and with it the finished future) is attached
               requires=lambda c: [('construction_failed_or_request_attached', z3.Or(
                   z3.Not(is_none(c.oldf('_exception'))), z3.Not(is_none(c.oldf('_crt_future')))))],
               ensures=lambda c: {'the_finished_future_stays_attached': B(c.newf('_crt_future') is c.oldf('_crt_future'))},
               raises={'$stored': lambda c: {'the_finished_future_stays_attached': B(c.newf('_crt_future') is c.oldf('_crt_future'))},
                       'Exception': lambda c: {'the_finished_future_stays_attached': B(c.newf('_crt_future') is c.oldf('_crt_future'))},
                       'KeyboardInterrupt': lambda c: {'the_finished_future_stays_attached': B(c.newf('_crt_future') is c.oldf('_crt_future'))}},
               modifies=lambda c: [('f', c.self, '_s3_request')])


def register_public(R):
    """CRTTransferManager.download / upload / delete: validation first, then exactly one _submit_transfer with the right request
    type and call arguments that ARE the user's (bucket, key, file, extra args, subscribers); what it returns is returned."""
    for q in ('_validate_all_known_args', '_validate_if_bucket_supported', '_validate_checksum_algorithm_supported'):
        R.contract(f'{MGR}.{q}', params=dict(actual=Any, allowed=Any) if q == '_validate_all_known_args' else
                   (dict(bucket=ExtT('str')) if q == '_validate_if_bucket_supported' else dict(extra_args=Any)),
                   raise_when={'ValueError': lambda c: None}, modifies=lambda c: [])
    R.mark_inline(f'{UT}:CallArgs.__init__')

    def public(rtype, has_file, validators):
        def chk(c):
            tr = c.trace
            sub = calls(tr, 'CRTTransferManager._submit_transfer')
            vals = [e for e in tr if e.kind == 'call' and '._validate_' in e.name]
            # (which validations exist is not a listed property, except the allow-list of C15; what is required: nothing is
            #  submitted before every validation that does run has passed, and the allow-list check is among them)
            known = [e for e in vals if e.name.endswith('_validate_all_known_args')]
            okk = len(sub) == 1 and len(known) == 1 and all(index_of(tr, v) < index_of(tr, sub[0]) for v in vals)
            out = {'validates_first_then_submits_exactly_one_transfer_of_the_right_type': B(bool(okk and sub[0].extra['env']['request_type'] == rtype))}
            if okk:
                ca = sub[0].extra['env']['call_args']
                h = c.new.obj(ca) if isinstance(ca, Ref) else None
                ua, us = c.a_extra_args, c.a_subscribers
                def same_or_default(got, user):
                    if isinstance(user, Opt):
                        return got is user.val or got is user or (isinstance(got, Ref) and not isinstance(user.val, Ref))
                    return got is user
                okc = h is not None and h.fields.get('bucket') is c.a_bucket and h.fields.get('key') is c.a_key \
                    and (not has_file or h.fields.get('fileobj') is c.a_fileobj)
                out['call_args_are_the_users_bucket_key_and_file'] = B(bool(okc))
                out['returns_the_submitted_transfers_future'] = B(c.result is sub[0].result)
                if h is not None and isinstance(ua, Opt):
                    ea = h.fields.get('extra_args')
                    out['the_users_extra_args_are_passed_on_when_given'] = z3.Or(ua.is_none, B(ea is ua.val or ea is ua))
                if h is not None and isinstance(us, Opt):
                    sb = h.fields.get('subscribers')
                    out['the_users_subscribers_are_passed_on_when_given'] = z3.Or(us.is_none, B(sb is us.val or sb is us))
            return out
        return chk

    base = dict(bucket=ExtT('str'), key=ExtT('str'), extra_args=OptT(ExtT('extra_args')), subscribers=OptT(ExtT('subscriber_list')))
    for name, rtype, has_file, validators in (
            ('download', 'get_object', True, ['_validate_all_known_args', '_validate_if_bucket_supported']),
            ('upload', 'put_object', True, ['_validate_all_known_args', '_validate_if_bucket_supported', '_validate_checksum_algorithm_supported']),
            ('delete', 'delete_object', False, ['_validate_all_known_args', '_validate_if_bucket_supported'])):
        params = dict(base, fileobj=ExtT('fileobj_or_name')) if has_file else dict(base)
        R.contract(f'{MGR}.{name}', props=['C20', 'C15'], params=params, top_level=True,
                   checks=public(rtype, has_file, validators), raises={'ValueError': only_propagates, 'Exception': only_propagates})


ROOTS = [f'{MGR}._submit_transfer', f'{ARGS}.get_crt_callback', f'{ARGS}._get_make_request_args_get_object', f'{RTH}.__call__',
         f'{MGR}._shutdown', f'{UT}:OSUtils.remove_file', f'{UT}:OSUtils.rename_file']

MANIFEST = dict(
    category='proof',
    text=('On every path of CRTTransferManager._submit_transfer exactly one permit is acquired; either the request is created '
          'with an on_done whose after-list is [release this manager\'s semaphore, mark done-callbacks complete] (so the CRT '
          'client\'s single on_done call releases it), or construction failed after the acquire and the composed callback is '
          'invoked directly once: failure recorded, subscribers, one release, then done-callbacks complete; never both, never '
          'neither. The closure built by get_crt_callback runs before-list, every subscriber callback, after-list in that order '
          '(verified by invoking the real closure symbolically). Path downloads receive into the temp file and get the rename '
          'handler before the subscribers; the handler renames on success, removes on error, removes and fails the transfer '
          'on a failing rename. _shutdown waits on the done-callbacks event of every tracked transfer last, on every path.'
          ' get_make_request_args hands every request a fresh, empty before-list (mutable default arguments are modelled as shared objects); a construction error is what the future will raise.'
          " Also: the public download / upload / delete validate first and submit exactly one transfer of the right type with the user's call arguments; a failing rename removes the temp file (never the destination)."),
    note=('A-CRT: the CRT client calls on_done exactly once per created request; subscriber callbacks do not raise inside the '
          'composed CRT callback (unguarded in the code: noted assumption); awscrt itself is not installed and not modelled.'),
    technique='contract-based deductive verification over the AST of crt.py (module not importable here)',
)
LEVEL = 'proof'
TRUSTED = ['A-CRT', 'subscriber callbacks do not raise inside the composed CRT callback', 'A-LOCK threading.Semaphore']
ASSUMPTIONS = TRUSTED
EXPLANATION = 'CRT glue contracts'
