"""C07 -- cancellation is effective, clean and truthfully reported."""
import z3

from pyvc.contracts import Any, Bool, ExtSpec, ExtT, Int, ListOfT, LockT, LoopSpec, ObjT, OptT, SetT, Str
from pyvc.values import ClassRef, ExcV, ExtClassRef, Opaque, Opt, U

from .a_common import DONE, F, S, UT, is_none, status_in
from .a_tasks import T, TASK, TC, calls, exts, index_of, trivial_loop
from .spec import b2z, implies

B = z3.BoolVal
M = 's3transfer.manager'
TM = f'{M}:TransferManager'
CTRL = f'{M}:TransferCoordinatorController'
UP = 's3transfer.upload'


def is_cancelled_error(v):
    return isinstance(v, ExtClassRef) and v.name == 'concurrent.futures.CancelledError'


def is_fatal_error(v):
    return isinstance(v, ClassRef) and v.cinfo.qualname == 's3transfer.exceptions:FatalError'


def str_like(eng, v):
    return eng.type_ok(v, ExtT('str'))


def _waits_each(c):
    loops = [e for e in c.trace if e.kind == 'loop']
    if len(loops) != 1:
        return False
    lp = loops[0]
    return all(len([x for x in alt if x.kind == 'ext' and x.name == 'coordinator.result']) == 1
               and [x for x in alt if x.kind == 'ext' and x.name == 'coordinator.result'][0].recv is item
               for alt, item in zip(lp.alts, lp.items)) and len(lp.alts) >= 1


def register(R):
    # tracked coordinators (elements of the controller's set) as seen by the manager
    def cancel_pre(eng, st, recv, args, kwargs):
        msg = args[0] if args else kwargs.get('msg', '')
        et = args[1] if len(args) > 1 else kwargs.get('exc_type', ExtClassRef('concurrent.futures.CancelledError'))
        return {'msg_is_a_string': B(str_like(eng, msg)),
                'exc_type_is_an_exception_class': B(eng.type_ok(et, ExtT('excclass')))}

    R.external('coordinator',
               cancel=ExtSpec(raises=(), pre=cancel_pre),
               result=ExtSpec(raises=('Exception', 'KeyboardInterrupt'), blocking=True, returns=ExtT('result')))

    R.add_fields(CTRL, _lock=LockT(), _tracked_transfer_coordinators=SetT('U', elem_kind='coordinator'))

    # ------------------------------------------------------------------ controller.cancel / wait
    def ctrl_cancel_checks(c):
        tr = c.trace
        loops = [e for e in tr if e.kind == 'loop']
        good = False
        if len(loops) == 1:
            lp = loops[0]
            good = len(lp.alts) >= 1 and all(
                len(exts(alt, 'coordinator.cancel')) == 1 and exts(alt, 'coordinator.cancel')[0].recv is item
                and exts(alt, 'coordinator.cancel')[0].args == (c.a_msg, c.a_exc_type)
                for alt, item in zip(lp.alts, lp.items))
        return {'every_tracked_coordinator_is_cancelled_with_msg_and_type': B(bool(good))}

    R.contract(
        f'{CTRL}.cancel', props=['C07', 'C18'], self_type=ObjT(CTRL, shared=True), typed=['C07'],
        params=dict(msg=ExtT('str'), exc_type=ExtT('excclass')),
        inline_callees=[f'{CTRL}.tracked_transfer_coordinators'],
        checks=ctrl_cancel_checks, raises={}, loops={0: trivial_loop()},
    )
    R.mark_inline(f'{CTRL}.tracked_transfer_coordinators')
    R.contract(
        f'{CTRL}.wait', props=['C07', 'C18'], self_type=ObjT(CTRL, shared=True), params={},
        checks=lambda c: {'only_waits': B(all(e.name in ('coordinator.result',) for e in c.trace if e.kind == 'ext')),
                          # barrier (C18): returns normally only after result() of EVERY tracked transfer returned (or raised a
                          # plain failure, which is swallowed): one wait per tracked coordinator, on that coordinator
                          'waits_for_every_tracked_transfer': B(_waits_each(c))},
        raises={'KeyboardInterrupt': lambda c: {'from_a_result_wait': B(any(
            e.extra.get('raised') is c.exc for e in _flat_ext(c.trace)))}},
        raise_when={'KeyboardInterrupt': lambda c: None},
        loops={0: LoopSpec(invariant=lambda l: {}, local_types={'transfer_coordinator': OptT(ExtT('coordinator'))})},
    )

    # ------------------------------------------------------------------ manager
    BE = f'{F}:BoundedExecutor'
    R.add_fields(TM, _client=ExtT('client'), _config=ExtT('config'), _osutil=ExtT('osutil'),
                 _coordinator_controller=ObjT(CTRL, shared=True), _id_counter=Int,
                 _request_executor=ExtT('bounded_executor'), _submission_executor=ExtT('bounded_executor'),
                 _io_executor=ExtT('bounded_executor'), _bandwidth_limiter=OptT(ExtT('bandwidth_limiter')))
    R.external('bounded_executor', shutdown=ExtSpec(raises=(), blocking=True),
               submit=ExtSpec(raises=('Exception',), blocking=True, returns=ExtT('future')))

    def shutdown_calls(tr):
        return [e for e in tr if e.kind == 'ext' and e.name == 'bounded_executor.shutdown']

    def executors_joined(c):
        sd = shutdown_calls(c.trace)
        return B(len(sd) == 3 and sd[0].recv is c.oldf('_submission_executor') and sd[1].recv is c.oldf('_request_executor')
                 and sd[2].recv is c.oldf('_io_executor'))

    def _shutdown_common(c):
        tr = c.trace
        cc = calls(tr, 'TransferCoordinatorController.cancel')
        w = calls(tr, 'TransferCoordinatorController.wait')
        cancel = b2z(c.engine.truthy(c.a_cancel, c.new.st))
        first = [e for e in cc if w and index_of(tr, e) < index_of(tr, w[0])]
        okargs = all(e.extra['env']['msg'] is c.a_cancel_msg and e.extra['env']['exc_type'] is c.a_exc_type for e in first)
        return tr, cc, w, cancel, first, okargs

    def shutdown_checks(c):
        tr, cc, w, cancel, first, okargs = _shutdown_common(c)
        return {
            'cancels_all_first_iff_requested': z3.If(cancel, B(len(first) == 1 and okargs), B(len(first) == 0)),
            'waits_for_transfers': B(len(w) == 1),
            # (stage order matters for termination too: a request task's done callback submits the final IO task of a ranged
            #  download -- the IO executor must still accept work while request tasks drain: C04)
            'joins_the_three_executors_in_stage_order': (executors_joined(c), ['C18', 'C04', 'C07']),
            'executors_joined_after_wait': (B(all(index_of(tr, s) > index_of(tr, w[0]) for s in shutdown_calls(tr)) if w else False), ['C18', 'C04', 'C07']),
            # a join, not a drop: the queued tasks of every stage still run (the final task of a cancelled ranged download is
            # what announces it done and runs its cleanups)
            'every_executor_is_joined_with_its_queued_tasks_still_run': (B(all(
                not e.kwargs and tuple(e.args) in ((), (True,)) for e in shutdown_calls(tr))), ['C18', 'C04', 'C07']),
        }

    def shutdown_kbi(c):
        tr, cc, w, cancel, first, okargs = _shutdown_common(c)
        later = [e for e in cc if w and index_of(tr, e) > index_of(tr, w[0])]
        return {
            'interrupt_came_from_wait': B(len(w) == 1 and w[0].extra.get('raised') is c.exc),
            'interrupt_cancels_everything': B(len(later) == 1 and later[0].extra['env']['msg'] == 'KeyboardInterrupt()'
                                              and is_cancelled_error(later[0].extra['env']['exc_type'])),
            'executors_still_joined': executors_joined(c),
        }

    R.contract(
        f'{TM}._shutdown', props=['C07', 'C18', 'C04'], typed=['C07'],
        params=dict(cancel=Bool, cancel_msg=ExtT('str'), exc_type=ExtT('excclass')),
        checks=shutdown_checks, raises={'KeyboardInterrupt': shutdown_kbi},
        raise_when={'KeyboardInterrupt': lambda c: None},
    )

    def sd_checks(c):
        sh = calls(c.trace, 'TransferManager._shutdown')
        okk = len(sh) == 1
        if okk:
            env = sh[0].extra['env']
            okk = env['cancel'] is c.a_cancel and env['cancel_msg'] is c.a_cancel_msg and is_cancelled_error(env['exc_type'])
        return {'shuts_down_with_the_given_flag_and_message_as_CancelledError': B(bool(okk))}

    R.contract(
        f'{TM}.shutdown', props=['C07', 'C18'], params=dict(cancel=Bool, cancel_msg=ExtT('str')),
        checks=sd_checks, raises={'KeyboardInterrupt': lambda c: {}},
    )

    str_of = z3.Function('str_of', U, U)
    repr_of = z3.Function('repr_of', U, U)

    def exit_checks(c):
        sh = calls(c.trace, 'TransferManager._shutdown')
        if len(sh) != 1:
            return {'one_shutdown': B(False)}
        env = sh[0].extra['env']
        eng, st = c.engine, c.new.st
        left_by_exc = z3.Not(is_none(c.a_exc_type))
        ev = c.a_exc_value.val
        msg, ty, flag = env['cancel_msg'], env['exc_type'], env['cancel']
        nonempty = eng.opaque_pred(Opaque(str_of(ev.term), kind='str'), 'str_nonempty')
        is_kbi = eng.opaque_pred(ev, 'isinstance_KeyboardInterrupt')
        msg_ok = isinstance(msg, Opaque) and (z3.eq(msg.term, str_of(ev.term)) or z3.eq(msg.term, repr_of(ev.term)))
        return {
            'cancel_iff_block_left_by_exception': b2z(eng.truthy(flag, st)) == left_by_exc if not isinstance(flag, bool)
            else (left_by_exc if flag else z3.Not(left_by_exc)),
            'message_is_str_or_repr_of_the_exception': implies(left_by_exc, B(bool(msg_ok))),
            'message_is_str_when_nonempty': implies(z3.And(left_by_exc, nonempty), B(isinstance(msg, Opaque) and z3.eq(msg.term, str_of(ev.term)))),
            'message_is_repr_when_str_is_empty': implies(z3.And(left_by_exc, z3.Not(nonempty)), B(isinstance(msg, Opaque) and z3.eq(msg.term, repr_of(ev.term)))),
            'CancelledError_for_interrupt': implies(z3.And(left_by_exc, is_kbi), B(is_cancelled_error(ty))),
            'FatalError_otherwise': implies(z3.And(left_by_exc, z3.Not(is_kbi)), B(is_fatal_error(ty))),
        }

    R.contract(
        f'{TM}.__exit__', props=['C07', 'C18'],
        params=dict(exc_type=OptT(ExtT('excclass')), exc_value=OptT(ExtT('exception'))),
        requires=lambda c: [c.a_exc_type.is_none == c.a_exc_value.is_none],
        checks=exit_checks, raises={'KeyboardInterrupt': lambda c: {}},
    )

    # ------------------------------------------------------------------ TransferFuture
    TF = f'{F}:TransferFuture'

    def tf_result_kbi(c):
        tr = c.trace
        r = calls(tr, 'TransferCoordinator.result')
        cn = calls(tr, 'TransferFuture.cancel')
        return {'interrupt_cancels_the_transfer_then_propagates': B(
            len(r) == 1 and r[0].extra.get('raised') is c.exc and len(cn) == 1 and index_of(tr, cn[0]) > index_of(tr, r[0]))}

    R.contract(
        f'{TF}.result', props=['C07'], params={},
        checks=lambda c: {'no_cancel_on_normal_return': B(len(calls(c.trace, '.cancel')) == 0)},
        raises={'KeyboardInterrupt': tf_result_kbi,
                'Exception': lambda c: {'not_cancelled_by_result': B(len(calls(c.trace, '.cancel')) == 0)},
                '$stored': lambda c: {'not_cancelled_by_result': B(len(calls(c.trace, '.cancel')) == 0)}},
    )
    R.contract(
        f'{TF}.cancel', props=['C07'], params={},
        checks=lambda c: {'delegates_with_default_message_and_CancelledError': B(
            len(calls(c.trace, 'TransferCoordinator.cancel')) == 1
            and calls(c.trace, 'TransferCoordinator.cancel')[0].extra['env']['msg'] == ''
            and is_cancelled_error(calls(c.trace, 'TransferCoordinator.cancel')[0].extra['env']['exc_type']))},
        raises={},
    )

    # ------------------------------------------------------------------ InterruptReader
    IR = f'{UP}:InterruptReader'
    # A-EXC-STABLE-WHILE-RUNNING: the stored exception is not cleared while a request body of the
    # transfer is being read (only the final task's set_result clears it, after all reads)
    R.add_fields(IR, _fileobj=ExtT('fileobj'), _transfer_coordinator=ObjT(TC))
    R.external('fileobj', read=ExtSpec(returns=ExtT('bytes'), raises=('Exception',)),
               seek=ExtSpec(raises=('Exception',)), tell=ExtSpec(returns=Int, raises=('Exception',)),
               close=ExtSpec(raises=('Exception',)), write=ExtSpec(raises=('Exception',)))

    def ir_read(c):
        rd = exts(c.trace, 'fileobj.read')
        return {'reads_the_file_only_without_recorded_error': z3.And(
            is_none(c.old.f(c.oldf('_transfer_coordinator'), '_exception')),
            B(len(rd) == 1 and rd[0].args == (c.a_amount,)))}

    R.contract(
        f'{IR}.read', props=['C07', 'C03'], params=dict(amount=OptT(Int)),
        checks=ir_read,
        raises={'$stored': lambda c: {
            'raises_the_recorded_error_before_touching_the_file': z3.And(
                z3.Not(is_none(c.old.f(c.oldf('_transfer_coordinator'), '_exception'))),
                B(len(exts(c.trace, 'fileobj.read')) == 0))},
            'Exception': lambda c: {'from_the_underlying_read': B(any(e.extra.get('raised') is c.exc for e in exts(c.trace, 'fileobj.read')))}},
    )


def _flat_ext(tr):
    from .a_tasks import flat
    return [e for e in flat(tr) if e.kind == 'ext']


ROOTS = [f'{TC}._transition_to_non_done_state', f'{TC}.set_status_to_queued', f'{TC}.set_status_to_running', f'{TC}.cancel', f'{F}:TransferFuture.cancel', f'{F}:TransferFuture.result',
         f'{TM}.shutdown', f'{TM}._shutdown', f'{TM}.__exit__', f'{CTRL}.cancel', f'{CTRL}.wait',
         f'{T}:SubmissionTask._main', f'{TASK}.__call__', f'{UP}:InterruptReader.read']

MANIFEST = dict(
    category='proof',
    text=('Postconditions of the four cancellation entry points on the real code: coordinator.cancel (monitor: for '
          'any state at lock acquisition -- not done => cancelled with exc_type(msg); done => unchanged; announce iff '
          'it was not-started), future.cancel / result (Ctrl-C cancels then re-raises), manager.shutdown / _shutdown / '
          '__exit__ (every tracked coordinator receives cancel(msg, type) with the message and exception class the '
          'property prescribes; preconditions of cancel -- msg is a string, exc_type an exception class -- are '
          'obligations at each call site), no _submit for a transfer cancelled before it started, readers raise the '
          'recorded error before touching the source.'),
    note=('States at the moment of the call are arbitrary (monitor), which covers every interleaving of cancel with the '
          'coordinator methods; cancel at every scheduling point of a whole transfer is not enumerated; completion of '
          'cleanups before result() raises is C08 ordering plus the executor assumption.'),
    technique='contract-based deductive verification: monitor + trace contracts, typed call-site preconditions',
)
LEVEL = 'proof'
TRUSTED = ['A-LOCK', 'A-EXECUTOR', 'A-EXC-STABLE-WHILE-RUNNING (InterruptReader.read only)']
ASSUMPTIONS = TRUSTED
EXPLANATION = 'cancellation entry points verified against typed call-site contracts and trace postconditions'
