"""Bodies of helpers that the other contracts only ASSUME at call sites (loaded late: it completes the contracts that
a_tasks / a_submit register as call-site contracts with checks against the real function bodies).

 TransferCoordinator.submit            the task goes to the given executor with the given tag; the future is tracked until done
 Task._wait_until_all_complete         result() of every future, once, in order; failures of the awaited tasks are ignored here
 Task._wait_on_dependent_futures       waits for every pending future (single ones and those in lists)
 Task._get_all_main_kwargs             main kwargs + the results of the pending futures (lists: results in list order)
 DownloadOutputManager.get_io_write_task / streaming variant: the write task carries exactly the given file object, data (and offset)
 GetObjectWorker._write_to_file        (process pool) the whole body, in order, at the job's offset of the temp file
"""
import z3

from pyvc.contracts import Any, Bool, Const, ExtSpec, ExtT, Int, ListOfT, LoopSpec, ObjT, OptT, SetT, Str
from pyvc.values import BoundMethod, ExcV, HObj, Opaque, Opt, PartialV, Ref, U, fresh_name, to_int_term

from .a_common import F
from .a_tasks import T, TASK, TC, calls, exts, flat, index_of, only_propagates, trivial_loop

B = z3.BoolVal
UT = 's3transfer.utils'
PROPS_WAIT = ['C03', 'C05', 'C08', 'C04']


def register(R):
    # ------------------------------------------------------------------ TransferCoordinator.submit
    R.external('bounded_executor', submit=ExtSpec(returns=ExtT('future'), raises=('Exception',), blocking=True))
    R.external('future', add_done_callback=ExtSpec(raises=()), result=ExtSpec(returns=ExtT('future_result'), raises=('Exception',), blocking=True),
               done=ExtSpec(returns=Bool, raises=()))
    R.mark_inline(f'{UT}:FunctionContainer.__init__')

    def submit_checks(c):
        tr = c.trace
        sub = exts(tr, 'bounded_executor.submit')
        add = calls(tr, 'TransferCoordinator.add_associated_future')
        dcb = exts(tr, 'future.add_done_callback')
        okk = len(sub) == 1 and sub[0].recv is c.a_executor and sub[0].args == (c.a_task,) and sub[0].kwargs.get('tag') is c.a_tag
        out = {'task_goes_to_the_given_executor_with_the_given_tag': (B(bool(okk)), ['C10', 'C04'])}
        if okk:
            fut = sub[0].result
            out['returns_the_executors_future'] = (B(c.result is fut), ['C04', 'C05'])
            out['future_is_tracked_until_it_is_done'] = (B(
                len(add) == 1 and add[0].extra['env']['future'] is fut and len(dcb) == 1 and dcb[0].recv is fut
                and _untracks(c, dcb[0].args[0], fut) and index_of(tr, add[0]) < index_of(tr, dcb[0])), ['C05', 'C08', 'C04'])
        return out

    def _untracks(c, fc, fut):
        if not isinstance(fc, Ref) or c.new.obj(fc).kind != 'obj' or c.new.obj(fc).cls.name != 'FunctionContainer':
            return False
        h = c.new.obj(fc)
        fn, args = h.fields.get('_func'), h.fields.get('_args')
        return isinstance(fn, BoundMethod) and fn.finfo.name == 'remove_associated_future' and fn.self_val == c.self and tuple(args) == (fut,)

    cs = R.contracts[f'{TC}.submit']
    cs.props = ('C04', 'C05', 'C08', 'C10')
    cs.checks = submit_checks
    cs.raises = {'Exception': lambda c: {**only_propagates(c), 'nothing_tracked_when_the_executor_refused': B(
        not calls(c.trace, 'TransferCoordinator.add_associated_future'))}}

    # ------------------------------------------------------------------ Task._wait_until_all_complete
    def each_waited(l0, l1, evs):
        rs_ = [e for e in evs if e.kind == 'ext' and e.name == 'future.result']
        return {'result_of_this_future_awaited_exactly_once': (B(len(rs_) == 1), PROPS_WAIT)}

    FUTS = ListOfT(ExtT('future'), name='futures')

    def wuac_checks(c):
        loops = [e for e in c.trace if e.kind == 'loop']
        return {'iterates_over_exactly_the_given_futures': (B(len(loops) == 1 and loops[0].iterable is c.a_futures), PROPS_WAIT)}

    R.contract(f'{TASK}._wait_until_all_complete', props=PROPS_WAIT, params=dict(futures=FUTS),
               checks=wuac_checks, raises={},            # failures of the awaited tasks are deferred, never raised here
               loops={0: LoopSpec(invariant=lambda l: {}, iteration_checks=each_waited)})

    # ------------------------------------------------------------------ pending kwargs: alternatives of the task object
    def task_with(pending):
        return ObjT(TASK, _pending_main_kwargs=Const(pending), _main_kwargs=Const(
            lambda eng, st: st.alloc(HObj('dict', items={'client': Opaque('the_client', kind='client'), 'bucket': Opaque('the_bucket', kind='str')}))))

    def p_none(eng, st):
        return st.alloc(HObj('dict', items={}))

    def p_one(eng, st):
        return st.alloc(HObj('dict', items={'upload_id': Opaque('create_future', kind='future')}))

    def p_one_and_list(eng, st):
        return st.alloc(HObj('dict', items={'upload_id': Opaque('create_future', kind='future'),
                                            'parts': eng.make_symbolic(ListOfT(ExtT('future'), name='part_futures'), 'part_futures', st)}))

    ALTS = {'self': [('no_pending', task_with(p_none)), ('one_future', task_with(p_one)), ('future_and_list', task_with(p_one_and_list))]}

    def pending_of(c):
        return c.old.obj(c.oldf('_pending_main_kwargs')).items

    # ------------------------------------------------------------------ Task._wait_on_dependent_futures
    def wodf_checks(c):
        w = calls(c.trace, 'Task._wait_until_all_complete')
        okk = len(w) == 1
        out = {'waits_once_for_all_pending_futures': (B(okk), PROPS_WAIT)}
        if okk:
            fs = w[0].extra['env']['futures']
            h = w[0].extra['pre'].obj(fs) if isinstance(fs, Ref) else None
            segs = None
            if h is not None:
                segs = h.meta['segments'] if h.kind == 'seglist' else [('items', list(h.items))] if h.kind == 'list' else None
            want = []
            for k, v in pending_of(c).items():
                want.append(('slist', v) if isinstance(v, Ref) else ('items', [v]))
            # normalise: merge adjacent concrete segments
            def norm(ss):
                out_ = []
                for kind, x in ss or []:
                    if kind == 'items':
                        if not x:
                            continue
                        if out_ and out_[-1][0] == 'items':
                            out_[-1] = ('items', out_[-1][1] + list(x))
                        else:
                            out_.append(('items', list(x)))
                    else:
                        out_.append((kind, x))
                return out_
            a, b = norm(segs), norm(want)
            same = segs is not None and len(a) == len(b) and all(
                ka == kb and ((ka == 'items' and len(xa) == len(xb) and all(p is q for p, q in zip(xa, xb))) or (ka != 'items' and xa is xb))
                for (ka, xa), (kb, xb) in zip(a, b))
            out['the_awaited_futures_are_exactly_the_pending_ones'] = (B(bool(same)), PROPS_WAIT)
        return out

    cw = R.contracts[f'{TASK}._wait_on_dependent_futures']
    cw.props, cw.checks, cw.raises, cw.param_alternatives = tuple(PROPS_WAIT), wodf_checks, {}, ALTS

    # ------------------------------------------------------------------ Task._get_all_main_kwargs
    jj = z3.Int('jj_core')

    def gamk_inner_inv(l):
        res = l.st.obj(l.local('result'))
        n = to_int_term(res.meta['len']) if res.kind == 'slist' else z3.IntVal(len(res.items))
        out = {'one_result_per_future_so_far': n == to_int_term(l.index)}
        if res.kind == 'slist':
            src = l.st.obj(l.iterable) if isinstance(l.iterable, Ref) else None
            if src is not None and src.kind == 'slist':
                fr = z3.Function('future_result_of', U, U)
                out['results_in_the_order_of_the_futures'] = z3.ForAll([jj], z3.Implies(z3.And(jj >= 0, jj < n),
                                                                                       z3.Select(res.meta['arr'], jj) == fr(z3.Select(src.meta['arr'], jj))))
        return out

    def future_result(eng, st, recv, args, kwargs):
        return Opaque(z3.Function('future_result_of', U, U)(recv.term), kind='future_result', label=f'result({recv.label})')

    R.external('future', result=ExtSpec(returns=future_result, raises=('Exception',), blocking=True))

    def gamk_checks(c):
        res = c.new.obj(c.result).items if isinstance(c.result, Ref) and c.new.obj(c.result).kind == 'dict' else None
        base = c.old.obj(c.oldf('_main_kwargs')).items
        pend = pending_of(c)
        fr = z3.Function('future_result_of', U, U)
        out = {'result_has_the_main_kwargs_and_one_entry_per_pending_kwarg': (B(
            res is not None and set(res) == set(base) | set(pend) and all(res[k] is v for k, v in base.items() if k not in pend)), ['C03', 'C01', 'C05'])}
        if res is not None:
            okv = True
            conj = []
            for k, v in pend.items():
                if k not in res:
                    okv = False
                    continue
                r = res[k]
                if isinstance(v, Ref):       # list of futures -> list of their results, same order
                    rh, vh = c.new.obj(r) if isinstance(r, Ref) else None, c.new.obj(v)
                    if rh is None or rh.kind != 'slist':
                        okv = False
                        continue
                    n = to_int_term(rh.meta['len'])
                    conj.append(n == to_int_term(vh.meta['len']))
                    conj.append(z3.ForAll([jj], z3.Implies(z3.And(jj >= 0, jj < n), z3.Select(rh.meta['arr'], jj) == fr(z3.Select(vh.meta['arr'], jj)))))
                else:
                    okv = okv and isinstance(r, Opaque) and z3.eq(r.term, fr(v.term))
            out['pending_kwargs_are_the_results_of_their_futures_lists_in_order'] = (z3.And([B(bool(okv))] + conj), ['C01', 'C03', 'C05'])
            out['own_main_kwargs_left_untouched'] = (B(c.new.obj(c.newf('_main_kwargs')).items == base), ['C03'])
        return out

    cg = R.contracts[f'{TASK}._get_all_main_kwargs']
    cg.props, cg.checks, cg.param_alternatives = ('C01', 'C03', 'C05'), gamk_checks, ALTS
    cg.raises = {'Exception': only_propagates}
    cg.loops = {1: LoopSpec(invariant=gamk_inner_inv, local_types={'result': ListOfT(ExtT('future_result'), name='results')})}

    # ------------------------------------------------------------------ write tasks of the output managers
    DL = 's3transfer.download'
    DOM, DNS = f'{DL}:DownloadOutputManager', f'{DL}:DownloadNonSeekableOutputManager'

    def iot_checks(cls_name, keys):
        def chk(c):
            h = c.new.obj(c.result) if isinstance(c.result, Ref) and c.new.obj(c.result).kind == 'obj' else None
            okk = h is not None and h.cls.name == cls_name and h.fields.get('_transfer_coordinator') is c.oldf('_transfer_coordinator') \
                and h.fields.get('_is_final') is False
            mk = c.new.obj(h.fields['_main_kwargs']).items if okk and isinstance(h.fields.get('_main_kwargs'), Ref) else None
            want = {k: c.args[k] for k in keys}
            return {'write_task_for_exactly_this_file_data_and_offset': (B(bool(okk) and mk is not None and set(mk) == set(want)
                                                                          and all(mk[k] is v for k, v in want.items())), ['C02', 'C16'])}
        return chk

    for target, cls_name, keys in ((f'{DOM}.get_io_write_task', 'IOWriteTask', ('fileobj', 'data', 'offset')),
                                   (f'{DNS}.get_io_write_task', 'IOStreamingWriteTask', ('fileobj', 'data'))):
        cc = R.contracts[target]
        cc.props = tuple(sorted(set(cc.props) | {'C02', 'C16'}))
        cc.checks = iot_checks(cls_name, keys)
        cc.raises = {}

    # ------------------------------------------------------------------ process pool: GetObjectWorker._write_to_file
    PP = 's3transfer.processpool'
    WRK = f'{PP}:GetObjectWorker'

    def pp_write_effect(eng, st, recv, args, kwargs, result):
        d = args[0]
        st.ghost['pp_written'] = z3.simplify(to_int_term(st.ghost.get('pp_written', z3.IntVal(0))) + to_int_term(d.hi) - to_int_term(d.lo))

    R.external('pp_file', __enter__=ExtSpec(returns=lambda eng, st, recv, a, k: recv, pure=True), __exit__=ExtSpec(raises=('OSError',)),
               seek=ExtSpec(raises=('OSError',)), write=ExtSpec(raises=('OSError',), effect=pp_write_effect))
    from pyvc.engine import ok, rs
    from pyvc.values import ExcV, fresh_name

    def open_model(eng, st, args, kwargs, line):
        from pyvc.state import Event
        s2 = st.fork()
        exc = ExcV('OSError', (), tag=fresh_name('open_exc'))
        s2.trace.append(Event('ext', 'open', None, args, kwargs, None, line, s2.held, extra={'raised': exc}))
        f = Opaque(fresh_name('opened_file'), kind='pp_file')
        st.trace.append(Event('ext', 'open', None, args, kwargs, f, line, st.held))
        return [rs(exc, s2), ok(f, st)]
    R.builtin_models['open'] = open_model

    def wtf_setup(eng, st, args, self_val):
        st.ghost['get_object_start'] = z3.IntVal(0)
        st.ghost['pp_written'] = z3.IntVal(0)
        R.body_state(st, args['body'])

    def body_of(st):
        keys = [k for k in st.ghost if isinstance(k, tuple) and k[0] == 'body']
        return st.ghost[keys[-1]]

    def wtf_inv(l):
        return {'written_so_far_is_the_body_prefix_read': to_int_term(l.st.ghost['pp_written']) == body_of(l.st)['pos']}

    def wtf_iteration(l0, l1, evs):
        wr = [e for e in evs if e.kind == 'ext' and e.name == 'pp_file.write']
        g0, g1 = body_of(l0.st), body_of(l1.st)
        out = {'one_write_per_chunk': (B(len(wr) == 1), ['C02', 'C19'])}
        if len(wr) == 1:
            d = wr[0].args[0]
            out['chunk_written_is_the_next_body_bytes'] = (z3.And(to_int_term(d.lo) == g0['pos'], to_int_term(d.hi) == g1['pos']), ['C02', 'C19'])
        return out

    def wtf_checks(c):
        tr = c.trace
        op = [e for e in tr if e.kind == 'ext' and e.name == 'open']
        sk = exts(tr, 'pp_file.seek')
        loops = [e for e in tr if e.kind == 'loop']
        g = body_of(c.new.st)
        return {
            'existing_temp_file_opened_for_update_not_truncated': (B(len(op) == 1 and op[0].args[:2] == (c.a_filename, 'rb+')), ['C02', 'C19', 'C06']),
            'positions_at_the_jobs_offset_before_writing': (B(len(sk) == 1 and sk[0].args == (c.a_offset,) and bool(loops)
                                                              and index_of(tr, sk[0]) < index_of(tr, loops[0])), ['C02', 'C19']),
            'returns_only_after_the_whole_body_was_written': (z3.And(g['pos'] == g['len'], to_int_term(c.new.st.ghost['pp_written']) == g['len']), ['C02', 'C03', 'C19']),
        }

    cwf = R.contracts[f'{WRK}._write_to_file']
    cwf.params = dict(filename=ExtT('str'), offset=Int, body=ExtT('respdict'))
    cwf.props, cwf.setup, cwf.checks = ('C02', 'C03', 'C19', 'C06'), wtf_setup, wtf_checks
    cwf.raises = {'Exception': only_propagates}
    cwf.modifies = lambda c: [('g', ('body', c.a_body.label), 'pos')] if isinstance(c.a_body, Opaque) else []
    cwf.loops = {0: LoopSpec(invariant=wtf_inv, iteration_checks=wtf_iteration)}

    # ------------------------------------------------------------------ ProcessPoolDownloader.shutdown
    PPD = f'{PP}:ProcessPoolDownloader'
    R.mark_inline(f'{PPD}._shutdown_if_needed')

    def ppd_sd_checks(c):
        sd = calls(c.trace, 'ProcessPoolDownloader._shutdown')
        started = c.oldf('_started')
        from .spec import b2z
        return {'a_started_downloader_is_shut_down_exactly_once_else_nothing_happens': (
            z3.If(b2z(started), B(len(sd) == 1), B(len(sd) == 0)), ['C19'])}

    cps = R.contracts[f'{PPD}.shutdown']
    cps.props, cps.checks, cps.raises = ('C19',), ppd_sd_checks, {'Exception': only_propagates}
    cps.self_type, cps.old_at = ObjT(PPD, shared=True), 'acquire'      # `_started` as read under `_start_lock`
    cps.modifies = lambda c: [('f', c.self, '_started'), ('f', c.self, '_workers')]

    # ------------------------------------------------------------------ utils.get_callbacks
    # verified for subscriber lists of length 0, 1 and 2 with arbitrary subscribers (the loop is unrolled; the general
    # statement for all lengths is the obvious induction over the same loop body and is NOT machine-checked: stated bound)
    from .a_submit import TF as TFQ, META as METAQ, CARGS as CARGSQ

    def tf_with_subscribers(n):
        def mk(eng, st):
            subs = st.alloc(HObj('list', items=[Opaque(f'subscriber{i}', kind='subscriber') for i in range(n)]))
            ca = eng.make_symbolic(ObjT(CARGSQ), 'call_args', st)
            st.obj(ca).fields['subscribers'] = subs
            meta = eng.make_symbolic(ObjT(METAQ), 'meta', st)
            st.obj(meta).fields['_call_args'] = ca
            tf = eng.make_symbolic(ObjT(TFQ), 'transfer_future', st)
            st.obj(tf).fields['_meta'] = meta
            return tf
        return Const(mk)

    def gc_checks(c):
        from pyvc.values import ExtMethod
        tf = c.a_transfer_future
        subs = c.new.obj(c.new.f(c.new.f(c.new.f(tf, '_meta'), '_call_args'), 'subscribers')).items
        res = c.new.obj(c.result).items if isinstance(c.result, Ref) and c.new.obj(c.result).kind == 'list' else None
        name = 'on_' + c.a_callback_type
        if res is None:
            return {'returns_a_list': B(False)}
        # every returned callback is partial(<subscriber>.on_<type>, future=<this future>), subscribers in order
        okshape = all(isinstance(r, PartialV) and isinstance(r.func, ExtMethod) and r.func.name == name and not r.args
                      and set(r.kwargs) == {'future'} and r.kwargs['future'] is tf for r in res)
        owners = [r.func.self_val for r in res] if okshape else []
        in_order = okshape and [subs.index(o) for o in owners if o in subs] == sorted(subs.index(o) for o in owners if o in subs) \
            and all(o in subs for o in owners) and len(set(id(o) for o in owners)) == len(owners)
        # ... exactly for the subscribers that have the method
        conj = [B(bool(in_order))]
        for sb in subs:
            has = c.engine.opaque_pred(sb, 'hasattr_' + name)
            conj.append(has == B(any(o is sb for o in owners)))
        return {'one_bound_callback_per_subscriber_that_has_the_method_in_subscriber_order': (z3.And(conj), ['C08', 'C09'])}

    cgc = R.contracts['s3transfer.utils:get_callbacks']
    cgc.props, cgc.checks, cgc.raises = ('C08', 'C09'), gc_checks, {}
    cgc.bounded = 'subscriber lists of length 0, 1 and 2 (loop unrolled); arbitrary subscribers'
    cgc.param_alternatives = {'transfer_future': [(f'{n}_subscribers', tf_with_subscribers(n)) for n in (0, 1, 2)],
                              'callback_type': [(t, Const(t)) for t in ('queued', 'progress', 'done')]}

    # ------------------------------------------------------------------ legacy twins of verified helpers
    L = 's3transfer'
    tmv = R.contracts['s3transfer.manager:TransferManager._validate_all_known_args']
    lv = R.contracts[f'{L}:S3Transfer._validate_all_known_args']
    lv.props, lv.ensures, lv.raises, lv.loops = ('C15',), tmv.ensures, tmv.raises, tmv.loops
    lv.params = dict(tmv.params)
    for nm in ('remove_file', 'rename_file'):
        src, dst = R.contracts[f'{UT}:OSUtils.{nm}'], R.contracts[f'{L}:OSUtils.{nm}']
        dst.props, dst.checks, dst.raises = ('C06',), src.checks, src.raises

    # S3Transfer._ranged_download: a MultipartDownloader on this transfer's client / config / osutil gets the same arguments
    def rd_checks(c):
        df = calls(c.trace, 'MultipartDownloader.download_file')
        okk = len(df) == 1
        out = {'one_ranged_download': (B(okk), ['C02', 'C15'])}
        if okk:
            env = df[0].extra['env']
            d = c.new.obj(df[0].recv) if isinstance(df[0].recv, Ref) else None
            out['same_arguments_and_collaborators'] = (B(
                env['bucket'] is c.a_bucket and env['key'] is c.a_key and env['filename'] is c.a_filename and env['object_size'] is c.a_object_size
                and env['extra_args'] is c.a_extra_args and env['callback'] is c.a_callback and d is not None
                and d.fields.get('_client') is c.oldf('_client') and d.fields.get('_config') is c.oldf('_config') and d.fields.get('_os') is c.oldf('_osutil')), ['C15', 'C02'])
        return out

    from .b_legacy import EXTRA as LEXTRA
    crd = R.contracts[f'{L}:S3Transfer._ranged_download']
    crd.params = dict(bucket=ExtT('str'), key=ExtT('str'), filename=ExtT('str'), object_size=Int, extra_args=LEXTRA, callback=OptT(ExtT('legacy_cb')))
    crd.props, crd.checks, crd.raises = ('C02', 'C15'), rd_checks, {'Exception': only_propagates}
    R.mark_inline(f'{L}:MultipartDownloader.__init__')
    R.builtin_models[f'{L}.ShutdownQueue'] = None

    # ------------------------------------------------------------------ OSUtils.get_temp_filename (C06, C19, C20)
    # The temporary name lies in the destination's directory, keeps the whole random suffix, fits the file-system limit
    # and is NOT the destination name.  Strings are z3 strings here; os.path.dirname / basename / join are modelled for
    # POSIX paths (A-OS); A-RANDOM: the random extension is not what the destination's name happens to end with.
    OSU = f'{UT}:OSUtils'

    def gtf_setup(eng, st, args, self_val):
        d, n, ext = z3.String('gtf_dir'), z3.String('gtf_name'), z3.String('gtf_ext')
        st.ghost['gtf'] = (d, n, ext)
        fn = args['filename']
        st.assume(z3.Not(z3.Contains(n, z3.StringVal('/'))))
        st.assume(z3.Length(n) >= 1)
        st.assume(fn == z3.If(d == z3.StringVal(''), n, z3.Concat(d, z3.StringVal('/'), n)))
        st.assume(z3.Length(ext) == 8)
        st.assume(z3.Not(z3.Contains(ext, z3.StringVal('/'))))
        st.assume(z3.Not(z3.SuffixOf(z3.Concat(z3.StringVal('.'), ext), n)))        # A-RANDOM

    def gtf_models(eng):
        from pyvc.engine import ok as _ok
        R.builtin_models['os.path.dirname'] = lambda e, st, a, k, line: [_ok(st.ghost['gtf'][0] if 'gtf' in st.ghost else Opaque('dirname', kind='str'), st)]
        R.builtin_models['os.path.basename'] = lambda e, st, a, k, line: [_ok(st.ghost['gtf'][1] if 'gtf' in st.ghost else Opaque('basename', kind='str'), st)]
        R.builtin_models['os.path.join'] = lambda e, st, a, k, line: [_ok(
            z3.If(a[0] == z3.StringVal(''), a[1], z3.Concat(a[0], z3.StringVal('/'), a[1])) if 'gtf' in st.ghost else Opaque('joined', kind='str'), st)]
    gtf_models(None)

    def rfe_returns(c, st):
        return st.ghost['gtf'][2] if 'gtf' in st.ghost else Opaque('random_ext', kind='str')
    R.contracts[f'{UT}:random_file_extension'].returns = rfe_returns

    def gtf_post(c):
        if 'gtf' not in c.new.st.ghost:           # assumed at a call site: the name is opaque there
            return {}
        d, n, ext = c.new.st.ghost['gtf']
        res = c.result
        suffix = z3.Concat(z3.StringVal('.'), ext)
        pre = z3.Concat(d, z3.StringVal('/'))
        t = z3.If(d == z3.StringVal(''), res, z3.SubString(res, z3.Length(pre), z3.Length(res) - z3.Length(pre)))
        return {
            'temp_name_differs_from_the_destination': (res != c.a_filename, ['C06', 'C19', 'C20']),
            'same_directory': (z3.Or(d == z3.StringVal(''), z3.PrefixOf(pre, res)), ['C06']),
            'whole_random_suffix_kept': (z3.SuffixOf(suffix, t), ['C06']),
            'within_the_name_limit': (z3.Length(t) <= 255, ['C06']),
            'no_separator_in_the_temp_name': (z3.Not(z3.Contains(t, z3.StringVal('/'))), ['C06']),
        }

    cgt = R.contracts[f'{OSU}.get_temp_filename']
    cgt.params = dict(filename=Str)
    cgt.props, cgt.setup, cgt.ensures, cgt.raises = ('C06', 'C19', 'C20'), gtf_setup, gtf_post, {}
    cgt.replay = dict(module=UT, cls='OSUtils', func='get_temp_filename', oracle='get_temp_filename')

    # ------------------------------------------------------------------ SubmissionTask._wait_for_all_submitted_futures_to_complete
    # (C04 / C05 / C03: on a failed submission the cleanups -- abort of the multipart upload, removal of the temp file -- and the
    #  done callbacks must not run while a task of the transfer is still running.)  The set of associated futures is read under
    #  its lock; what comes back is an arbitrary set (other threads add and remove): an opaque value whose emptiness and equality
    #  with another such value are undetermined.
    SUBT = f'{T}:SubmissionTask'
    R.symbolic_truth_kinds = set(getattr(R, 'symbolic_truth_kinds', ())) | {'future_set'}
    R.contract(f'{TC}.associated_futures', params={}, returns=ExtT('future_set'), self_type=ObjT(TC, shared=True))

    # the getter itself, against its body: what it hands out is a NEW set (a caller iterating it is not disturbed by another
    # thread's add/remove, and cannot disturb the tracked set), equal member for member to the tracked set as it was while the
    # getter held the lock; the tracked set is left as it was.  (Reading the field outside its lock is refused by the monitor
    # declared in c04.)
    def assoc_read_post(c):
        fld = c.newf('_associated_futures')
        res = c.result
        fresh = isinstance(res, Ref) and isinstance(fld, Ref) and res.oid != fld.oid and c.new.obj(res).kind == c.new.obj(fld).kind
        if not fresh:
            return {'returns_a_copy_not_the_tracked_set_itself': B(False)}
        old = c.new.st.ghost.get(('mon_old', c.self.oid))
        if old is None:
            return {'returns_a_copy_not_the_tracked_set_itself': B(True), 'read_under_its_lock': B(False)}
        p0 = old.obj(old.obj(c.self).fields['_associated_futures']).meta['present']
        p1 = c.new.obj(fld).meta['present']
        pr = c.new.obj(res).meta['present']
        xr = z3.Const('xr_fut', p0.domain())
        return {'returns_a_copy_not_the_tracked_set_itself': B(True),
                'read_under_its_lock': B(True),
                'copy_has_exactly_the_tracked_members': z3.ForAll([xr], z3.Select(pr, xr) == z3.Select(p0, xr)),
                'tracked_set_untouched': z3.ForAll([xr], z3.Select(p1, xr) == z3.Select(p0, xr))}

    ca = R.contracts[f'{TC}.associated_futures']
    ca.props, ca.ensures, ca.raises, ca.old_at = ('C04', 'C05', 'C08'), assoc_read_post, {}, 'acquire'

    def reads_of(evs):
        return [e for e in evs if e.kind == 'call' and e.name.endswith('TransferCoordinator.associated_futures')]

    def waits_of(evs):
        return [e for e in evs if e.kind == 'call' and e.name.endswith('Task._wait_until_all_complete')]

    def wfa_iteration(l0, l1, evs):
        rd, wt = reads_of(evs), waits_of(evs)
        okk = len(wt) == 1 and len(rd) == 1 and wt[0].extra['env']['futures'] is l0.st.env.get('submitted_futures') \
            and index_of(evs, wt[0]) < index_of(evs, rd[0]) and l1.st.env.get('submitted_futures') is rd[0].result
        return {'waits_for_the_set_it_holds_then_rereads_and_continues_with_the_new_set': (B(bool(okk)), ['C04', 'C05', 'C03', 'C08'])}

    def wfa_checks(c):
        tr = c.trace
        li = [i for i, e in enumerate(tr) if e.kind == 'loop']
        out = {'one_loop': (B(len(li) == 1), ['C04', 'C05'])}
        if len(li) != 1:
            return out
        before, after = tr[:li[0]], tr[li[0] + 1:]
        env = c.new.st.env
        out['starts_from_the_futures_associated_at_entry'] = (B(
            len(reads_of(before)) == 1 and not waits_of(before)), ['C04', 'C05'])
        rd, wt = reads_of(after), waits_of(after)
        if not after:
            # left through the loop condition: the set it holds (the latest one read) is empty
            out['returns_only_when_no_future_is_associated_or_the_waited_set_was_still_the_whole_set'] = (
                z3.Not(c.engine.truthy(env['submitted_futures'], c.new.st)), ['C04', 'C05', 'C03', 'C08'])
        else:
            # left through `break`: it waited for the set it held, read again, and the two sets are equal
            okk = len(wt) == 1 and len(rd) == 1 and wt[0].extra['env']['futures'] is env.get('submitted_futures') \
                and rd[0].result is env.get('possibly_more_submitted_futures') and index_of(after, wt[0]) < index_of(after, rd[0])
            from pyvc.values import to_z3_bool
            out['returns_only_when_no_future_is_associated_or_the_waited_set_was_still_the_whole_set'] = (
                z3.And(B(bool(okk)), to_z3_bool(c.engine.value_eq(env['submitted_futures'], env['possibly_more_submitted_futures'], c.new.st)))
                if okk else B(False), ['C04', 'C05', 'C03', 'C08'])
        return out

    cw = R.contracts[f'{SUBT}._wait_for_all_submitted_futures_to_complete']
    cw.props, cw.checks, cw.raises = ('C04', 'C05', 'C03', 'C08'), wfa_checks, {}
    cw.loops = {0: LoopSpec(invariant=lambda l: {}, iteration_checks=wfa_iteration,
                            local_types={'submitted_futures': ExtT('future_set'), 'possibly_more_submitted_futures': ExtT('future_set')})}

    # ------------------------------------------------------------------ NonThreadedExecutor.submit (use_threads=False)
    # runs the task synchronously; the returned future is done and carries the task's result or its Exception (C03: never a
    # success for a failed call); a KeyboardInterrupt is not captured
    NTE, NTF = f'{F}:NonThreadedExecutor', f'{F}:NonThreadedExecutorFuture'
    R.add_fields(NTF, _result=Any, _exception=Any, _traceback=Any, _done=Bool, _done_callbacks=Any)
    R.mark_inline(f'{NTF}.__init__', f'{NTF}.set_result', f'{NTF}.set_exception_info', f'{NTF}._invoke_done_callback')
    R.contract(f'{NTF}._set_done', params={}, inline=True, loops={0: trivial_loop()})
    R.external('task_callable', **{'()': ExtSpec(returns=ExtT('main_result'), raises=('Exception', 'KeyboardInterrupt'))})

    def nte_checks(c):
        runs = [e for e in c.trace if e.kind == 'ext' and e.name == 'task_callable.()']
        fut = c.result
        okf = isinstance(fut, Ref) and c.new.obj(fut).cls.name == 'NonThreadedExecutorFuture'
        out = {'the_task_runs_exactly_once_and_a_future_comes_back': (B(len(runs) == 1 and bool(okf)), ['C03', 'C04'])}
        if len(runs) == 1 and okf:
            h = c.new.obj(fut)
            raised = runs[0].extra.get('raised')
            out['the_future_is_done_and_carries_the_tasks_outcome'] = (B(bool(
                h.fields.get('_done') is True and (
                    (raised is None and h.fields.get('_exception') is None and h.fields.get('_result') is runs[0].result)
                    or (raised is not None and h.fields.get('_exception') is raised)))), ['C03', 'C04'])
            out['an_interrupt_is_not_captured_into_the_future'] = (B(raised is None or raised.cls != 'KeyboardInterrupt'), ['C07', 'C03'])
        return out

    R.contract(f'{NTE}.submit', props=['C03', 'C04', 'C07'], params=dict(fn=ExtT('task_callable')), top_level=True,
               checks=nte_checks, raises={'KeyboardInterrupt': only_propagates})

    # the future of the non-threaded executor: a done callback added to a finished future runs at once (this is how the permit of
    # BoundedExecutor.submit is released and how a task future is untracked when use_threads=False: C04 / C10); result() re-raises
    R.external('done_cb', **{'()': ExtSpec(raises=('Exception',))})

    def ntf_adc_checks(c):
        runs = [e for e in c.trace if e.kind == 'ext' and e.name == 'done_cb.()']
        from .spec import b2z
        was_done = b2z(c.oldf('_done'))
        lst1 = c.new.obj(c.newf('_done_callbacks')) if isinstance(c.newf('_done_callbacks'), Ref) else None
        lst0 = c.old.obj(c.oldf('_done_callbacks')) if isinstance(c.oldf('_done_callbacks'), Ref) else None
        added = lst1 is not None and lst0 is not None and len(lst1.items) == len(lst0.items) + 1 and lst1.items[-1] is c.a_fn
        same = lst1 is not None and lst0 is not None and list(lst1.items) == list(lst0.items)
        return {'runs_now_with_the_future_if_already_done_else_is_recorded': (z3.If(
            was_done, B(len(runs) == 1 and tuple(runs[0].args) == (c.self,) and bool(same)), B(len(runs) == 0 and bool(added))), ['C04', 'C10'])}

    R.contract(f'{NTF}.add_done_callback', props=['C04', 'C10'], params=dict(fn=ExtT('done_cb')), top_level=True,
               self_type=ObjT(NTF, _done_callbacks=Const(lambda eng, st: st.alloc(HObj('list', items=[])))),
               checks=ntf_adc_checks, raises={'Exception': only_propagates})

    # ------------------------------------------------------------------ OSUtils.get_file_size (both modules): C01 / C14
    # the size that decides single vs multipart and bounds every part window is the size of the file the path NAMES (what open()
    # will read: os.path.getsize follows links), asked once.  os.path.getsize / os.stat / os.lstat are events; A-OS.
    from pyvc.engine import rs as _rs, ok as _ok
    from pyvc.state import Event
    from .spec import TWO53

    def _fs_query(name, result):
        def model(eng, st, args, kwargs, line):
            out = []
            s2 = st.fork()
            exc = ExcV('OSError', (), tag=fresh_name('os_exc'))
            s2.trace.append(Event('ext', name, None, args, kwargs, None, line, s2.held, extra={'raised': exc}))
            out.append(_rs(exc, s2))
            val = result(eng, st)
            st.trace.append(Event('ext', name, None, args, kwargs, val, line, st.held))
            out.append(_ok(val, st))
            return out
        return model

    def _size(eng, st):
        v = z3.Int(fresh_name('file_size'))
        st.assume(z3.And(v >= 0, v < TWO53))
        return v
    R.builtin_models['os.path.getsize'] = _fs_query('os.path.getsize', _size)
    for nm in ('os.stat', 'os.lstat', 'os.fstat'):
        R.builtin_models[nm] = _fs_query(nm, lambda eng, st: Opaque(fresh_name('stat_result'), kind='stat_result'))

    def gfs_checks(c):
        q = [e for e in c.trace if e.kind == 'ext' and e.name.startswith('os.')]
        return {'asks_once_for_the_size_of_the_file_the_path_names': (B(
            len(q) == 1 and q[0].name == 'os.path.getsize' and tuple(q[0].args) == (c.a_filename,) and c.result is q[0].result), ['C01', 'C14'])}

    # ------------------------------------------------------------------ OSUtils.is_special_file: C16 / C02
    # "a special file given by name" is decided for the file the name RESOLVES to (what open() will write into: os.stat follows
    # links, /dev/stdout and /dev/fd/N are links): a FIFO / device / socket reached through a link still gets the deferring,
    # in-order output manager and is never renamed over.
    R.builtin_models['os.path.exists'] = lambda eng, st, args, kwargs, line: [_ok(eng.opaque_pred(args[0], 'path_exists') if isinstance(args[0], Opaque) else z3.Bool(fresh_name('path_exists')), st)]
    R.external('stat_result', **{'.st_size': ExtSpec(returns=Int, pure=True), '.st_mode': ExtSpec(returns=lambda eng, st, recv, args, kwargs: z3.Function('st_mode_of', U, z3.IntSort())(recv.term), pure=True)})
    SPECIAL_KINDS = ('S_ISCHR', 'S_ISBLK', 'S_ISFIFO', 'S_ISSOCK')
    for k in SPECIAL_KINDS + ('S_ISREG', 'S_ISDIR', 'S_ISLNK'):
        R.builtin_models['stat.' + k] = lambda eng, st, args, kwargs, line, k=k: [_ok(z3.Function('stat_' + k, z3.IntSort(), z3.BoolSort())(args[0]), st)]

    def isf_checks(c):
        from .spec import b2z
        q = [e for e in c.trace if e.kind == 'ext' and e.name in ('os.stat', 'os.lstat', 'os.fstat')]
        out = {'the_kind_is_that_of_the_file_the_name_resolves_to_links_followed': (B(
            all(e.name == 'os.stat' and tuple(e.args) == (c.a_filename,) for e in q)), ['C16', 'C02'])}
        if len(q) == 1 and q[0].result is not None:
            mode = z3.Function('st_mode_of', U, z3.IntSort())(q[0].result.term)
            special = z3.Or([z3.Function('stat_' + k, z3.IntSort(), z3.BoolSort())(mode) for k in SPECIAL_KINDS])
            out['special_iff_character_or_block_device_fifo_or_socket'] = (b2z(c.result) == special, ['C16', 'C02'])
        else:
            out['a_file_that_does_not_exist_is_not_special'] = (z3.Not(b2z(c.result)) if not q else B(False), ['C16', 'C02'])
        return out

    ci = R.contracts[f'{UT}:OSUtils.is_special_file']
    ci.props, ci.checks, ci.raises = ('C16', 'C02'), isf_checks, {'OSError': only_propagates}
    ci.modifies = lambda c: []

    for t in (f'{UT}:OSUtils.get_file_size', f'{L}:OSUtils.get_file_size'):
        cg = R.contracts[t]
        cg.props, cg.checks, cg.raises = ('C01', 'C14'), gfs_checks, {'OSError': only_propagates}
        cg.modifies = lambda c: []
