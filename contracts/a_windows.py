"""Byte windows and progress accounting: ReadFileChunk, invoke_progress_callbacks,
AggregatedProgressCallback, StreamReaderProgress, request tasks (_main of Put/UploadPart/Copy*).
Used by C01 (byte exactness), C09 (progress), C02."""
import z3

from pyvc.contracts import Any, Bool, BytesT, Const, ExtSpec, ExtT, Int, ListOfT, LoopSpec, MapT, ObjT, OptT, Str
from pyvc.values import BytesV, ExcV, Opaque, Opt, Ref, to_int_term

from .a_common import UT, is_none
from .a_tasks import T, TASK, TC, calls, exts, flat, index_of, trivial_loop, only_propagates
from .spec import b2z, implies

B = z3.BoolVal
RFC = f'{UT}:ReadFileChunk'
UP = 's3transfer.upload'
AGG = f'{UP}:AggregatedProgressCallback'


def zmin(a, b):
    return z3.If(a <= b, a, b)


def zmax(a, b):
    return z3.If(a >= b, a, b)


def reported(trace, callbacks_val=None):
    """Sum of bytes_transferred handed to invoke_progress_callbacks on this path (ghost `reported`)."""
    tot = z3.IntVal(0)
    for e in trace:
        if e.kind == 'call' and e.name == f'{UT}:invoke_progress_callbacks':
            tot = tot + to_int_term(e.extra['env']['bytes_transferred'])
    return z3.simplify(tot)


def _count_reported(c, st):
    """ghost `reported`: running sum of the bytes_transferred values handed to the progress callbacks."""
    st.ghost['reported'] = z3.simplify(to_int_term(st.ghost.get('reported', z3.IntVal(0))) + to_int_term(c.a_bytes_transferred))
    return None


def register(R):
    # ------------------------------------------------------------------ invoke_progress_callbacks
    # user code: may raise anything; OSError stands for the non-stream errors that are OSError subclasses
    # (file-system faults), which a too-wide retry filter would swallow (C03)
    R.external('progress_cb', **{'()': ExtSpec(raises=('Exception', 'OSError'), user_code=True)})

    def ipc_checks(c):
        tr = c.trace
        loops = [e for e in tr if e.kind == 'loop']
        nz = b2z(c.engine.truthy(c.a_bytes_transferred, c.new.st))
        each = bool(loops) and all(
            len([e for e in alt if e.kind == 'ext']) == 1 and [e for e in alt if e.kind == 'ext'][0].recv is item
            and [e for e in alt if e.kind == 'ext'][0].kwargs.get('bytes_transferred') is c.a_bytes_transferred
            for alt, item in zip(loops[0].alts, loops[0].items)) if loops else False
        return {
            'callbacks_invoked_iff_bytes_nonzero': z3.If(nz, B(len(loops) == 1 and loops[0].iterable is c.a_callbacks), B(len(loops) == 0)),
            'each_callback_once_with_the_amount': implies(nz, B(bool(each) or (len(loops) == 1 and not loops[0].alts))),
            # (every invocation belongs to that one pass over the list: none before it, none after it)
            'no_callback_invoked_outside_the_single_pass': B(not [e for e in tr if e.kind == 'ext' and e.name == 'progress_cb.()']),
        }

    def ipc_iteration(l0, l1, evs):
        # C03: "if any ... user on_progress callback raises, result() raises": an iteration that goes on to the next callback
        # has not swallowed an exception of this one
        return {'a_raising_progress_callback_is_not_swallowed': (B(not any(
            e.extra.get('raised') is not None for e in evs if e.kind in ('ext', 'call'))), ['C03', 'C09'])}

    R.contract(
        f'{UT}:invoke_progress_callbacks', props=['C09', 'C03'],
        params=dict(callbacks=ListOfT(ExtT('progress_cb')), bytes_transferred=Int),
        checks=ipc_checks, raises={'Exception': only_propagates}, raise_when={'Exception': lambda c: None, 'OSError': lambda c: None},
        loops={0: LoopSpec(invariant=lambda l: {}, iteration_checks=ipc_iteration)},
        effects=_count_reported,
    )

    # ------------------------------------------------------------------ ReadFileChunk
    R.add_fields(
        RFC, _fileobj=ExtT('fileobj_or_name'), _start_byte=Int, _size=Int, _amount_read=Int,
        _callbacks=OptT(ListOfT(ExtT('progress_cb'))), _callbacks_enabled=Bool,
        _close_callbacks=OptT(ListOfT(ExtT('close_cb'))),
    )
    R.external('close_cb', **{'()': ExtSpec(raises=('Exception',))})

    def rfc_setup(eng, st, args, self_val):
        """Window invariant (class invariant of ReadFileChunk, sequential use by one request thread):
        the underlying position is start + amount_read; the window lies inside the source."""
        h = st.obj(self_val)
        g = R.stream_state(st, h.fields['_fileobj'])
        start, size, ar = h.fields['_start_byte'], h.fields['_size'], h.fields['_amount_read']
        st.assume(z3.And(start >= 0, size >= 0, ar >= 0, start + size <= g['len'], g['pos'] == start + ar))
        st.ghost['rfc_pre'] = (g['pos'], g['len'])

    def window_inv(c):
        g = c.new.st.ghost[('stream', c.oldf('_fileobj').label)]
        return g['pos'] == c.newf('_start_byte') + c.newf('_amount_read')

    def P(c, view_f):
        """bounded position min(amount_read, size)"""
        return zmin(view_f('_amount_read'), view_f('_size'))

    def enabled(c):
        return z3.And(z3.Not(is_none(c.oldf('_callbacks'))), b2z(c.oldf('_callbacks_enabled')))

    def read_post(c):
        d = c.result
        start, size, ar0 = c.oldf('_start_byte'), c.oldf('_size'), c.oldf('_amount_read')
        pos0, ln = c.new.st.ghost['rfc_pre']
        left = zmax(size - ar0, 0)
        amt = c.a_amount
        want = z3.If(amt.is_none, left, zmin(left, amt.val))
        k = to_int_term(d.hi) - to_int_term(d.lo)
        return {
            'window_invariant_kept': window_inv(c),
            # the next bytes of the window: as many as asked for (bounded by window and file) when the underlying file
            # gives full reads; otherwise (raw stream, short reads) a non-empty prefix of them, empty only at the end
            'returns_the_next_bytes_of_the_window': z3.And(
                B(d.base == 'src'), to_int_term(d.lo) == start + ar0, k <= zmin(want, ln - pos0),
                z3.Implies(zmin(want, ln - pos0) > 0, k > 0),
                z3.Implies(c.new.st.ghost[('stream', c.oldf('_fileobj').label)]['full_reads'], k == zmin(want, ln - pos0))),
            'never_a_byte_outside_the_window': z3.Or(k == 0, z3.And(to_int_term(d.lo) >= start, to_int_term(d.hi) <= start + size)),
            'position_advances_by_what_was_returned': c.newf('_amount_read') == ar0 + k,
            # C09: progress reported == change of the bounded position (0 when reporting is disabled)
            'progress_equals_bytes_returned_when_enabled': (reported(c.trace) == z3.If(enabled(c), k, 0), ['C09']),
            'progress_equals_change_of_bounded_position': (
                implies(enabled(c), reported(c.trace) == P(c, c.newf) - P(c, c.oldf)), ['C09']),
        }

    R.contract(
        f'{RFC}.read', props=['C01', 'C09'], params=dict(amount=OptT(Int)),
        requires=lambda c: [z3.Or(c.a_amount.is_none, c.a_amount.val >= 0)],
        setup=rfc_setup, ensures=read_post,
        raises={'Exception': only_propagates}, raise_when={'Exception': lambda c: None},
        returns=BytesT('src'),
    )

    def seek_post(c):
        start, size, ar0 = c.oldf('_start_byte'), c.oldf('_size'), c.oldf('_amount_read')
        w, wh = c.a_where, c.a_whence
        target = w + z3.If(wh == 1, ar0, z3.If(wh == 2, size, 0))
        new_ar = zmax(target, 0)
        return {
            'window_invariant_kept': window_inv(c),
            'position_is_the_requested_one_clamped_at_zero': c.newf('_amount_read') == new_ar,
            'seek_zero_rewinds_to_window_start': implies(z3.And(w == 0, wh == 0), c.newf('_amount_read') == 0),
            'progress_taken_back_equals_change_of_bounded_position': (
                reported(c.trace) == z3.If(enabled(c), zmin(zmax(target, 0), size) - zmin(ar0, size), 0), ['C09']),
        }

    R.contract(
        f'{RFC}.seek', props=['C01', 'C09'], params=dict(where=Int, whence=Int),
        requires=lambda c: [z3.Or(c.a_whence == 0, c.a_whence == 1, c.a_whence == 2)],
        setup=rfc_setup, ensures=seek_post,
        raises={'Exception': only_propagates}, raise_when={'Exception': lambda c: None},
    )
    R.contract(f'{RFC}.tell', props=['C01'], params={}, ensures=lambda c: {'tell_is_position_in_window': c.result == c.oldf('_amount_read')}, returns=Int)
    R.contract(f'{RFC}.__len__', props=['C01'], params={}, ensures=lambda c: {'length_is_window_size': c.result == c.oldf('_size')}, returns=Int)

    def toggles(name, val):
        R.contract(f'{RFC}.{name}', props=['C09'], params={},
                   ensures=lambda c, val=val: {'reporting_' + ('enabled' if val else 'disabled'): b2z(c.newf('_callbacks_enabled')) == B(val),
                                               'position_untouched': c.newf('_amount_read') == c.oldf('_amount_read'),
                                               'nothing_reported': reported(c.trace) == 0})
    toggles('enable_callback', True)
    toggles('disable_callback', False)
    R.mark_inline(f'{RFC}.signal_transferring', f'{RFC}.signal_not_transferring', f'{RFC}.__exit__', f'{RFC}.__enter__')

    # botocore 'request-created' handlers: reporting of an upload body is switched off while botocore prepares the request
    # and on again when it is about to be sent -- for PutObject / UploadPart bodies, nothing else
    def request_body(eng, st, recv, args, kwargs):
        key = ('request_body', recv.label)
        if key not in st.ghost:
            st.ghost[key] = eng.make_symbolic(ObjT(RFC), 'request_body', st)
        return st.ghost[key]

    R.external('aws_request', **{'.body': ExtSpec(returns=request_body, pure=True)})

    # botocore may have wrapped the upload body for an aws-chunked trailing checksum by the time request-created fires: the
    # request's body is then an AwsChunkedWrapper (no signal_* methods of its own) whose `_raw` is the ReadFileChunk
    def wrapped_body(eng, st, recv, args, kwargs):
        key = ('wrapped_body', recv.label)
        if key not in st.ghost:
            st.ghost[key] = Opaque('aws_chunked_body_of_' + recv.label, kind='aws_chunked_body')
            st.ghost[('wrapper_of', st.ghost[key].label)] = recv
        return st.ghost[key]

    def raw_of_wrapper(eng, st, recv, args, kwargs):
        return request_body(eng, st, st.ghost[('wrapper_of', recv.label)], (), {})

    R.external('aws_request_wrapped_body', **{'.body': ExtSpec(returns=wrapped_body, pure=True)})
    R.external('aws_chunked_body', **{'._raw': ExtSpec(returns=raw_of_wrapper, pure=True),
                                     'hasattr:_raw': ExtSpec(returns=True), 'isinstance:AwsChunkedWrapper': ExtSpec(returns=True),
                                     'hasattr:signal_transferring': ExtSpec(returns=False),
                                     'hasattr:signal_not_transferring': ExtSpec(returns=False)})

    def signal_contract(name, val):
        def checks(c):
            body = c.new.st.ghost.get(('request_body', c.a_request.label))
            if c.a_request.kind == 'aws_request_wrapped_body':
                # the body botocore has wrapped (AwsChunkedWrapper around the ReadFileChunk): whatever the first handler did
                # with it, reporting is on once the last request-created handler has run -- the bytes the HTTP layer then
                # reads through the wrapper are the transferred ones (C09: amounts sum to the size)
                # (what the first handler, signal_not_transferring, does with a wrapped body is left open)
                if c.a_operation_name in ('PutObject', 'UploadPart') and not val:
                    return {}
            if body is None:
                return {'only_upload_bodies_are_touched': B(c.a_operation_name not in ('PutObject', 'UploadPart'))}
            en1 = b2z(c.new.f(body, '_callbacks_enabled'))
            en0 = b2z(c.old.f(body, '_callbacks_enabled')) if body.oid in c.old.st.heap else en1
            if c.a_operation_name in ('PutObject', 'UploadPart'):
                # ... and the signal is passed on to the stream under the body (a bandwidth-limited stream switches its
                # throttling on / off with it, C13) whenever that stream understands it
                fo = c.new.f(body, '_fileobj')
                sig = [e for e in flat(c.trace) if e.kind == 'ext' and e.name == 'fileobj_or_name.' + name]
                has = c.engine.opaque_pred(fo, 'hasattr_' + name) if isinstance(fo, Opaque) else B(False)
                return {'reporting_of_the_upload_body_is_' + ('on' if val else 'off'): (en1 == B(val), ['C09']),
                        'signal_reaches_the_wrapped_stream_iff_it_understands_it': (z3.If(
                            has, B(len(sig) == 1 and sig[0].recv is fo), B(len(sig) == 0)), ['C13', 'C09'])}
            return {'other_operations_bodies_untouched': en1 == en0}
        R.contract(f'{UT}:{name}', props=['C09', 'C13'], params=dict(request=ExtT('aws_request'), operation_name=Str),
                   param_alternatives={'operation_name': [(n, Const(n)) for n in ('PutObject', 'UploadPart', 'GetObject')],
                                       'request': [('plain', ExtT('aws_request')), ('wrapped', ExtT('aws_request_wrapped_body'))]},
                   setup=lambda eng, st, args, self_val: request_body(eng, st, args['request'], (), {}),
                   checks=checks, raises={}, top_level=True)
    signal_contract('signal_not_transferring', False)
    signal_contract('signal_transferring', True)

    def close_checks(c):
        loops = [e for e in c.trace if e.kind == 'loop']
        cl = exts(c.trace, 'fileobj_or_name.close')
        run = z3.And(z3.Not(is_none(c.oldf('_close_callbacks'))), b2z(c.oldf('_callbacks_enabled')))
        each = all(len([e for e in alt if e.kind == 'ext']) == 1 and [e for e in alt if e.kind == 'ext'][0].recv is item
                   for lp in loops for alt, item in zip(lp.alts, lp.items))
        return {
            'close_callbacks_run_iff_reporting_enabled': (z3.If(run, B(len(loops) == 1 and loops[0].iterable is (
                c.oldf('_close_callbacks').val if isinstance(c.oldf('_close_callbacks'), Opt) else c.oldf('_close_callbacks'))), B(len(loops) == 0)), ['C09']),
            # (the close callback of an upload body flushes the progress still pending in its aggregator)
            'each_close_callback_invoked_exactly_once': (B(bool(each)), ['C09']),
            'underlying_closed': B(len(cl) == 1),
            # C03: the close callbacks of an upload body flush the pending progress to the user's on_progress: if that raises
            # (or the close of the source does), the request task must fail -- close() returns normally only if nothing raised
            'a_raising_close_callback_is_not_swallowed': (B(not any(
                e.extra.get('raised') is not None for e in flat(c.trace) if e.kind in ('ext', 'call'))), ['C03', 'C09']),
        }

    R.contract(f'{RFC}.close', props=['C09', 'C01', 'C03'], params={}, checks=close_checks,
               raises={'Exception': only_propagates}, raise_when={'Exception': lambda c: None}, loops={0: trivial_loop()})

    # ------------------------------------------------------------------ AggregatedProgressCallback
    R.add_fields(AGG, _callbacks=ListOfT(ExtT('progress_cb')), _threshold=Int, _bytes_seen=Int)

    def delivered(trace):
        """Sum delivered to the user callbacks on this path = (#trigger events) each delivering _bytes_seen:
        read off the ext events' kwarg (every callback of one trigger gets the same amount)."""
        tot = z3.IntVal(0)
        for e in trace:
            if e.kind == 'loop' and e.alts:
                # one trigger: all callbacks receive the same amount -- recorded by the loop summary's first alt
                ext = [x for x in e.alts[0] if x.kind == 'ext']
                if ext:
                    tot = tot + to_int_term(ext[0].kwargs['bytes_transferred'])
        return z3.simplify(tot)

    def agg_call_post(c):
        seen0, thr, b = c.oldf('_bytes_seen'), c.oldf('_threshold'), c.a_bytes_transferred
        fire = seen0 + b >= thr
        return {
            'conservation_received_equals_delivered_plus_pending': delivered(c.trace) + c.newf('_bytes_seen') == seen0 + b,
            'delivers_when_threshold_reached': z3.If(fire, c.newf('_bytes_seen') == 0, delivered(c.trace) == 0),
        }

    R.contract(f'{AGG}.__call__', props=['C09'], params=dict(bytes_transferred=Int), ensures=agg_call_post,
               inline_callees=[f'{AGG}._trigger_callbacks'],
               raises={'Exception': only_propagates}, raise_when={'Exception': lambda c: None})
    R.contract(f'{AGG}.flush', props=['C09'], params={},
               ensures=lambda c: {
                   'remainder_delivered_iff_positive': z3.If(c.oldf('_bytes_seen') > 0,
                                                             z3.And(delivered(c.trace) == c.oldf('_bytes_seen'), c.newf('_bytes_seen') == 0),
                                                             z3.And(delivered(c.trace) == 0, c.newf('_bytes_seen') == c.oldf('_bytes_seen')))},
               inline_callees=[f'{AGG}._trigger_callbacks'],
               raises={'Exception': only_propagates}, raise_when={'Exception': lambda c: None})
    R.contract(f'{AGG}._trigger_callbacks', params={}, loops={0: trivial_loop()}, inline=True)


WINDOW_ROOTS = [f'{RFC}.read', f'{RFC}.seek', f'{RFC}.tell', f'{RFC}.__len__', f'{RFC}.enable_callback',
                f'{RFC}.disable_callback', f'{RFC}.close', f'{UT}:invoke_progress_callbacks']
PROGRESS_ROOTS = [f'{AGG}.__call__', f'{AGG}.flush']
