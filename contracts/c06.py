"""C06 -- file downloads are published atomically and leave no temporary files."""
import z3

from .a_submit import DL, UT
from .a_common import F
from .a_tasks import T, TASK

DST = f'{DL}:DownloadSubmissionTask'
TC = f'{F}:TransferCoordinator'
ROOTS = [
    f'{DST}._submit', f'{DST}._submit_download_request', f'{DST}._submit_ranged_download_request',
    f'{DL}:IORenameFileTask._main', f'{DL}:IOCloseTask._main', f'{DL}:IOWriteTask._main',
    f'{UT}:OSUtils.remove_file', f'{UT}:OSUtils.rename_file',
    f'{TC}.add_failure_cleanup', f'{TC}._run_failure_cleanups', f'{TC}.announce_done', f'{TASK}.__call__',
    f'{UT}:CountCallbackInvoker.decrement', f'{UT}:CountCallbackInvoker.finalize',
]

from .b_legacy import LEGACY_C06
ROOTS = ROOTS + LEGACY_C06


def register(R):
    pass


MANIFEST = dict(
    category='proof',
    text=('For a path destination every open/write of the transfer targets the temp file (name = get_temp_filename of the '
          'destination, DeferredOpenFile in mode wb): proved on the real object graph built by the submission functions for '
          'single and ranged downloads; the only event that mentions the destination name is the single rename in the final '
          'IO task (close before rename), so between any two events -- at any crash point of these functions -- the '
          'destination is old or complete (given atomic os.rename); close and remove-temp are registered as failure '
          'cleanups before any task that can open the file is submitted, cleanups run on every non-success announce (C05/C08), '
          'a failing rename reaches Task.__call__ and fails the transfer (C03). The final IO task is submitted exactly once: '
          'as done-callback of the single GET task or by the count-to-zero invoker (monitor, C04).'
          ' Legacy ranged download returns normally only if both of its threads finished without an exception; OSUtils.allocate removes what it created on failure; the CountCallbackInvoker (which releases the final rename) is verified as a monitor.'
          ' Also: OSUtils.get_temp_filename (over symbolic strings: temp name != destination, same directory, whole random suffix, <= 255 characters), the legacy IO thread (each queued chunk written once at its offset, stops only on the sentinel, a failing write shuts the queue down).'),
    note=('os.rename atomicity and os.remove semantics are assumed (A-OS); that all queued writes ran before the final task '
          'rests on the single-thread FIFO IO executor (A-EXECUTOR); legacy S3Transfer.download_file, process pool and CRT '
          'handlers are covered under C19 / C20 / legacy contracts.'),
    technique='contract-based deductive verification: ghost event-trace contracts over file-system events',
)
LEVEL = 'proof'
TRUSTED = ['A-OS os.rename is atomic, os.remove removes', 'A-EXECUTOR']
ASSUMPTIONS = TRUSTED
EXPLANATION = 'temp-file discipline and single rename'
