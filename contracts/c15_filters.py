"""Shared contract shape of the whitelist filters written as an explicit loop
   out = {}; for key, value in src.items(): if key in allowed: out[key] = value; return out
(legacy MultipartUploader._extra_upload_part_args / _extra_args_for).  Same quantified loop invariant as
utils.get_filtered_dict (c15.py)."""
import z3

from pyvc.contracts import Any, LoopSpec, MapT

from .spec import b2z

EXTRA = MapT('Str', Any)
k_ = z3.String('k_')
j_ = z3.Int('j_')


def _view(st, v):
    from .c15 import map_view
    return map_view(st, v)


def filter_contract(R, qual, src_name, out_name, allowed_of, extra_params=None, optional=False):
    def mem(eng, st, allowed, k):
        return b2z(eng.contains(allowed, k, st, 0))

    def inv(l):
        eng, st = l.engine, l.st
        op, ov = _view(l.pre, l.local(src_name))
        fp, fv = _view(st, l.local(out_name))
        allowed = allowed_of(eng, st, l.local)
        e, pos, idx = l.ghost['enum'], l.ghost['pos'], l.index
        return {
            'filtered_entries_come_from_the_original_and_are_allowed': z3.ForAll([k_], z3.Implies(
                z3.Select(fp, k_), z3.And(z3.Select(op, k_), mem(eng, st, allowed, k_), z3.Select(fv, k_) == z3.Select(ov, k_), pos(k_) < idx))),
            'every_visited_allowed_key_is_kept': z3.ForAll([j_], z3.Implies(
                z3.And(j_ >= 0, j_ < idx, mem(eng, st, allowed, z3.Select(e, j_))), z3.Select(fp, z3.Select(e, j_)))),
        }

    def post(c):
        eng, st = c.engine, c.new.st
        op, ov = _view(c.old.st, getattr(c, 'a_' + src_name))
        rp, rv = _view(st, c.result)
        allowed = allowed_of(eng, st, lambda n: getattr(c, 'a_' + n))
        return {
            'keeps_exactly_the_allowed_keys': z3.ForAll([k_], z3.Select(rp, k_) == z3.And(z3.Select(op, k_), mem(eng, st, allowed, k_))),
            'values_forwarded_unmodified': z3.ForAll([k_], z3.Implies(z3.Select(rp, k_), z3.Select(rv, k_) == z3.Select(ov, k_))),
        }

    params = {src_name: EXTRA}
    params.update(extra_params or {})
    R.contract(qual, props=['C15'], params=params, optional=optional, ensures=post, raises={}, returns=EXTRA,
               loops={0: LoopSpec(invariant=inv, local_types={out_name: EXTRA})},
               twins=lambda c: {'keeps_everything': z3.ForAll([k_], z3.Select(_view(c.new.st, c.result)[0], k_) ==
                                                              z3.Select(_view(c.old.st, getattr(c, 'a_' + src_name))[0], k_))})
