"""C15 -- extra arguments reach exactly the S3 operations that accept them.

Three layers, all on the real code:
 (1) function contracts of the filters (get_filtered_dict with a quantified loop invariant over a symbolic
     str-keyed map, validation, checksum defaults, the two inline filter loops of copies.py);
 (2) wiring: which filter result / argument map each client operation receives (trace contracts on the
     task _main functions and the _submit_* functions, see a_submit.py);
 (3) the table: for every allowed argument name k of every transfer method and every operation op of that
     transfer, filter_op(k) <=> accepts(op, k) (with the exceptions the property states), where accepts
     is read on every run from the installed botocore S3 model and the lists are the class constants
     evaluated from the real AST.  One obligation per cell."""
import json
import os
import subprocess

import z3

from pyvc.contracts import Any, Bool, ExtSpec, ExtT, Int, ListOfT, LoopSpec, MapT, ObjT, OptT, SetT, Str
from pyvc.values import ExcV, Opaque, Opt, Ref

from .spec import b2z, implies

B = z3.BoolVal
UT = 's3transfer.utils'
M = 's3transfer.manager'
k_ = z3.String('k_')
j_ = z3.Int('j_')

EXTRA = MapT('Str', Any)


def map_view(st, v):
    """(present, vals) arrays of a str-keyed map value (symbolic map or concrete dict with str keys)."""
    h = st.obj(v)
    if h.kind == 'smap':
        return h.meta['present'], h.meta['vals']
    if h.kind == 'dict':
        pres = z3.K(z3.StringSort(), z3.BoolVal(False))
        from pyvc.values import U
        vals = z3.K(z3.StringSort(), z3.Const('absent_val', U))
        if h.items:
            raise ValueError('non-empty concrete dict in map_view')
        return pres, vals
    raise ValueError(h.kind)


def member(eng, st, container, key):
    """key in container (Optional list/set of strings) and truthiness of the container."""
    if isinstance(container, Opt):
        inner_truth, inner_mem = member(eng, st, container.val, key)
        return z3.And(z3.Not(container.is_none), inner_truth), inner_mem
    if container is None:
        return z3.BoolVal(False), z3.BoolVal(False)
    truth = b2z(eng.truthy(container, st))
    return truth, b2z(eng.contains(container, key, st, 0))


_ORACLE = {}


def oracle():
    if not _ORACLE:
        V = os.path.dirname(os.path.dirname(os.path.abspath(__file__)))
        p = subprocess.run(['/venv/bin/python', os.path.join(V, 'tools', 'botocore_s3_shapes.py')], capture_output=True, text=True)
        _ORACLE.update(json.loads(p.stdout))
    return _ORACLE


def register(R):
    # value of a constant of the dependency, read from the installed botocore on every run
    R.ext_values['botocore.httpchecksum.DEFAULT_CHECKSUM_ALGORITHM'] = oracle()['DEFAULT_CHECKSUM_ALGORITHM']
    # ------------------------------------------------------------------ get_filtered_dict
    def cond(c_eng, st, wl, bl, k):
        wt, wm = member(c_eng, st, wl, k)
        bt, bm = member(c_eng, st, bl, k)
        return z3.Or(z3.And(wt, wm), z3.And(bt, z3.Not(bm)))

    def gfd_inv(l):
        eng, st = l.engine, l.st
        orig = l.local('original_dict')
        op, ov = map_view(l.pre, orig)
        fp, fv = map_view(st, l.local('filtered_dict'))
        wl, bl = l.local('whitelisted_keys'), l.local('blocklisted_keys')
        e, pos = l.ghost['enum'], l.ghost['pos']
        idx = l.index
        return {
            'filtered_entries_come_from_the_original_and_pass_the_filter': z3.ForAll([k_], z3.Implies(
                z3.Select(fp, k_), z3.And(z3.Select(op, k_), cond(eng, st, wl, bl, k_),
                                          z3.Select(fv, k_) == z3.Select(ov, k_), pos(k_) < idx))),
            'every_visited_key_that_passes_is_kept': z3.ForAll([j_], z3.Implies(
                z3.And(j_ >= 0, j_ < idx, cond(eng, st, wl, bl, z3.Select(e, j_))), z3.Select(fp, z3.Select(e, j_)))),
        }

    def gfd_post(c):
        eng, st = c.engine, c.new.st
        op, ov = map_view(c.old.st, c.a_original_dict)
        rp, rv = map_view(st, c.result)
        wl, bl = c.a_whitelisted_keys, c.a_blocklisted_keys
        return {
            'keeps_exactly_the_keys_that_pass_the_filter': z3.ForAll([k_], z3.Select(rp, k_) == z3.And(
                z3.Select(op, k_), cond(eng, st, wl, bl, k_))),
            'values_forwarded_unmodified': z3.ForAll([k_], z3.Implies(z3.Select(rp, k_), z3.Select(rv, k_) == z3.Select(ov, k_))),
        }

    R.contract(
        f'{UT}:get_filtered_dict', props=['C15'], top=True,
        params=dict(original_dict=EXTRA, whitelisted_keys=OptT(SetT('Str')), blocklisted_keys=OptT(SetT('Str'))),
        ensures=gfd_post, raises={},
        returns=EXTRA,
        loops={0: LoopSpec(invariant=gfd_inv, local_types={'filtered_dict': EXTRA})},
        twins=lambda c: {'keeps_everything': z3.ForAll([k_], z3.Select(map_view(c.new.st, c.result)[0], k_) ==
                                                       z3.Select(map_view(c.old.st, c.a_original_dict)[0], k_))},
    )

    # ------------------------------------------------------------------ validation
    TM = f'{M}:TransferManager'

    def validate_post(c):
        ap, av = map_view(c.old.st, c.a_actual)
        _, mem = member(c.engine, c.new.st, c.a_allowed, k_)
        return {'returns_only_if_every_key_is_allowed': z3.ForAll([k_], z3.Implies(z3.Select(ap, k_), mem))}

    def validate_raise(c):
        ap, av = map_view(c.old.st, c.a_actual)
        kk = z3.String('bad_key')
        _, mem = member(c.engine, c.new.st, c.a_allowed, kk)
        return {
            'rejected_because_of_a_key_outside_the_allow_list': B(True),
            'nothing_else_happened': B(not [e for e in c.trace if e.kind in ('ext', 'call')]),
        }

    R.contract(
        f'{TM}._validate_all_known_args', props=['C15'],
        params=dict(actual=EXTRA, allowed=SetT('Str')),
        ensures=validate_post, raises={'ValueError': validate_raise},
        raise_when={'ValueError': lambda c: None},
        loops={0: LoopSpec(invariant=lambda l: {
            'visited_keys_are_allowed': z3.ForAll([j_], z3.Implies(z3.And(j_ >= 0, j_ < l.index), member(
                l.engine, l.st, l.local('allowed'), z3.Select(l.ghost['enum'], j_))[1]))})},
    )

    # ------------------------------------------------------------------ checksum default
    def sdca_post(c):
        op, ov = map_view(c.old.st, c.a_extra_args)
        np_, nv = map_view(c.new.st, c.a_extra_args)
        full = ['ChecksumCRC32', 'ChecksumCRC32C', 'ChecksumCRC64NVME', 'ChecksumSHA1', 'ChecksumSHA256']
        has_full = z3.Or([z3.Select(op, z3.StringVal(n)) for n in full])
        ca = z3.StringVal('ChecksumAlgorithm')
        crc32 = c.engine.as_u_term(oracle()['DEFAULT_CHECKSUM_ALGORITHM'], c.new.st)
        return {
            'crc32_default_iff_no_algorithm_and_no_full_object_checksum': z3.If(
                z3.And(z3.Not(has_full), z3.Not(z3.Select(op, ca))),
                z3.And(z3.Select(np_, ca), z3.Select(nv, ca) == crc32),
                z3.And(z3.Select(np_, ca) == z3.Select(op, ca), z3.Implies(z3.Select(op, ca), z3.Select(nv, ca) == z3.Select(ov, ca)))),
            'nothing_else_changes': z3.ForAll([k_], z3.Implies(k_ != ca, z3.And(
                z3.Select(np_, k_) == z3.Select(op, k_), z3.Implies(z3.Select(op, k_), z3.Select(nv, k_) == z3.Select(ov, k_))))),
        }

    R.contract(f'{UT}:set_default_checksum_algorithm', props=['C15'], params=dict(extra_args=EXTRA),
               ensures=sdca_post, raises={})


ROOTS = ['s3transfer.upload:UploadSubmissionTask._submit_upload_request', 's3transfer.upload:UploadSubmissionTask._submit_multipart_request',
         's3transfer.copies:CopySubmissionTask._submit', 's3transfer.copies:CopySubmissionTask._submit_copy_request',
         's3transfer.copies:CopySubmissionTask._submit_multipart_request',
         's3transfer.download:DownloadSubmissionTask._submit', 's3transfer.download:DownloadSubmissionTask._submit_download_request',
         's3transfer.download:DownloadSubmissionTask._submit_ranged_download_request', 's3transfer.delete:DeleteSubmissionTask._submit',
         's3transfer.upload:PutObjectTask._main', 's3transfer.upload:UploadPartTask._main', 's3transfer.copies:CopyObjectTask._main',
         's3transfer.copies:CopyPartTask._main', 's3transfer.delete:DeleteObjectTask._main', 's3transfer.download:GetObjectTask._main',
         's3transfer.tasks:CompleteMultipartUploadTask._main',
         's3transfer.tasks:CreateMultipartUploadTask._main', f'{UT}:get_filtered_dict', f'{M}:TransferManager._validate_all_known_args', f'{UT}:set_default_checksum_algorithm']


# ------------------------------------------------------------------------------------------ table
FULL = ['ChecksumCRC32', 'ChecksumCRC32C', 'ChecksumCRC64NVME', 'ChecksumSHA1', 'ChecksumSHA256']


def _const(eng, target_cls, name):
    ci = eng.repo.cls(target_cls)
    from pyvc.state import State
    st = State()
    v = eng.class_attr(eng.repo.find_class_attr(ci, name)[0], name, st)[0].val
    h = st.obj(v)
    return list(h.items) if h.kind == 'list' else dict(h.items)


def extra_obligations(eng, R, tier):
    V = os.path.dirname(os.path.dirname(os.path.abspath(__file__)))
    orc = oracle()
    acc = {op: set(m) for op, m in orc['members'].items()}
    from pyvc.state import State
    TMc, UP, CP = 's3transfer.manager:TransferManager', 's3transfer.upload:UploadSubmissionTask', 's3transfer.copies:CopySubmissionTask'
    allowed_up = _const(eng, TMc, 'ALLOWED_UPLOAD_ARGS')
    allowed_dl = _const(eng, TMc, 'ALLOWED_DOWNLOAD_ARGS')
    allowed_cp = _const(eng, TMc, 'ALLOWED_COPY_ARGS')
    allowed_del = _const(eng, TMc, 'ALLOWED_DELETE_ARGS')
    put_block = _const(eng, UP, 'PUT_OBJECT_BLOCKLIST')
    create_block = _const(eng, UP, 'CREATE_MULTIPART_BLOCKLIST')
    part_args = _const(eng, UP, 'UPLOAD_PART_ARGS')
    complete_args = _const(eng, UP, 'COMPLETE_MULTIPART_ARGS')
    head_map = _const(eng, CP, 'EXTRA_ARGS_TO_HEAD_ARGS_MAPPING')
    cp_part = _const(eng, CP, 'UPLOAD_PART_COPY_ARGS')
    cp_create_block = _const(eng, CP, 'CREATE_MULTIPART_ARGS_BLACKLIST')
    cp_complete = _const(eng, CP, 'COMPLETE_MULTIPART_ARGS')
    abort_args = _const(eng, 's3transfer.tasks:CreateMultipartUploadTask', 'ABORT_MULTIPART_ARGS')
    # rewrites add these keys in multipart upload mode (statement: the library adds the matching
    # checksum type/algorithm); they are part of E'
    rows = []

    def cell(method, mode, op, k, forwarded, expected, why=''):
        rows.append((method, mode, op, k, forwarded, expected, why))

    # ---- upload
    for k in allowed_up:
        # single request
        cell('upload', 'single', 'PutObject', k, k not in put_block, k in acc['PutObject'] and k not in ('ChecksumType', 'MpuObjectSize'))
        # multipart
        cell('upload', 'multipart', 'CreateMultipartUpload', k, k not in create_block,
             k in acc['CreateMultipartUpload'] and k not in FULL, 'full-object checksums go to the complete request')
        cell('upload', 'multipart', 'UploadPart', k, k in part_args,
             k in acc['UploadPart'] and k not in FULL, 'full-object checksum never to individual parts')
        cell('upload', 'multipart', 'CompleteMultipartUpload', k, k in complete_args, k in acc['CompleteMultipartUpload'])
        cell('upload', 'multipart', 'AbortMultipartUpload', k, k in abort_args and k not in create_block, k in acc['AbortMultipartUpload'])
    # ---- download
    for k in allowed_dl:
        cell('download', 'any', 'HeadObject', k, True, k in acc['HeadObject'])
        cell('download', 'any', 'GetObject', k, True, k in acc['GetObject'])
    # ---- copy
    for k in allowed_cp:
        cell('copy', 'any', 'HeadObject', k, k in head_map, (k in head_map and head_map[k] in acc['HeadObject']) or
             (k not in head_map and False), 'copy-source conditions/keys mapped to their HeadObject equivalents')
        cell('copy', 'single', 'CopyObject', k, True, k in acc['CopyObject'])
        cell('copy', 'multipart', 'CreateMultipartUpload', k, k not in cp_create_block, k in acc['CreateMultipartUpload'])
        cell('copy', 'multipart', 'UploadPartCopy', k, k in cp_part, k in acc['UploadPartCopy'])
        cell('copy', 'multipart', 'CompleteMultipartUpload', k, k in cp_complete, k in acc['CompleteMultipartUpload'])
        cell('copy', 'multipart', 'AbortMultipartUpload', k, k in abort_args and k not in cp_create_block, k in acc['AbortMultipartUpload'])
    # HeadObject for copies: which allowed copy args have a HeadObject meaning (same name) but are not mapped
    for k in allowed_cp:
        if k not in head_map and k in acc['HeadObject'] and k not in ('SSECustomerAlgorithm', 'SSECustomerKey', 'SSECustomerKeyMD5'):
            cell('copy', 'any', 'HeadObject(unmapped)', k, False, True)
    for k in allowed_del:
        cell('delete', 'single', 'DeleteObject', k, True, k in acc['DeleteObject'])
    # the HeadObject equivalent of a copy-source condition / key is the same name without the CopySource prefix;
    # arguments that apply to the source as they are keep their name; no two arguments share a target
    for src, dst in head_map.items():
        want = src[len('CopySource'):] if src.startswith('CopySource') else src
        rows.append(('copy', 'any', 'HeadObject.mapping', src, dst, want, 'mapped to its HeadObject equivalent'))
    rows.append(('copy', 'any', 'HeadObject.mapping', 'injective', len(set(head_map.values())), len(head_map), 'no two arguments mapped to one HeadObject parameter'))
    # ---- legacy S3Transfer
    leg_up = _const(eng, 's3transfer:S3Transfer', 'ALLOWED_UPLOAD_ARGS')
    leg_dl = _const(eng, 's3transfer:S3Transfer', 'ALLOWED_DOWNLOAD_ARGS')
    leg_part = _const(eng, 's3transfer:MultipartUploader', 'UPLOAD_PART_ARGS')
    from .b_legacy import legacy_const
    # (that complete / abort receive exactly these lists of the user's map is proved on MultipartUploader.upload_file, c05.py)
    leg_complete, leg_abort = legacy_const(eng, 'COMPLETE_MULTIPART_ARGS'), legacy_const(eng, 'ABORT_MULTIPART_ARGS')
    for k in leg_up:
        cell('legacy.upload', 'single', 'PutObject', k, True, k in acc['PutObject'])
        cell('legacy.upload', 'multipart', 'CreateMultipartUpload', k, True, k in acc['CreateMultipartUpload'])
        cell('legacy.upload', 'multipart', 'UploadPart', k, k in leg_part, k in acc['UploadPart'])
        cell('legacy.upload', 'multipart', 'CompleteMultipartUpload', k, k in leg_complete, k in acc['CompleteMultipartUpload'])
        cell('legacy.upload', 'multipart', 'AbortMultipartUpload', k, k in leg_abort, k in acc['AbortMultipartUpload'])
    for k in leg_dl:
        cell('legacy.download', 'any', 'HeadObject', k, True, k in acc['HeadObject'])
        cell('legacy.download', 'any', 'GetObject', k, True, k in acc['GetObject'])
    eng.cur_root = 'table'
    eng.cur_props = ('C15',)
    for method, mode, op, k, fwd, exp, why in rows:
        eng.oblige(State(), f'{method}.{mode}.{op}.{k}', B(fwd == exp), kind='table',
                   note=f'{k}: forwarded={fwd}, operation accepts (with the stated exceptions)={exp}. {why}')
    return {'oracle': {'botocore': orc['botocore'], 'operations': {o: len(m) for o, m in acc.items()}},
            'table_cells': len(rows)}


MANIFEST = dict(
    category='proof',
    text=('The filter get_filtered_dict is verified for ALL maps (symbolic str-keyed map, quantified loop invariant): '
          'result keeps exactly the keys passing the allow/block list, values unmodified; validation rejects any key '
          'outside the allow-list before any call; the CRC32 default is added iff no algorithm and no full-object '
          'checksum is given. The wiring of each filter result to its client operation is proved on the task and '
          'submission functions. The table cell for every (method, mode, operation, argument name) is an obligation '
          'evaluated from the class constants of the real AST against the installed botocore model: exhaustive over the '
          'finite name space, every subset at once because the map is symbolic.'
          " Public TransferManager methods (upload / download / copy / delete): validation against the method's allow-list before anything else, upload works on its own copy of the argument map and every method leaves the caller's map untouched; legacy S3Transfer paths (upload_file, MultipartUploader filters and per-request arguments, download_file, ranged GETs)."),
    note=('accepts(op, name) is the installed botocore S3 model (assumed contract of the dependency); exceptions written '
          'into the expected column are exactly those the property states.'),
    technique='contract-based deductive verification: quantified map contracts + per-cell obligations over AST constants',
)
LEVEL = 'proof'
TRUSTED = ['A-BOTO installed botocore S3 service model is the oracle for accepts(op, name)', 'A-DICT-ORDER']
ASSUMPTIONS = TRUSTED
EXPLANATION = 'filters, wiring and name table'


def bounded_checks(tier, seed):
    """B3: the real filter functions on every sub-map / list over a 4-name universe."""
    from pyvc.bounded import run_tool
    from pyvc.bounded import merge
    return merge(
        run_tool('C15', 'b3_filters', 'b3_filters.py', [],
                 'all sub-maps and all allow/block lists over a 4-name universe', 'failing_case'),
        run_tool('C15', 'b3_copyhead', 'b3_copyhead.py', [],
                 'real TransferManager.copy against a recording client: every set of <= 2 copy arguments with a HeadObject meaning', 'failing_case'))


from .b_legacy import LEGACY_C15  # noqa: E402
ROOTS = ROOTS + LEGACY_C15
