"""Public entry points of TransferManager: upload / download / copy / delete (referenced by C15, C18, C08).

Each validates the user's arguments before anything else, records them in a CallArgs and submits exactly one transfer.
upload() additionally owns the only place where the library WRITES into an argument map (checksum default, later the
multipart checksum rewrite): it must work on its own copy, so that the caller's dict is left untouched and two
transfers started from one dict cannot influence each other."""
import z3

from pyvc.contracts import Any, Bool, Const, ExtSpec, ExtT, Int, ListOfT, LoopSpec, MapT, ObjT, OptT, Str
from pyvc.values import ClassRef, Opaque, Opt, Ref

from .a_tasks import calls, exts, flat, index_of, trivial_loop, only_propagates

B = z3.BoolVal
MG, UT = 's3transfer.manager', 's3transfer.utils'
TM = f'{MG}:TransferManager'
EXTRA = MapT('Str', Any)
k_ = z3.String('k_api')


def mapv(st, v):
    from .c15 import map_view
    return map_view(st, v)


def register(R):
    R.contract(f'{TM}._validate_if_bucket_supported', params=dict(bucket=Any), raise_when={'ValueError': lambda c: None}, events=True)
    R.contract(f'{TM}._add_operation_defaults', params=dict(extra_args=EXTRA), inline=True)
    R.mark_inline(f'{UT}:CallArgs.__init__')
    R.external('client', **{'.meta': ExtSpec(returns=ExtT('client_meta'), pure=True)})
    R.external('client_meta', **{'.config': ExtSpec(returns=ExtT('client_config'), pure=True)})
    R.external('client_config', **{'.request_checksum_calculation': ExtSpec(returns=Str, pure=True)})

    SUBS = OptT(ListOfT(ExtT('subscriber'), name='subscribers'))

    def common(c, allowed_name, task_cls, with_limiter):
        tr = c.trace
        val = calls(tr, 'TransferManager._validate_all_known_args')
        sub = calls(tr, 'TransferManager._submit_transfer')
        first_effect = min([index_of(tr, e) for e in tr if e.kind in ('ext',) or (e.kind == 'call' and e.name.endswith('_submit_transfer'))] or [10 ** 9])
        out = {
            'arguments_validated_against_the_methods_allow_list_first': (B(
                len(val) >= 1 and index_of(tr, val[0]) < first_effect
                and c.engine.same_const_list(val[0].extra['env']['allowed'], TM, allowed_name, c.new.st)), ['C15']),
            'exactly_one_transfer_submitted': (B(len(sub) == 1), ['C18', 'C08']),
        }
        if len(sub) == 1:
            env = sub[0].extra['env']
            ca = env['call_args']
            h = c.new.obj(ca) if isinstance(ca, Ref) else None
            cls = env['submission_task_cls']
            out['submission_task_class_matches_the_method'] = (B(isinstance(cls, ClassRef) and cls.cinfo.name == task_cls), ['C18'])
            if with_limiter:
                # C13: the manager's shared bandwidth limiter (when max_bandwidth is set) is handed to the transfer
                lim = c.oldf('_bandwidth_limiter')
                xk = env.get('extra_main_kwargs')
                items = c.new.obj(xk).items if isinstance(xk, Ref) and c.new.obj(xk).kind == 'dict' else None
                base = {'io_executor': c.oldf('_io_executor')} if task_cls == 'DownloadSubmissionTask' else {}    # downloads also get the IO executor
                base_ok = items is not None and all(k in items and items[k] is v for k, v in base.items())
                has = base_ok and set(items) == set(base) | {'bandwidth_limiter'} and (
                    items['bandwidth_limiter'] is lim or (isinstance(lim, Opt) and items['bandwidth_limiter'] is lim.val))
                none = base_ok and set(items) == set(base)
                out['shared_bandwidth_limiter_handed_to_the_transfer_iff_configured'] = (
                    z3.If(lim.is_none, B(bool(none)), B(bool(has))) if isinstance(lim, Opt) else B(bool(has)), ['C13', 'C18'])
            if h is not None:
                f = h.fields
                us = c.a_subscribers
                sv = f.get('subscribers')
                sv = sv.val if isinstance(sv, Opt) else sv
                if isinstance(us, Opt):
                    # C08: the subscribers given by the user are the ones recorded (none given: a fresh empty list)
                    fresh_empty = isinstance(sv, Ref) and sv.oid not in c.old.st.heap and c.new.obj(sv).kind == 'list' and not c.new.obj(sv).items
                    out['subscribers_recorded_as_given'] = (z3.If(us.is_none, B(bool(fresh_empty)), B(sv is us.val)), ['C08'])
                out['call_args_record_the_users_bucket_and_key'] = (B(f.get('bucket') is c.a_bucket and f.get('key') is c.a_key), ['C15', 'C18'])
                out['returns_the_future_of_the_submitted_transfer'] = (B(c.result is sub[0].result), ['C18'])
        return out, sub

    def same_map(st0, m0, st1, m1):
        p0, v0 = mapv(st0, m0)
        p1, v1 = mapv(st1, m1)
        return z3.ForAll([k_], z3.And(z3.Select(p0, k_) == z3.Select(p1, k_), z3.Implies(z3.Select(p0, k_), z3.Select(v0, k_) == z3.Select(v1, k_))))

    # ------------------------------------------------------------------ upload
    def upload_checks(c):
        out, sub = common(c, 'ALLOWED_UPLOAD_ARGS', 'UploadSubmissionTask', True)
        ua = c.a_extra_args
        if len(sub) == 1:
            h = c.new.obj(sub[0].extra['env']['call_args'])
            ea = h.fields.get('extra_args')
            user = ua.val if isinstance(ua, Opt) else ua
            out['transfer_works_on_its_own_copy_of_the_argument_map'] = (B(isinstance(ea, Ref) and not (isinstance(user, Ref) and ea.oid == user.oid)), ['C15', 'C18'])
            out['fileobj_recorded'] = (B(h.fields.get('fileobj') is c.a_fileobj), ['C01', 'C15'])
        # CRC32 is the default algorithm exactly when the client asks for checksums ('when_supported')
        sd = calls(c.trace, 'set_default_checksum_algorithm')
        mode = [e for e in c.trace if e.kind == 'ext' and e.name == 'client_config..request_checksum_calculation']
        rc = z3.String('request_checksum_calculation')
        if len(sub) == 1:
            out['crc32_default_applied_iff_the_client_asks_for_checksums'] = (
                z3.If(rc == z3.StringVal('when_supported'), B(len(sd) == 1), B(len(sd) == 0)), ['C15'])
        if isinstance(ua, Opt) and isinstance(ua.val, Ref):
            out['callers_argument_map_is_left_untouched'] = (z3.Implies(z3.Not(ua.is_none), same_map(c.old.st, ua.val, c.new.st, ua.val)), ['C15', 'C18'])
        return out

    R.contract(
        f'{TM}.upload', props=['C15', 'C18', 'C08', 'C01', 'C13'],
        params=dict(fileobj=ExtT('fileobj_or_name'), bucket=ExtT('str'), key=ExtT('str'), extra_args=OptT(EXTRA), subscribers=SUBS),
        checks=upload_checks, raises={'Exception': lambda c: {
            'callers_argument_map_is_left_untouched': (z3.Implies(z3.Not(c.a_extra_args.is_none), same_map(c.old.st, c.a_extra_args.val, c.new.st, c.a_extra_args.val))
                                                       if isinstance(c.a_extra_args, Opt) and isinstance(c.a_extra_args.val, Ref) else B(True))}},
        top_level=True,
    )

    # ------------------------------------------------------------------ download / delete / copy: the map is passed on as it is
    def passes_map(c, sub):
        ua = c.a_extra_args
        out = {}
        if len(sub) == 1 and isinstance(ua, Opt) and isinstance(ua.val, Ref):
            h = c.new.obj(sub[0].extra['env']['call_args'])
            ea = h.fields.get('extra_args')
            ea = ea.val if isinstance(ea, Opt) else ea
            out['the_users_arguments_are_recorded_unmodified'] = (z3.Implies(z3.Not(ua.is_none), B(isinstance(ea, Ref)) if not isinstance(ea, Ref) else
                                                                             same_map(c.old.st, ua.val, c.new.st, ea)), ['C15'])
            out['callers_argument_map_is_left_untouched'] = (z3.Implies(z3.Not(ua.is_none), same_map(c.old.st, ua.val, c.new.st, ua.val)), ['C15', 'C18'])
        return out

    def download_checks(c):
        out, sub = common(c, 'ALLOWED_DOWNLOAD_ARGS', 'DownloadSubmissionTask', True)
        out.update(passes_map(c, sub))
        if len(sub) == 1:
            out['fileobj_recorded'] = (B(c.new.obj(sub[0].extra['env']['call_args']).fields.get('fileobj') is c.a_fileobj), ['C02', 'C15'])
        return out

    R.contract(
        f'{TM}.download', props=['C15', 'C18', 'C08', 'C02', 'C13'],
        params=dict(bucket=ExtT('str'), key=ExtT('str'), fileobj=ExtT('fileobj_or_name'), extra_args=OptT(EXTRA), subscribers=SUBS),
        checks=download_checks, raises={'Exception': only_propagates}, top_level=True,
    )

    def delete_checks(c):
        out, sub = common(c, 'ALLOWED_DELETE_ARGS', 'DeleteSubmissionTask', False)
        out.update(passes_map(c, sub))
        return out

    R.contract(
        f'{TM}.delete', props=['C15', 'C18', 'C08'],
        params=dict(bucket=ExtT('str'), key=ExtT('str'), extra_args=OptT(EXTRA), subscribers=SUBS),
        checks=delete_checks, raises={'Exception': only_propagates}, top_level=True,
    )


    def copy_checks(c):
        out, sub = common(c, 'ALLOWED_COPY_ARGS', 'CopySubmissionTask', False)
        out.update(passes_map(c, sub))
        if len(sub) == 1:
            h = c.new.obj(sub[0].extra['env']['call_args'])
            sc = h.fields.get('source_client')
            user = c.a_source_client
            out['copy_source_recorded'] = (B(h.fields.get('copy_source') is c.a_copy_source), ['C01', 'C15'])
            # the size of the source is discovered with the source client the user gave, else with the manager's own
            if isinstance(user, Opt):
                out['source_client_is_the_users_or_the_managers_own'] = (z3.If(user.is_none, B(sc is c.oldf('_client')), B(sc is user.val or sc is user)), ['C15', 'C01'])
        return out

    R.contract(
        f'{TM}.copy', props=['C15', 'C18', 'C08', 'C01'],
        params=dict(copy_source=ExtT('copy_source'), bucket=ExtT('str'), key=ExtT('str'), extra_args=OptT(EXTRA), subscribers=SUBS,
                    source_client=OptT(ExtT('client'))),
        checks=copy_checks, raises={'Exception': only_propagates}, top_level=True,
    )
    R.external('copy_source', get=ExtSpec(returns=ExtT('str'), pure=True))
