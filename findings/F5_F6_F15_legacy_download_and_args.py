"""Legacy S3Transfer findings. Exit 1 = at least one reproduced on the tree in sys.argv[1] (default /repo).
F5 (C15, C02): the ranged legacy download dropped extra_args: GetObject of every part lacked VersionId/SSE-C/RequestPayer.
F6 (C15): ALLOWED_UPLOAD_ARGS contained 'GrantWriteACL', which no S3 operation accepts ('GrantWriteACP' is meant).
F15 (C06): when the final rename of S3Transfer.download_file failed, the temporary file was left behind."""
import os, sys, tempfile
sys.path.insert(0, sys.argv[1] if len(sys.argv) > 1 else '/repo')
import botocore.session
from s3transfer import S3Transfer, TransferConfig, OSUtils
bad = []
# ---- F5
calls = []
class Body:
    def __init__(self, d): self.d = d; self.p = 0
    def read(self, n=-1):
        c = self.d[self.p:] if n is None or n < 0 else self.d[self.p:self.p + n]; self.p += len(c); return c
class Events:
    def register(self, *a, **k): pass
    def register_first(self, *a, **k): pass
    def register_last(self, *a, **k): pass
class Meta: events = Events()
DATA = bytes(range(40))
class Client:
    meta = Meta()
    def head_object(self, **kw): calls.append(('head', kw)); return {'ContentLength': len(DATA)}
    def get_object(self, **kw):
        calls.append(('get', kw))
        r = kw.get('Range')
        if r:
            lo, hi = r.split('=')[1].split('-'); lo = int(lo); hi = int(hi) + 1 if hi else len(DATA)
            return {'Body': Body(DATA[lo:hi])}
        return {'Body': Body(DATA)}
d = tempfile.mkdtemp()
dst = os.path.join(d, 'out')
S3Transfer(Client(), TransferConfig(multipart_threshold=10, multipart_chunksize=16)).download_file('b', 'k', dst, extra_args={'VersionId': 'v7', 'RequestPayer': 'requester'})
gets = [kw for n, kw in calls if n == 'get']
if not all(kw.get('VersionId') == 'v7' and kw.get('RequestPayer') == 'requester' for kw in gets):
    bad.append('F5'); print('F5 REPRODUCED: ranged GetObject calls lack the extra args:', gets)
os.remove(dst)
# ---- F6
model = botocore.session.get_session().get_service_model('s3')
ops = [set(model.operation_model(o).input_shape.members) for o in ('PutObject', 'CreateMultipartUpload')]
unknown = [a for a in S3Transfer.ALLOWED_UPLOAD_ARGS if not any(a in m for m in ops)]
if unknown:
    bad.append('F6'); print('F6 REPRODUCED: allowed upload args unknown to PutObject and CreateMultipartUpload:', unknown)
# ---- F15
class FailingRename(OSUtils):
    def rename_file(self, a, b): raise OSError('rename failed')
calls.clear()
try:
    S3Transfer(Client(), TransferConfig(multipart_threshold=1000), FailingRename()).download_file('b', 'k', dst)
except OSError:
    pass
left = os.listdir(d)
if left:
    bad.append('F15'); print('F15 REPRODUCED: temporary file left after a failed rename:', left)
    for f in left: os.remove(os.path.join(d, f))
os.rmdir(d)
print('HELD' if not bad else 'REPRODUCED: ' + ','.join(bad))
sys.exit(1 if bad else 0)
