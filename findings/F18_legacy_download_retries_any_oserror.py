"""F18 (C03, open): the legacy downloaders (MultipartDownloader._download_range, S3Transfer._get_object) retry on ANY
OSError -- `except (socket.timeout, OSError, ...)` (py2's socket.error, widened by the py3 alias) -- so a
non-stream failure of a step (here: the user's progress callback raising a file-system style OSError once) is
swallowed and retried, and download_file() returns normally although a step of the transfer raised.
Pinned by existing tests (tests/unit/test_s3transfer.py uses OSError("fake error") as THE retryable stream error),
so it cannot be narrowed to ConnectionError without editing them.
Exit 1 = reproduced on the tree in sys.argv[1] (default /repo)."""
import io, os, sys, tempfile
sys.path.insert(0, sys.argv[1] if len(sys.argv) > 1 else '/repo')
from s3transfer import S3Transfer, TransferConfig

DATA = bytes(range(256)) * 64          # 16 KiB
calls = []


class _Events:
    def register(self, *a, **k): pass


class _Meta:
    events = _Events()


class Client:
    meta = _Meta()

    def head_object(self, **kw):
        return {'ContentLength': len(DATA)}

    def get_object(self, **kw):
        calls.append(kw.get('Range'))
        lo, hi = 0, len(DATA) - 1
        if kw.get('Range'):
            a, b = kw['Range'][len('bytes='):].split('-')
            lo, hi = int(a), (int(b) if b else len(DATA) - 1)
        return {'Body': io.BytesIO(DATA[lo:hi + 1])}


def run(threshold):
    del calls[:]
    state = {'raised': False}

    def cb(n):
        if not state['raised']:
            state['raised'] = True
            raise FileNotFoundError(2, 'user callback failed (not a stream error)')
    d = tempfile.mkdtemp()
    fn = os.path.join(d, 'out')
    t = S3Transfer(Client(), TransferConfig(multipart_threshold=threshold, multipart_chunksize=len(DATA), max_concurrency=1))
    try:
        t.download_file('b', 'k', fn, callback=cb)
        outcome = 'returned normally'
    except BaseException as e:
        outcome = f'raised {type(e).__name__}'
    for f in os.listdir(d):
        os.remove(os.path.join(d, f))
    os.rmdir(d)
    return outcome, len(calls)


bad = False
for name, thr in (('ranged (_download_range)', 1), ('single (_get_object)', 10 ** 9)):
    outcome, n = run(thr)
    print(f'{name}: callback raised FileNotFoundError once -> download_file {outcome}, {n} GetObject request(s)')
    if outcome == 'returned normally' or n > 1:
        bad = True
print('REPRODUCED: a non-stream OSError of a step was retried / swallowed' if bad else 'HELD')
sys.exit(1 if bad else 0)
