"""Observation O1 (NOT a listed-property violation, NOT in known_findings.json).

crt.RenameTempFileHandler.__call__ reports a failing rename with `coordinator.set_exception(e)` (no override), and
CRTTransferCoordinator.set_exception records only `if not self.done() or override`.  The comment at the call site says
"the CRT future has done already at this point": if that is so (awscrt completes `finished_future` before it invokes
on_done -- awscrt is not installed here, so this ordering cannot be checked), the exception is dropped and result()
returns normally although the destination was never published (the temp file is removed, as C20 requires).

Run with /venv/bin/python: awscrt is stubbed just enough for `import s3transfer.crt` to succeed.
exit 1 = the rename failure was dropped (observation reproduced), exit 0 = result() raised it."""
import sys, types, concurrent.futures
repo = sys.argv[1] if len(sys.argv) > 1 else '/repo'
sys.path.insert(0, repo)


class _Any(types.ModuleType):
    def __getattr__(self, name):
        if name.startswith('__'):
            raise AttributeError(name)
        return type(name, (), {})


import botocore.session  # noqa: E402  (imported BEFORE the stub exists, so botocore itself stays on its non-CRT paths)
for m in ('awscrt', 'awscrt.auth', 'awscrt.http', 'awscrt.io', 'awscrt.s3', 'awscrt.exceptions'):
    sys.modules[m] = _Any(m)
sys.modules['awscrt'].__version__ = '0.19.18'
import s3transfer.crt as crt


class OS:
    def __init__(self):
        self.removed = []

    def rename_file(self, a, b):
        raise OSError('rename failed')

    def remove_file(self, f):
        self.removed.append(f)


coord = crt.CRTTransferCoordinator()
fut = concurrent.futures.Future()
coord._crt_future = fut
fut.set_result(None)                       # awscrt: finished_future completes, then on_done runs
osu = OS()
crt.RenameTempFileHandler(coord, 'dest', 'dest.tmp', osu)(error=None)
try:
    coord.result()
except OSError as e:
    print('result() raised', repr(e)); sys.exit(0)
print('temp removed:', osu.removed, '-- result() returned normally after a failed rename'); sys.exit(1)
