"""F4 (C13): a throttled read whose transfer failed/was cancelled while it waited left its share in the
scheduler's total wait forever, so every later throttled read was told to wait longer than the reads
actually waiting plus its own.  Exit 1 = defect reproduced on the tree in sys.argv[1] (default /repo)."""
import io, sys
sys.path.insert(0, sys.argv[1] if len(sys.argv) > 1 else '/repo')
from s3transfer.bandwidth import BandwidthLimitedStream, LeakyBucket, RequestExceededException, RequestToken
from s3transfer.futures import TransferCoordinator

class Clock:
    def __init__(self): self.now = 0.0; self.slept = []
    def time(self): self.now += 0.001; return self.now
    def sleep(self, v): self.slept.append(v); self.now += v
clock = Clock()
bucket = LeakyBucket(1000, time_utils=clock)            # 1000 B/s
bucket.consume(1, RequestToken())                        # starts the rate tracker
coord = TransferCoordinator()
class FailWhileWaiting(Clock):                            # the transfer fails while this stream sleeps
    def sleep(self, v): coord.set_exception(RuntimeError('transfer failed')); clock.sleep(v)
    def time(self): return clock.time()
s = BandwidthLimitedStream(io.BytesIO(b'x' * 50000), bucket, coord, FailWhileWaiting(), bytes_threshold=1)
try:
    s.read(50000)
except RuntimeError as e:
    print('abandoned stream raised:', e)
left = bucket._consumption_scheduler._total_wait
print('total wait left in scheduler with no waiter:', left)
clock.now += 1000                                         # long idle time: nobody is waiting
try:
    bucket.consume(1000, RequestToken()); told = 0.0
except RequestExceededException as e:
    told = e.retry_time
clock.now += 0.0001
try:
    bucket.consume(1000, RequestToken()); told = 0.0
except RequestExceededException as e:
    told = e.retry_time
print('lone 1000-byte read at 1000 B/s told to wait', told, 's (own share is 1.0 s)')
ok = left == 0 and told <= 1.0 + 1e-9
print('HELD' if ok else 'REPRODUCED: abandoned waiter share stays in the scheduler')
sys.exit(0 if ok else 1)
