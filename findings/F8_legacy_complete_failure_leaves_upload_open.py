"""F8 (C05): legacy MultipartUploader.upload_file -- a failing complete_multipart_upload left the
upload open (no abort).  Exit 1 = defect reproduced on the tree in sys.argv[1] (default /repo)."""
import os, sys, tempfile
sys.path.insert(0, sys.argv[1] if len(sys.argv) > 1 else '/repo')
from s3transfer import MultipartUploader, OSUtils, TransferConfig

log = []
class Client:
    def create_multipart_upload(self, **kw): log.append('create'); return {'UploadId': 'U1'}
    def upload_part(self, **kw): log.append('part'); kw['Body'].read(); return {'ETag': 'e%d' % kw['PartNumber']}
    def complete_multipart_upload(self, **kw): log.append('complete'); raise RuntimeError('complete failed')
    def abort_multipart_upload(self, **kw): log.append('abort:' + kw['UploadId'])

d = tempfile.mkdtemp()
fn = os.path.join(d, 'f'); open(fn, 'wb').write(b'x' * 30)
cfg = TransferConfig(multipart_threshold=10, multipart_chunksize=10, max_concurrency=1)
raised = None
try:
    MultipartUploader(Client(), cfg, OSUtils()).upload_file(fn, 'b', 'k', None, {})
except Exception as e:
    raised = e
print('calls:', log, 'raised:', repr(raised))
os.remove(fn); os.rmdir(d)
ok = raised is not None and 'abort:U1' in log
print('HELD' if ok else 'REPRODUCED: upload U1 left open after failed complete')
sys.exit(0 if ok else 1)
