"""F1 (C07): TransferManager.shutdown(cancel=True, cancel_msg=m) passed (cancel, cancel, cancel_msg) to
_shutdown, i.e. msg=True and exc_type='...': the tracked transfer was not cancelled (TypeError).
Exit 1 = defect reproduced on the tree in sys.argv[1] (default /repo)."""
import sys, threading
sys.path.insert(0, sys.argv[1] if len(sys.argv) > 1 else '/repo')
from concurrent.futures import CancelledError
from s3transfer.manager import TransferManager, TransferConfig
from s3transfer.futures import NonThreadedExecutor
import botocore.session

client = botocore.session.get_session().create_client('s3', region_name='us-east-1',
    aws_access_key_id='x', aws_secret_access_key='y')
gate = threading.Event()
class Slow:  # subscriber keeping the transfer unfinished while shutdown(cancel=True) runs
    def on_queued(self, future, **kw): gate.wait(5)
mgr = TransferManager(client, TransferConfig(max_submission_concurrency=1))
import io
fut = mgr.upload(io.BytesIO(b'abc'), 'b', 'k', subscribers=[Slow()])
err = None
try:
    t = threading.Timer(0.5, gate.set); t.start()
    mgr.shutdown(cancel=True, cancel_msg='bye')
except BaseException as e:
    err = e
gate.set()
outcome = None
try:
    fut.result()
    outcome = 'success'
except BaseException as e:
    outcome = e
print('shutdown raised:', repr(err), '| future outcome:', repr(outcome))
ok = err is None and isinstance(outcome, CancelledError) and str(outcome) == 'bye'
print('HELD' if ok else 'REPRODUCED: shutdown(cancel=True, cancel_msg=...) does not cancel with the given message')
sys.exit(0 if ok else 1)
