"""F11 (C14, open): a non-seekable stream of unknown length longer than 10000 x chunk size makes the library
issue part number 10001 (the length is unknowable when the chunk size is chosen).
Exit 1 = reproduced on the tree in sys.argv[1] (default /repo)."""
import sys
sys.path.insert(0, sys.argv[1] if len(sys.argv) > 1 else '/repo')
from s3transfer.futures import TransferCoordinator, TransferFuture, TransferMeta
from s3transfer.upload import UploadNonSeekableInputManager
from s3transfer.utils import CallArgs, ChunksizeAdjuster, OSUtils
class Stream:
    def __init__(self, n): self.left = n
    def read(self, n=-1):
        k = self.left if n is None or n < 0 else min(n, self.left); self.left -= k; return bytes(k)
CH = 5 * 1024 * 1024
fut = TransferFuture(TransferMeta(CallArgs(fileobj=Stream(10001 * CH), subscribers=[])), TransferCoordinator())
mgr = UploadNonSeekableInputManager(OSUtils(), TransferCoordinator())
chunk = ChunksizeAdjuster().adjust_chunksize(CH, fut.meta.size)   # size is None
last = 0
for pn, body in mgr.yield_upload_part_bodies(fut, chunk):
    last = pn; body.close()
print('chunk size', chunk, 'highest part number issued', last)
print('HELD' if last <= 10000 else 'REPRODUCED: part number above 10000 for a stream of unknown length')
sys.exit(0 if last <= 10000 else 1)
