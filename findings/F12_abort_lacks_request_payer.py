"""F12 (C15): abort_multipart_upload (failure cleanup of a multipart upload/copy) never received the user's
RequestPayer / ExpectedBucketOwner although AbortMultipartUpload accepts both (on a requester-pays bucket the
abort is refused and the upload is orphaned). Exit 1 = reproduced on the tree in sys.argv[1] (default /repo)."""
import sys
sys.path.insert(0, sys.argv[1] if len(sys.argv) > 1 else '/repo')
from s3transfer.futures import TransferCoordinator
from s3transfer.tasks import CreateMultipartUploadTask
calls = []
class Client:
    def create_multipart_upload(self, **kw): calls.append(('create', kw)); return {'UploadId': 'U1'}
    def abort_multipart_upload(self, **kw): calls.append(('abort', kw))
coord = TransferCoordinator()
extra = {'RequestPayer': 'requester', 'ExpectedBucketOwner': '123', 'ACL': 'private'}
CreateMultipartUploadTask(coord, main_kwargs={'client': Client(), 'bucket': 'b', 'key': 'k', 'extra_args': extra})()
coord.set_exception(RuntimeError('part failed')); coord.announce_done()
abort = [kw for n, kw in calls if n == 'abort']
print('abort kwargs:', abort)
ok = len(abort) == 1 and abort[0].get('RequestPayer') == 'requester' and abort[0].get('ExpectedBucketOwner') == '123' and 'ACL' not in abort[0]
print('HELD' if ok else 'REPRODUCED: abort_multipart_upload lacks RequestPayer / ExpectedBucketOwner')
sys.exit(0 if ok else 1)
