"""F7 (C11, open): with multipart_chunksize below S3's 5 MiB minimum part size, stream uploads buffer parts of
5 MiB (the adjusted chunk size), above the documented bound max(multipart_chunksize, multipart_threshold).
Not repairable in the library (S3 limit). Exit 1 = reproduced on the tree in sys.argv[1] (default /repo)."""
import sys
sys.path.insert(0, sys.argv[1] if len(sys.argv) > 1 else '/repo')
from s3transfer.futures import TransferCoordinator, TransferFuture, TransferMeta
from s3transfer.manager import TransferConfig
from s3transfer.upload import UploadNonSeekableInputManager
from s3transfer.utils import CallArgs, ChunksizeAdjuster, OSUtils
MiB = 1024 * 1024
class Stream:
    def __init__(self, n): self.left = n
    def read(self, n=-1):
        k = self.left if n is None or n < 0 else min(n, self.left); self.left -= k; return b'x' * k
cfg = TransferConfig(multipart_chunksize=MiB, multipart_threshold=MiB)
fut = TransferFuture(TransferMeta(CallArgs(fileobj=Stream(12 * MiB), subscribers=[])), TransferCoordinator())
mgr = UploadNonSeekableInputManager(OSUtils(), TransferCoordinator())
assert mgr.requires_multipart_upload(fut, cfg)
chunk = ChunksizeAdjuster().adjust_chunksize(cfg.multipart_chunksize, fut.meta.size)
sizes = [len(body) for _, body in mgr.yield_upload_part_bodies(fut, chunk)]
bound = max(cfg.multipart_chunksize, cfg.multipart_threshold)
print('part buffer sizes:', sizes, 'documented bound:', bound)
ok = all(s <= bound for s in sizes)
print('HELD' if ok else 'REPRODUCED: part buffers larger than max(multipart_chunksize, multipart_threshold)')
sys.exit(0 if ok else 1)
