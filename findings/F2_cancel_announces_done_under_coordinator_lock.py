"""F2 (C04): TransferCoordinator.cancel() of a not-started transfer ran on_done callbacks while
holding the coordinator lock; a callback calling future.set_exception()/cancel() deadlocked.
Exit 1 = defect reproduced on the tree in sys.argv[1] (default /repo)."""
import sys, threading
sys.path.insert(0, sys.argv[1] if len(sys.argv) > 1 else '/repo')
from s3transfer.futures import TransferCoordinator, TransferFuture, TransferMeta

coord = TransferCoordinator(transfer_id=1)
fut = TransferFuture(TransferMeta(), coord)
called = []
def on_done():
    called.append('on_done')
    fut.set_exception(RuntimeError('replaced by subscriber'))   # public API, allowed in on_done
    called.append('returned')
coord.add_done_callback(on_done)
t = threading.Thread(target=fut.cancel, daemon=True)
t.start(); t.join(3)
print('callback trace:', called, 'cancel thread alive after 3s:', t.is_alive())
if t.is_alive():
    print('REPRODUCED: future.cancel() deadlocked inside on_done (coordinator lock held around callbacks)')
    sys.exit(1)
print('HELD')
sys.exit(0)
