"""F17 (C15, open): the legacy MultipartUploader sends complete_multipart_upload without the
user's SSE-C arguments although CompleteMultipartUpload accepts them (pinned by an existing unit test).
Exit 1 = reproduced on the tree in sys.argv[1] (default /repo)."""
import os, sys, tempfile
sys.path.insert(0, sys.argv[1] if len(sys.argv) > 1 else '/repo')
from s3transfer import MultipartUploader, OSUtils, TransferConfig
log = []
class Client:
    def create_multipart_upload(self, **kw): log.append(('create', kw)); return {'UploadId': 'U'}
    def upload_part(self, **kw): kw['Body'].read(); log.append(('part', kw)); return {'ETag': 'e'}
    def complete_multipart_upload(self, **kw): log.append(('complete', kw))
    def abort_multipart_upload(self, **kw): log.append(('abort', kw))
d = tempfile.mkdtemp(); fn = os.path.join(d, 'f'); open(fn, 'wb').write(b'x' * 25)
MultipartUploader(Client(), TransferConfig(multipart_threshold=10, multipart_chunksize=10, max_concurrency=1), OSUtils()).upload_file(
    fn, 'b', 'k', None, {'SSECustomerAlgorithm': 'AES256', 'SSECustomerKey': 'k'})
os.remove(fn); os.rmdir(d)
comp = [kw for n, kw in log if n == 'complete'][0]
print('complete kwargs:', sorted(comp))
ok = comp.get('SSECustomerAlgorithm') == 'AES256' and comp.get('SSECustomerKey') == 'k'
print('HELD' if ok else 'REPRODUCED: legacy complete_multipart_upload lacks the SSE-C arguments')
sys.exit(0 if ok else 1)
