"""F13 (C02, C16): a single-GET download (size below the threshold) into a non-seekable stream wrote the already
delivered prefix again when the body stream was retried, and still reported success.
Exit 1 = defect reproduced on the tree in sys.argv[1] (default /repo)."""
import socket, sys
sys.path.insert(0, sys.argv[1] if len(sys.argv) > 1 else '/repo')
from s3transfer.manager import TransferConfig, TransferManager

DATA = b'0123456789'
class Body:
    def __init__(self, fail_after): self.pos = 0; self.fail_after = fail_after
    def read(self, n):
        if self.fail_after is not None and self.pos >= self.fail_after:
            raise socket.timeout('stream interrupted')
        d = DATA[self.pos:self.pos + n]; self.pos += len(d); return d
class Events:
    def register_first(self, *a, **k): pass
    def register_last(self, *a, **k): pass
class Meta:
    events = Events()
class Client:
    meta = Meta()
    attempts = 0
    def head_object(self, **kw): return {'ContentLength': len(DATA)}
    def get_object(self, **kw):
        Client.attempts += 1
        return {'Body': Body(4 if Client.attempts == 1 else None)}
class WriteOnly:
    def __init__(self): self.data = b''
    def write(self, b): self.data += b
out = WriteOnly()
with TransferManager(Client(), TransferConfig(io_chunksize=4, multipart_threshold=100, num_download_attempts=3)) as m:
    fut = m.download('b', 'k', out)
    res = fut.result()
print('attempts:', Client.attempts, 'stream received:', out.data, 'result():', res)
ok = out.data == DATA
print('HELD' if ok else 'REPRODUCED: retried single GET duplicated bytes in the non-seekable destination')
sys.exit(0 if ok else 1)
