"""F3 (C16, C02): DeferQueue.request_writes dropped a re-delivered chunk that only partially overlapped
what was already released (and preferred a shorter queued chunk over a longer re-delivery at the same
offset), so bytes were never written and later chunks were withheld forever.
Exit 1 = defect reproduced on the tree in sys.argv[1] (default /repo)."""
import sys
sys.path.insert(0, sys.argv[1] if len(sys.argv) > 1 else '/repo')
from s3transfer.download import DeferQueue

OBJ = b'abcdefghijklmnopqrst'
def run(history):
    q, out, pos = DeferQueue(), b'', []
    for off, n in history:
        for w in q.request_writes(off, OBJ[off:off + n]):
            pos.append((len(out), w['offset'])); out += w['data']
    return out, pos

bad = []
# (1) attempt 1 of the only part delivered [0,3) and failed; attempt 2 is cut differently: [0,4), [4,8)
h1 = [(0, 3), (0, 4), (4, 4)]
# (2) part B=[10,20) arrives before part A=[0,10): attempt 1 of B queues [10,14),[14,15),[15,18) and fails,
#     attempt 2 of B delivers [10,15),[15,20); then A arrives
h2 = [(10, 4), (14, 1), (15, 3), (10, 5), (15, 5), (0, 10)]
for name, h, size in (('h1', h1, 8), ('h2', h2, 20)):
    out, pos = run(h)
    ok = out == OBJ[:size] and all(a == b for a, b in pos)
    print(name, 'history', h, '-> released', out, 'OK' if ok else 'LOST/DUPLICATED BYTES (expected %r)' % OBJ[:size])
    if not ok:
        bad.append(name)
print('HELD' if not bad else 'REPRODUCED: ' + ','.join(bad))
sys.exit(1 if bad else 0)
