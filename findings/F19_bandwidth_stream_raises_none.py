"""F19 (C13, fixed): BandwidthLimitedStream._consume_through_leaky_bucket read the coordinator's exception twice
(`while not coordinator.exception: ... else: raise coordinator.exception`).  The two reads are not atomic: a
cancel seen by the loop guard followed by the final task's set_result (which clears the exception) made the
second read None, so the read raised `TypeError: exceptions must derive from BaseException` instead of the
transfer's error.  The interleaving is forced deterministically by a coordinator whose `exception` property runs
the other thread's step (set_result) right after the guard's read.
Exit 1 = reproduced on the tree in sys.argv[1] (default /repo)."""
import io, sys
sys.path.insert(0, sys.argv[1] if len(sys.argv) > 1 else '/repo')
from s3transfer.bandwidth import BandwidthLimitedStream, LeakyBucket
from s3transfer.futures import TransferCoordinator


class Coord(TransferCoordinator):
    reads = 0

    @property
    def exception(self):
        e = self._exception
        Coord.reads += 1
        if Coord.reads == 1:
            self.set_result('done by the final task')     # the other thread's step, between the two reads
        return e


c = Coord()
c.cancel('user cancelled')
s = BandwidthLimitedStream(io.BytesIO(b'x' * 1000), LeakyBucket(10), c, bytes_threshold=1)
try:
    s.read(100)
    out = 'returned data'
except BaseException as e:
    out = f'{type(e).__name__}: {e}'
print('read ->', out)
bad = out.startswith('TypeError')
print('REPRODUCED: raised None instead of the transfer error' if bad else 'HELD')
sys.exit(1 if bad else 0)
