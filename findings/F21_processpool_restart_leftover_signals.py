"""F21 witness (C19): ProcessPoolDownloader can be used again after shutdown() (_started is reset), but _shutdown_get_object_workers
sends one SHUTDOWN signal per entry of self._workers, and that list is never cleared: after a restart it also holds the dead workers of
the previous cycle, so 2N signals are queued for N live workers.  The N left-over signals stay in the worker queue (which is reused) and
are the first thing the workers of the NEXT start read: they exit at once, the jobs of the next download are never run, its future
never becomes done and shutdown() blocks.

usage: /venv/bin/python F21_processpool_restart_leftover_signals.py [<library root>]   exit 1 = reproduced, 0 = not reproduced"""
import os, sys, tempfile, threading, shutil
from io import BytesIO
LIB = os.path.abspath(sys.argv[1] if len(sys.argv) > 1 else '/repo')
sys.path.insert(0, LIB)
import s3transfer.processpool as pp

DATA = b'x' * 1000


class FakeClient:
    def head_object(self, Bucket, Key, **kw):
        return {'ContentLength': len(DATA)}

    def get_object(self, Bucket, Key, **kw):
        return {'Body': BytesIO(DATA)}


class FakeClientFactory:
    def __init__(self, client_kwargs=None):
        pass

    def create_client(self):
        return FakeClient()


pp.ClientFactory = FakeClientFactory
tmp = tempfile.mkdtemp()
d = pp.ProcessPoolDownloader(config=pp.ProcessTransferConfig(max_request_processes=2))


def cycle(i, timeout=10.0):
    dest = os.path.join(tmp, f'out{i}')
    box = {}

    def run():
        f = d.download_file('b', 'k', dest)
        f.result()
        box['ok'] = open(dest, 'rb').read() == DATA
        d.shutdown()
        box['shutdown'] = True
    t = threading.Thread(target=run, daemon=True)
    t.start()
    t.join(timeout)
    return box


rc = 0
for i in (1, 2):
    r = cycle(i)
    print(f'cycle {i}:', r or 'HUNG (download never became done)')
    if not (r.get('ok') and r.get('shutdown')):
        rc = 1
# third use: "shutdown waits for all downloads" -- submit, then shut down without waiting on the future
dest = os.path.join(tmp, 'out3')
box = {}


def third():
    f = d.download_file('b', 'k', dest)
    d.shutdown()
    box['shutdown_returned'] = True
    box['destination_complete'] = os.path.exists(dest) and open(dest, 'rb').read() == DATA


t = threading.Thread(target=third, daemon=True)
t.start()
t.join(15.0)
print('cycle 3 (download_file, then shutdown):', box or 'HUNG')
if not box.get('destination_complete'):
    print('shutdown() returned although the download it was given had not been carried out' if box.get('shutdown_returned')
          else 'shutdown() did not return')
    rc = 1
for p in __import__('multiprocessing').active_children():
    p.terminate()
shutil.rmtree(tmp, ignore_errors=True)
sys.exit(rc)
