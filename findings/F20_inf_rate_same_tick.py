"""F20 witness (C13): with a clock that returns the same reading for two consecutive consumptions (coarse clock / same tick),
a scheduled request that is granted in the tick of the previous consumption records an INFINITE consumption rate; the
exponential moving average then stays infinite for ever (0.8*x + 0.2*inf = inf), so every later read of every transfer of
the manager is throttled, however small and however long the bucket was idle.

usage: /venv/bin/python F20_inf_rate_same_tick.py [<library root>]   exit 1 = defect reproduced, 0 = not reproduced"""
import sys
sys.path.insert(0, sys.argv[1] if len(sys.argv) > 1 else '/repo')
from s3transfer.bandwidth import LeakyBucket, RequestExceededException, RequestToken


class Clock:
    def __init__(self):
        self.now = 0.0

    def time(self):
        return self.now

    def sleep(self, s):
        self.now += s


clock = Clock()
bucket = LeakyBucket(max_rate=1000, time_utils=clock)
a, b = RequestToken(), RequestToken()
bucket.consume(2000, a)                      # t=0: first consumption, nothing tracked yet: granted
clock.now = 1.0
try:
    bucket.consume(2000, b)                  # t=1: 2000 B/s projected > 1000 B/s: scheduled, wait 2 s
    print('unexpected: b granted at once'); sys.exit(0)
except RequestExceededException as e:
    wake = clock.now + e.retry_time
clock.now = wake
bucket.consume(10, a)                        # t=3: a small read of the other stream is granted in this tick ...
bucket.consume(2000, b)                      # ... and b's scheduled request is granted in the SAME tick (time delta 0)
rate = bucket._rate_tracker.current_rate
print('tracked rate after the same-tick grant:', rate)
delayed = 0
for i in range(5):                           # five 1-byte reads, 1000 s apart: demand is far below 1000 B/s
    clock.now += 1000.0
    try:
        bucket.consume(1, RequestToken())
    except RequestExceededException:
        delayed += 1
print('1-byte reads 1000 s apart that were throttled:', delayed, 'of 5')
sys.exit(1 if (rate == float('inf') or delayed) else 0)
