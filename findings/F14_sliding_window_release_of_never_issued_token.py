"""F14 (C12): SlidingWindowSemaphore.release(tag, n) accepted the never-issued token n == next sequence
number when no token of the tag was outstanding: capacity grew beyond the configured count.
Exit 1 = defect reproduced on the tree in sys.argv[1] (default /repo)."""
import sys
sys.path.insert(0, sys.argv[1] if len(sys.argv) > 1 else '/repo')
from s3transfer.utils import SlidingWindowSemaphore
sem = SlidingWindowSemaphore(1)
t = sem.acquire('a'); sem.release('a', t)             # window empty again, capacity 1
try:
    sem.release('a', 1)                               # token 1 was never issued
    rejected = False
except ValueError:
    rejected = True
print('release of never-issued token rejected:', rejected, '| capacity now', sem.current_count(), '(configured 1)')
ok = rejected and sem.current_count() == 1
print('HELD' if ok else 'REPRODUCED: never-issued token accepted, capacity exceeds the configured count')
sys.exit(0 if ok else 1)
